from engine.core import Ob

CK = ('--bounds-check', '--pointer-check', '--signed-overflow-check', '--div-by-zero-check')
CKL = ('--bounds-check', '--signed-overflow-check', '--div-by-zero-check')
H = 'C03/callrcu.c'
D = ('_LGPL_SOURCE',)
OBLIGATIONS = [
    Ob(name='C03.O1.call_rcu_enqueue', harness=H, entry='h_call_rcu', defines=D, mode='legacy', unwind=3, native=True, min_covers=2, checks=CK, functions=('_call_rcu', 'wake_call_rcu_thread', 'call_rcu_wake_up'),
       desc='_call_rcu on helpers with 0..2 queued callbacks: node initialised, one enqueue at the tail, qlen+1, enqueue -> full barrier -> futex test, wake iff asleep and not real-time'),
    Ob(name='C03.O2.thread_iteration', harness=H, entry='h_thread_iteration', defines=D, mode='legacy', rules=('callrcu',), tier='B', bound='batch of <= 3 callbacks, one callback enqueued concurrently during the grace period',
       replace=('urcu_memb_synchronize_rcu', 'set_thread_cpu_affinity', 'urcu_memb_register_thread', 'urcu_memb_unregister_thread'),
       unwind=4, min_covers=3, checks=CKL, timeout=600, functions=('call_rcu_thread',),
       assumptions=('the indirect call rhp->func(rhp) is rewritten (must-fire) to a checked direct call of the harness callback',),
       desc='one iteration of call_rcu_thread: splice the whole queue, one grace period, every spliced callback exactly once in FIFO order with its own rcu_head and only after a grace period that began after it was queued; a callback enqueued during the grace period is NOT run in this iteration; next pointer read before the callback (which poisons its node); STOP acknowledged'),
    Ob(name='C03.O2.helper_sleep', harness=H, entry='h_helper_sleep', defines=D, mode='legacy', rules=('callrcu',), tier='B', bound='three passes: a callback enqueued during a grace period (queue not empty at the sleep decision), one sleep / wake-up cycle, one callback enqueued while the helper sleeps; loop unwound 5x',
       replace=('urcu_memb_synchronize_rcu', 'set_thread_cpu_affinity', 'urcu_memb_register_thread', 'urcu_memb_unregister_thread'),
       unwind=5, cbmc_flags=('--no-unwinding-assertions',), min_covers=1, checks=CKL, timeout=600, functions=('call_rcu_thread', 'call_rcu_wait'),
       desc='helper sleep path: futex decremented, full barrier, THEN the queue is tested; sleeps only on -1 with the queue seen empty; a callback enqueued while it sleeps (producer: enqueue, barrier, futex -1 -> 0, wake) is run once after a grace period'),
    Ob(name='C03.O4.data_free', harness=H, entry='h_data_free', defines=D, mode='legacy', tier='B', bound='<= 2 leftover callbacks, <= 1 callback already on the default helper',
       unwind=4, cbmc_flags=('--no-unwinding-assertions',), min_covers=2, checks=CKL, timeout=600, functions=('_call_rcu_data_free',),
       desc='_call_rcu_data_free: STOP/wake/wait STOPPED first; leftovers spliced behind the default helper\'s own callbacks in order, each once; qlen transferred; default woken; helper unlinked and freed once; join only on request'),
    Ob(name='C03.O4.data_free_refused', harness=H, entry='h_data_free_refused', defines=D, mode='legacy', unwind=2, cover=False, checks=CK, functions=('_call_rcu_data_free',),
       desc='_call_rcu_data_free refuses NULL and the default helper'),
]
SEL = 'C03/select.c'
for e, fns, d in (
    ('h_get_cpu', ('get_cpu_call_rcu_data',), 'get_cpu_call_rcu_data for EVERY int cpu and table length 0..3: NULL without table / out of range, else that entry; no access outside the table'),
    ('h_set_cpu', ('set_cpu_call_rcu_data',), 'set_cpu_call_rcu_data for every int cpu: -EINVAL / -ENOMEM / -EEXIST / stores exactly that entry; mutex released on every path'),
    ('h_get_call_rcu_data', ('get_call_rcu_data', 'get_default_call_rcu_data', 'call_rcu_data_init'), 'helper selection: thread helper > per-CPU helper of the current CPU (any sched_getcpu result) > default helper, created once with its thread if missing'),
    ('h_call_rcu_public', ('call_rcu',), 'call_rcu(): selection + one enqueue on the selected helper inside one read-side critical section of the caller; nesting restored'),
):
    OBLIGATIONS.append(Ob(name='C03.O3.' + e[2:], harness=SEL, entry=e, defines=D, mode='legacy', replace=('get_possible_cpus_array_len',), unwind=4, min_covers=2, checks=CK, functions=fns, timeout=300, desc=d))
OBLIGATIONS.append(Ob(name='C03.O3.free_all_cpu', harness=SEL, entry='h_free_all', defines=D + ('FREE_ALL',), mode='legacy', replace=('get_possible_cpus_array_len', 'urcu_memb_synchronize_rcu', 'urcu_memb_call_rcu_data_free'),
    unwind=5, min_covers=2, checks=CK, functions=('free_all_cpu_call_rcu_data',), timeout=300,
    desc='free_all_cpu_call_rcu_data on tables of 1..3 CPUs with any occupancy: all per-CPU helpers are unpublished, THEN a grace period, THEN each is freed exactly once (a helper is never freed while a call_rcu() that looked it up may still enqueue on it)'))
# futex-wait loops of the helper / of rcu_barrier (shared with C02; late import via engine/check.py)
def _shared():
    from obligations import C02 as _c02
    _r = [o for o in _c02.OBLIGATIONS if o.name in ('C02.O3.call_rcu_wait',)]
    from obligations import C10 as _c10
    _r += [o for o in _c10.OBLIGATIONS if o.name in ('C10.O1.enqueue', 'C10.O1.splice', 'C10.O1.iter', 'C10.O1.busy_wait', 'C10.O4.iter_env')]
    return _r
META = {
    'level': 'other',
    'explanation': 'C03 quantifies over schedules of enqueuers, helper threads and grace periods. Contracts decide the per-function obligations: _call_rcu enqueues exactly once (FIFO, wake-up handshake); one helper iteration = splice all, one grace period, each spliced callback once in order with its own rcu_head, never a callback enqueued during that grace period; a freed helper hands its leftovers to the default helper once and in order. Batches and leftovers are bounded (<= 3); the unbounded queue contracts are C10.',
    'trusted_base': ['CBMC 6.11', 'assumed contract of synchronize_rcu (C01)', 'wfcqueue code is included for real (its unbounded contracts: C10)', 'pthread / futex / poll stubs', 'free() logged instead of performed'],
    'assumptions': ['wake-up liveness and helper scheduling are not decided', 'races between enqueuers and the helper beyond the queue contracts (C10) are not decided'],
}
