from engine.core import Ob

FUNCS = ('start_poll_synchronize_rcu', 'poll_state_synchronize_rcu', 'urcu_poll_worker_cb')
OBLIGATIONS = []
for fl, quick in (('MEMB', True), ('MB', True), ('QSBR', True), ('BP', True)):
    call = 'urcu_%s_call_rcu' % fl.lower()
    for entry, desc in (
            ('h_start_poll_new', 'start_poll: {INV, no witness} start_poll() {INV for the returned handle; handle=current|current+1; callback queued iff idle}'),
            ('h_start_poll_other', 'start_poll for another handle preserves INV of an arbitrary earlier handle'),
            ('h_worker_cb', 'worker callback: current+1 exactly once, re-queue iff later target outstanding, INV preserved'),
            ('h_poll_state', 'poll_state: true => completed callback queued at/after issue (never early); false => callback pending; read-only'),
            ('h_monotone', 'once poll_state would return true it stays true across any monitor step'),
            ('h_init', 'static initial state satisfies INV')):
        OBLIGATIONS.append(Ob(
            name='C14.%s.%s' % (fl.lower(), entry[2:]), harness='C14/poll.c', entry=entry, desc=desc + ' [%s flavor TU]' % fl.lower(),
            mode='legacy', replace=(call,), defines=('FLAVOR_' + fl, '_LGPL_SOURCE'),
            unwind=1, min_props=3, cover=(entry != 'h_init'), min_covers=0 if entry == 'h_init' else 2,
            functions=FUNCS, native=(fl == 'MEMB'), timeout=120,
            tiers=('quick', 'thorough')))

# poll handles are only as good as call_rcu: a callback queued DURING a grace period must not run at the end of that grace period
# (shared with C03; late import via engine/check.py)
def _shared():
    from obligations import C03 as _c03
    return [o for o in _c03.OBLIGATIONS if o.name in ('C03.O1.call_rcu_enqueue', 'C03.O2.thread_iteration', 'C03.O2.helper_sleep', 'C03.O4.data_free', 'C03.O4.data_free_refused')]
META = {
    'level': 'proof', 'bounded_apart': True,
    'trusted_base': ['CBMC 6.11 (goto-cc, goto-instrument contract replacement, SAT back end)',
                     'assumed contract of call_rcu (C03): callback runs once, after a grace period following the call; rcu_head not re-queued while pending',
                     'pthread_mutex_lock/unlock stubs with ghost held-flag (mutual exclusion of the three functions is what makes each an atomic monitor step)'],
    'assumptions': ['call_rcu contract is C03 (not re-proved here)', 'outstanding handles are polled within 2^62 grace periods of their issue (wrap-around window of the signed comparison)',
                    'logical clock G_now < 2^63', 'machine arithmetic is 64-bit two\'s complement as CBMC models it (no mathematical idealisation)'],
    'explanation': '',
}
