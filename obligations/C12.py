from engine.core import Ob

H = 'C12/lfq.c'
F = ('_cds_lfq_enqueue_rcu', '_cds_lfq_dequeue_rcu', 'enqueue_dummy', 'make_dummy', 'rcu_free_dummy', '_cds_lfq_destroy_rcu', '_cds_lfq_init_rcu')
CK = ('--bounds-check', '--pointer-check', '--signed-overflow-check', '--div-by-zero-check')
OBLIGATIONS = [
    Ob(name='C12.O1.enqueue', harness=H, entry='h_enqueue', unwind=2, min_covers=2, functions=F, checks=CK,
       desc='rculfqueue enqueue on a quiescent queue of any length: linked at the tail, tail advanced, single iteration'),
    Ob(name='C12.O1.dequeue', harness=H, entry='h_dequeue', unwind=3, min_covers=5, functions=F, checks=CK, timeout=300,
       desc='rculfqueue dequeue on every quiescent shape ([dummy]? + 0, 1 or >= 2 real nodes; for >= 2 the rest of the chain and the tail are unconstrained pointers - footprint argument): oldest real node, NULL iff none, dummy never returned, leading dummy retired via queue_call_rcu exactly once, nothing freed directly, fresh dummy appended before the last node leaves'),
    Ob(name='C12.O1.destroy', harness=H, entry='h_destroy', unwind=1, min_covers=3, functions=F, checks=CK,
       desc='rculfqueue destroy: 0 and frees the dummy iff the queue is empty, else -EPERM and frees nothing'),
    Ob(name='C12.O1.destroy_trailing_dummy', harness=H, entry='h_destroy_trailing_dummy', unwind=2, min_covers=2, functions=F, checks=CK,
       desc='cds_lfq_destroy_rcu on head -> real node(s) -> trailing dummy: -EPERM, nothing freed, nothing changed (emptiness is decided at the head)'),
    Ob(name='C12.O1.init', harness=H, entry='h_init', unwind=2, cover=False, functions=F, checks=CK, desc='init: one dummy, head == tail, empty, destroyable'),
    Ob(name='C12.O2.dequeue_env', harness=H, entry='h_dequeue_env', tier='B', bound='<= 2 real nodes (+ optional leading dummy), 1 concurrent enqueue split into its CAS steps, retry loops unwound 4x',
       defines=('ENV_MODE',), unwind=7, unwindset=('_cds_lfq_dequeue_rcu.0:4', '_cds_lfq_enqueue_rcu.0:4'), cbmc_flags=('--no-unwinding-assertions',), min_covers=3, functions=F, checks=CK, timeout=300,
       desc='dequeue with an enqueuer acting between any two of its shared accesses: returns the oldest node; every other node, including the concurrently enqueued one, stays queued exactly once and in order'),
    Ob(name='C12.O2.enqueue_env', harness=H, entry='h_enqueue_env', tier='B', bound='<= 1 real node (+ optional leading dummy), 1 concurrent enqueue split into its CAS steps and helping, retry loops unwound 4x',
       defines=('ENV_MODE',), unwind=7, unwindset=('_cds_lfq_enqueue_rcu.0:4',), cbmc_flags=('--no-unwinding-assertions',), min_covers=3, functions=F, checks=CK, timeout=300,
       desc='enqueue with another enqueuer acting between any two of its shared accesses (incl. appending behind the new node before the tail update): both nodes queued exactly once, no cycle, the tail is never dragged back behind a node appended meanwhile'),
]
# operations run from the states a suspended enqueuer / pusher leaves behind (shared with C17; late import via engine/check.py):
# nothing is lost or reported as 'end' while a link is still in flight
def _shared():
    from obligations import C17 as _c17
    _r = [o for o in _c17.OBLIGATIONS if o.name in ('C17.O4.frozen.lfq_enqueue_frozen', 'C17.O4.frozen.lfq_dequeue_frozen')]
    # "dummies are reclaimed only after a grace period, for every flavor's call_rcu": what call_rcu promises is C03
    from obligations import C03 as _c03
    _r += [o for o in _c03.OBLIGATIONS if o.name in ('C03.O1.call_rcu_enqueue', 'C03.O2.thread_iteration')]
    return _r
META = {
    'level': 'proof', 'bounded_apart': True,
    'trusted_base': ['CBMC 6.11 (incl. its malloc/free model)', 'sequential meaning of the uatomic/cmm primitives', 'canonical pool layout'],
    'assumptions': ['linearizability over all schedules is not decided', 'reuse after a grace period gives the no-ABA rely (C01)'],
}
