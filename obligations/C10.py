from engine.core import Ob

SEQ = 'C10/wfcq_seq.c'
F = ('___cds_wfcq_append', '_cds_wfcq_enqueue', '___cds_wfcq_dequeue_with_state', '___cds_wfcq_node_sync_next', '___cds_wfcq_first',
     '___cds_wfcq_next', '___cds_wfcq_splice', '_cds_wfcq_empty', '_cds_wfcq_init')
OBLIGATIONS = [
    Ob(name='C10.O1.enqueue', harness=SEQ, entry='h_enqueue', unwind=1, min_covers=2, functions=F,
       desc='enqueue on a quiescent queue of any length: appended at the tail, returns non-empty flag, nothing else changed, no waiting primitive'),
    Ob(name='C10.O1.dequeue', harness=SEQ, entry='h_dequeue', unwind=1, min_covers=4, functions=F,
       desc='dequeue (blocking / non-blocking, with / without state) on a quiescent queue of any length: position 0, head advances by one, tail reset iff last, LAST iff last, NULL iff empty, never WOULDBLOCK'),
    Ob(name='C10.O1.iter', harness=SEQ, entry='h_iter', unwind=1, min_covers=2, functions=F,
       desc='first = position 0; next(position k) = position k+1, NULL at the end (induction step of the for_each macros); empty() <=> n == 0; read-only'),
    Ob(name='C10.O1.splice', harness=SEQ, entry='h_splice', unwind=1, min_covers=3, functions=F, timeout=600,
       desc='splice: dest = dest ++ src in order, source empty and reusable, return code, both chains intact (witness)'),
    Ob(name='C10.O1.init', harness=SEQ, entry='h_init', unwind=1, cover=False, functions=F, desc='init gives an empty queue'),
    Ob(name='C10.O1.busy_wait', harness=SEQ, entry='h_busy_wait', unwind=1, min_covers=3, functions=('___cds_wfcq_busy_wait',),
       desc='___cds_wfcq_busy_wait for every attempt counter: returns 1 (would block) iff the caller is non-blocking; a blocking caller spins WFCQ_ADAPT_ATTEMPTS times, sleeps, restarts its count and is never told to give up'),
    Ob(name='C10.O2.wfq_enqueue', harness='C10/wfq_seq.c', entry='h_wfq_enqueue', unwind=1, min_covers=2, functions=('_cds_wfq_enqueue',),
       desc='legacy cds_wfq enqueue on a quiescent queue of any length with the dummy anywhere: appended at the tail; tail exchange (SEQ_CST) precedes the release store of the link; wait-free'),
    Ob(name='C10.O2.wfq_dequeue', harness='C10/wfq_seq.c', entry='h_wfq_dequeue', unwind=2, min_covers=4, functions=('___cds_wfq_dequeue_blocking', '___cds_wfq_node_sync_next'),
       desc='legacy cds_wfq dequeue: oldest real node, NULL iff none, dummy never returned, a leading dummy recycled to the tail with at most one recursion'),
    Ob(name='C10.O4.dequeue_env', harness='C10/wfcq_env.c', entry='h_dequeue_env', tier='B', bound='1 concurrent enqueue split into its 2 atomic steps at arbitrary points, busy-wait loops unwound 3x',
       unwind=3, cbmc_flags=('--no-unwinding-assertions',), min_covers=4, functions=F, timeout=240,
       desc='dequeue (blocking / non-blocking) with enqueuers running between any two of its shared accesses: returns the first element; afterwards the chain is exactly (old ++ enqueued) minus that element; WOULDBLOCK leaves the queue as it was'),
    Ob(name='C10.O4.iter_env', harness='C10/wfcq_env.c', entry='h_iter_env', tier='B', bound='1 concurrent enqueue split into its 2 atomic steps at arbitrary points, busy-wait loops unwound 3x',
       unwind=3, cbmc_flags=('--no-unwinding-assertions',), min_covers=2, functions=F, timeout=240,
       desc='first/next under concurrent enqueuers: successor in queue order, NULL only at the then-last node, WOULDBLOCK only on an in-flight link; queue unchanged'),
]
OBLIGATIONS.append(Ob(name='C10.O3.lock_discipline.wfcq', harness='C11/lockdisc.c', entry='h_lock_wfcq', defines=('PART_WFCQ',), unwind=3, min_covers=2, checks=('--bounds-check', '--signed-overflow-check', '--div-by-zero-check'), functions=('cds_wfcq_dequeue_blocking', 'cds_wfcq_dequeue_with_state_blocking', 'cds_wfcq_splice_blocking'), timeout=300, native=True,
    desc='mutex-protected consumer wrappers (cds_wfcq_dequeue_blocking, cds_wfcq_dequeue_with_state_blocking, cds_wfcq_splice_blocking): every access to the consumer-side words happens with the structure\'s own mutex held, taken once and released once; result = result of the lock-free core (mutual exclusion of consumers is the documented scheme that rules out ABA / torn dequeues)'))
OBLIGATIONS.append(Ob(name='C10.O3.lock_discipline.wfq', harness='C11/lockdisc.c', entry='h_lock_wfq', defines=('PART_WFQ',), unwind=3, min_covers=2, checks=('--bounds-check', '--signed-overflow-check', '--div-by-zero-check'), functions=('cds_wfq_dequeue_blocking',), timeout=300, native=True,
    desc='mutex-protected consumer wrappers (cds_wfq_dequeue_blocking): every access to the consumer-side words happens with the structure\'s own mutex held, taken once and released once; result = result of the lock-free core (mutual exclusion of consumers is the documented scheme that rules out ABA / torn dequeues)'))
# operations run from the states a suspended enqueuer / pusher leaves behind (shared with C17; late import via engine/check.py):
# nothing is lost or reported as 'end' while a link is still in flight
def _shared():
    from obligations import C17 as _c17
    return [o for o in _c17.OBLIGATIONS if o.name in ('C17.O4.frozen.wfcq_dequeue_nb', 'C17.O4.frozen.wfcq_iter_nb', 'C17.O4.frozen.wfcq_splice_nb', 'C17.O4.frozen.wfcq_enqueue_frozen')]
META = {
    'level': 'proof', 'bounded_apart': True,
    'trusted_base': ['CBMC 6.11', 'sequential meaning of the uatomic/cmm primitives (atomics_seq.h)', 'canonical pool layout (layout-obliviousness of the verified functions)'],
    'assumptions': ['full linearizability under all schedules is not decided'],
}
