from engine.core import Ob

ARR = ('--arrays-uf-always',)
OBLIGATIONS = [
    Ob(name='C13.O2.decode', harness='C13/defer.c', entry='h_decode',
       desc='rcu_defer_barrier_queue: for every well-formed ghost entry table (any count <= 4096, any 64-bit tail, any (fct,p) bit patterns, any wrap position) the calls made are exactly the entries, in order, each once; last_fct_out, tail, barrier before tail store; termination (variant)',
       mode='legacy', loop_contracts=True, defines=('DECODE_MODE', '_LGPL_SOURCE'), rules=('defer',), cbmc_flags=ARR,
       need_loop_assertions=2, min_props=20, min_covers=5, timeout=300, functions=('rcu_defer_barrier_queue',)),
    Ob(name='C13.O1.encode', harness='C13/defer.c', entry='h_encode',
       desc='_defer_rcu: for all (fct,p,last_fct_in,head,tail) without flush: slots written are exactly the documented 1/2/3-slot encoding, nothing else written, head published after the slots (wmb) and before a full barrier + futex test',
       mode='legacy', defines=('ENCODE_MODE', '_LGPL_SOURCE'), rules=('defer',), cbmc_flags=ARR, unwind=1,
       min_props=10, min_covers=5, timeout=300, functions=('_defer_rcu', 'wake_up_defer')),
    Ob(name='C13.O3.roundtrip', harness='C13/defer.c', entry='h_roundtrip',
       desc='decode(encode(fct,p)) on a drained queue invokes exactly (fct,p) once, for all 2^128 bit patterns and any last function',
       mode='legacy', defines=('ENCODE_MODE', '_LGPL_SOURCE'), rules=('defer',), cbmc_flags=ARR, unwind=2,
       min_props=10, min_covers=4, timeout=300, functions=('_defer_rcu', 'rcu_defer_barrier_queue')),
]

META = {
    'level': 'proof',
    'trusted_base': ['CBMC 6.11', 'sequential meaning of uatomic_load/store and cmm_* (atomics_seq.h)',
                     'must-fire scratch rewrites: DQ_FCT_MARK widening (same value under GCC), fct(p) -> recorder, loop-contract marker',
                     'assumed contract of synchronize_rcu (C01)', 'pthread/futex stubs'],
    'assumptions': ['reclaimer thread schedules and sleep/wake liveness are not decided', 'array theory (--arrays-uf-always) for the 4096-slot ring'],
}
