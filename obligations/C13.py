from engine.core import Ob
from engine import native


def replay_rereg(ctx, ob, inputs):
    return native.run_program(ctx, 'rereg', 'C13/native_rereg.c', extra_sources=('compat_futex.c', 'compat_arch.c', 'wfcqueue.c', 'wfstack.c'))

ARR = ('--arrays-uf-always',)
OBLIGATIONS = [
    Ob(name='C13.O2.decode', harness='C13/defer.c', entry='h_decode',
       desc='rcu_defer_barrier_queue: for every well-formed ghost entry table (any count <= 4096, any 64-bit tail, any (fct,p) bit patterns, any wrap position) the calls made are exactly the entries, in order, each once; last_fct_out, tail, barrier before tail store; termination (variant)',
       mode='legacy', loop_contracts=True, defines=('DECODE_MODE', '_LGPL_SOURCE'), rules=('defer',), cbmc_flags=ARR,
       need_loop_assertions=2, min_props=20, min_covers=5, timeout=300, functions=('rcu_defer_barrier_queue',)),
    Ob(name='C13.O1.encode', harness='C13/defer.c', entry='h_encode',
       desc='_defer_rcu: for all (fct,p,last_fct_in,head,tail) without flush: slots written are exactly the documented 1/2/3-slot encoding, nothing else written, head published after the slots (wmb) and before a full barrier + futex test',
       mode='legacy', defines=('ENCODE_MODE', '_LGPL_SOURCE'), rules=('defer',), cbmc_flags=ARR, unwind=1,
       min_props=10, min_covers=5, timeout=300, functions=('_defer_rcu', 'wake_up_defer')),
    Ob(name='C13.O3.roundtrip', harness='C13/defer.c', entry='h_roundtrip',
       desc='decode(encode(fct,p)) on a drained queue invokes exactly (fct,p) once, for all 2^128 bit patterns and any last function',
       mode='legacy', defines=('ENCODE_MODE', '_LGPL_SOURCE'), rules=('defer',), cbmc_flags=ARR, unwind=2,
       min_props=10, min_covers=4, timeout=300, functions=('_defer_rcu', 'rcu_defer_barrier_queue')),
    Ob(name='C13.O4.flush', harness='C13/lifecycle.c', entry='h_flush',
       desc='_defer_rcu with >= SIZE-2 slots in use: flushes own queue first (rcu_defer_barrier_thread contract), then queues; capacity never exceeded',
       mode='legacy', replace=('urcu_memb_defer_barrier_thread',), defines=('_LGPL_SOURCE',), rules=('defer',), cbmc_flags=ARR, unwind=1,
       min_props=10, min_covers=2, functions=('_defer_rcu',)),
    Ob(name='C13.O4.noflush', harness='C13/lifecycle.c', entry='h_noflush',
       desc='_defer_rcu below the threshold: no flush, entry fits', mode='legacy', replace=('urcu_memb_defer_barrier_thread',),
       defines=('_LGPL_SOURCE',), rules=('defer',), cbmc_flags=ARR, unwind=1, min_props=10, min_covers=1, functions=('_defer_rcu',)),
    Ob(name='C13.O5.barrier_thread', harness='C13/lifecycle.c', entry='h_barrier_thread',
       desc='rcu_defer_barrier_thread: head snapshot before synchronize_rcu, only entries below it invoked after it; no GP when empty; queue empty afterwards',
       mode='legacy', replace=('rcu_defer_barrier_queue', 'urcu_memb_synchronize_rcu'), defines=('_LGPL_SOURCE',), rules=('defer',), unwind=1,
       min_props=10, min_covers=2, functions=('rcu_defer_barrier_thread', '_rcu_defer_barrier_thread')),
    Ob(name='C13.O5.barrier_all', harness='C13/lifecycle.c', entry='h_barrier_all', tier='B', bound='registry of 2 defer queues',
       desc='rcu_defer_barrier: every registered queue drained exactly once up to its PRE-grace-period head snapshot while its owner keeps queueing during the grace period',
       mode='legacy', replace=('rcu_defer_barrier_queue', 'urcu_memb_synchronize_rcu'), defines=('_LGPL_SOURCE',), rules=('defer',), unwind=4,
       checks=('--bounds-check', '--signed-overflow-check', '--div-by-zero-check'),
       min_props=5, min_covers=2, functions=('rcu_defer_barrier',)),
    Ob(name='C13.O6.unregister_register', harness='C13/lifecycle.c', entry='h_unregister_register',
       desc='rcu_defer_unregister_thread drains the queue after a GP, frees the ring, stops the reclaimer iff registry empty, AND leaves a state satisfying the entry assertions of rcu_defer_register_thread (re-registration)',
       mode='legacy', replace=('rcu_defer_barrier_queue', 'urcu_memb_synchronize_rcu'), defines=('_LGPL_SOURCE',), rules=('defer',), unwind=3,
       checks=('--bounds-check', '--signed-overflow-check', '--div-by-zero-check'),
       min_props=10, min_covers=2, functions=('rcu_defer_unregister_thread', 'rcu_defer_register_thread', 'stop_defer_thread', 'start_defer_thread'),
       native_custom=replay_rereg),
]

META = {
    'level': 'proof', 'bounded_apart': True,
    'trusted_base': ['CBMC 6.11', 'sequential meaning of uatomic_load/store and cmm_* (atomics_seq.h)',
                     'must-fire scratch rewrites: DQ_FCT_MARK widening (same value under GCC), fct(p) -> recorder, loop-contract marker',
                     'assumed contract of synchronize_rcu (C01)', 'pthread/futex stubs'],
    'assumptions': ['reclaimer thread schedules and sleep/wake liveness are not decided', 'array theory (--arrays-uf-always) for the 4096-slot ring'],
}
