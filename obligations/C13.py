from engine.core import Ob
from engine import native


def replay_rereg(ctx, ob, inputs):
    return native.run_program(ctx, 'rereg', 'C13/native_rereg.c', extra_sources=('compat_futex.c', 'compat_arch.c', 'wfcqueue.c', 'wfstack.c'))

ARR = ('--arrays-uf-always',)
OBLIGATIONS = [
    Ob(name='C13.O2.decode', harness='C13/defer.c', entry='h_decode',
       desc='rcu_defer_barrier_queue: for every well-formed ghost entry table (any count <= 4096, any 64-bit tail, any (fct,p) bit patterns, any wrap position) the calls made are exactly the entries, in order, each once; last_fct_out, tail, barrier before tail store; termination (variant)',
       mode='legacy', loop_contracts=True, defines=('DECODE_MODE', '_LGPL_SOURCE'), rules=('defer',), cbmc_flags=ARR,
       need_loop_assertions=2, min_props=20, min_covers=5, timeout=300, functions=('rcu_defer_barrier_queue',)),
    Ob(name='C13.O1.encode', harness='C13/defer.c', entry='h_encode',
       desc='_defer_rcu: for all (fct,p,last_fct_in,head,tail) without flush: slots written are exactly the documented 1/2/3-slot encoding, nothing else written, head published after the slots (wmb) and before a full barrier + futex test',
       mode='legacy', defines=('ENCODE_MODE', '_LGPL_SOURCE'), rules=('defer',), cbmc_flags=ARR, unwind=1,
       min_props=10, min_covers=5, timeout=300, functions=('_defer_rcu', 'wake_up_defer')),
    Ob(name='C13.O3.roundtrip', harness='C13/defer.c', entry='h_roundtrip',
       desc='decode(encode(fct,p)) on a drained queue invokes exactly (fct,p) once, for all 2^128 bit patterns and any last function',
       mode='legacy', defines=('ENCODE_MODE', '_LGPL_SOURCE'), rules=('defer',), cbmc_flags=ARR, unwind=2,
       min_props=10, min_covers=4, timeout=300, functions=('_defer_rcu', 'rcu_defer_barrier_queue')),
    Ob(name='C13.O4.flush', harness='C13/lifecycle.c', entry='h_flush',
       desc='_defer_rcu with >= SIZE-2 slots in use: flushes own queue first (rcu_defer_barrier_thread contract), then queues; capacity never exceeded',
       mode='legacy', replace=('urcu_memb_defer_barrier_thread',), defines=('_LGPL_SOURCE',), rules=('defer',), cbmc_flags=ARR, unwind=1,
       min_props=10, min_covers=2, functions=('_defer_rcu',)),
    Ob(name='C13.O4.noflush', harness='C13/lifecycle.c', entry='h_noflush',
       desc='_defer_rcu below the threshold: no flush, entry fits', mode='legacy', replace=('urcu_memb_defer_barrier_thread',),
       defines=('_LGPL_SOURCE',), rules=('defer',), cbmc_flags=ARR, unwind=1, min_props=10, min_covers=1, functions=('_defer_rcu',)),
    Ob(name='C13.O5.barrier_thread', harness='C13/lifecycle.c', entry='h_barrier_thread',
       desc='rcu_defer_barrier_thread: head snapshot before synchronize_rcu, only entries below it invoked after it; no GP when empty; queue empty afterwards',
       mode='legacy', replace=('rcu_defer_barrier_queue', 'urcu_memb_synchronize_rcu'), defines=('_LGPL_SOURCE',), rules=('defer',), unwind=1,
       min_props=10, min_covers=2, functions=('rcu_defer_barrier_thread', '_rcu_defer_barrier_thread')),
    Ob(name='C13.O5.barrier_all', harness='C13/lifecycle.c', entry='h_barrier_all', tier='B', bound='registry of 2 defer queues',
       desc='rcu_defer_barrier: every registered queue drained exactly once up to its PRE-grace-period head snapshot while its owner keeps queueing during the grace period',
       mode='legacy', replace=('rcu_defer_barrier_queue', 'urcu_memb_synchronize_rcu'), defines=('_LGPL_SOURCE',), rules=('defer',), unwind=4,
       checks=('--bounds-check', '--signed-overflow-check', '--div-by-zero-check'),
       min_props=5, min_covers=2, functions=('rcu_defer_barrier',)),
    Ob(name='C13.O6.unregister_register', harness='C13/lifecycle.c', entry='h_unregister_register',
       desc='rcu_defer_unregister_thread drains the queue after a GP, frees the ring, stops the reclaimer iff registry empty, AND leaves a state satisfying the entry assertions of rcu_defer_register_thread (re-registration)',
       mode='legacy', replace=('rcu_defer_barrier_queue', 'urcu_memb_synchronize_rcu'), defines=('_LGPL_SOURCE',), rules=('defer',), unwind=3,
       checks=('--bounds-check', '--signed-overflow-check', '--div-by-zero-check'),
       min_props=10, min_covers=2, functions=('rcu_defer_unregister_thread', 'rcu_defer_register_thread', 'stop_defer_thread', 'start_defer_thread'),
       native_custom=replay_rereg),
]

REC = 'C13/reclaimer.c'
CKR = ('--bounds-check', '--signed-overflow-check', '--div-by-zero-check')
for e, uw, nua, cov, fns, d in (
    ('h_producer_wake', 3, False, 2, ('_defer_rcu', 'wake_up_defer'), '_defer_rcu: head published -> full barrier -> futex test; FUTEX_WAKE iff the reclaimer sleeps'),
    ('h_wait_defer', 4, True, 3, ('wait_defer', 'rcu_defer_num_callbacks'), 'wait_defer under spurious wake-ups / EINTR / EAGAIN: decrement -> full barrier -> stop flag and EVERY registered queue examined; sleeps only on -1 with stop clear and all queues empty; queued calls => futex reset, no sleep'),
    ('h_wait_defer_stop', 4, True, 1, ('wait_defer',), 'wait_defer with the stop flag set: the thread exits (never returns), futex reset to 0 first'),
    ('h_stop', 3, False, 1, ('stop_defer_thread', 'wake_up_defer'), 'stop_defer_thread: stop flag -> full barrier -> wake-up iff asleep; join; flag cleared'),
    ('h_thr_defer', 3, True, 1, ('thr_defer',), 'thr_defer (2 iterations of its endless loop): each wake-up is followed by one rcu_defer_barrier() - queued calls run without any further API call'),
):
    OBLIGATIONS.append(Ob(name='C13.O7.' + e[2:], harness=REC, entry=e, mode='legacy', defines=('_LGPL_SOURCE',) + (('E_STOP',) if e == 'h_wait_defer_stop' else ()) + (('E_THR',) if e == 'h_thr_defer' else ()), rules=('defer',), replace=('urcu_memb_defer_barrier', 'urcu_memb_defer_barrier_thread'),
        unwind=uw, cbmc_flags=(('--no-unwinding-assertions',) if nua else ()), min_covers=cov, checks=CKR, timeout=300, functions=fns, desc=d,
        tier='B' if e == 'h_thr_defer' else 'P', bound='2 iterations of the reclaimer loop' if e == 'h_thr_defer' else ''))
META = {
    'level': 'proof', 'bounded_apart': True,
    'trusted_base': ['CBMC 6.11', 'sequential meaning of uatomic_load/store and cmm_* (atomics_seq.h)',
                     'must-fire scratch rewrites: DQ_FCT_MARK widening (same value under GCC), fct(p) -> recorder, loop-contract marker',
                     'assumed contract of synchronize_rcu (C01)', 'pthread/futex stubs'],
    'assumptions': ['reclaimer thread schedules and sleep/wake liveness are not decided', 'array theory (--arrays-uf-always) for the 4096-slot ring'],
}
