from engine.core import Ob

H = 'C18/rculist.c'
CK = ('--bounds-check', '--pointer-check', '--signed-overflow-check', '--div-by-zero-check')
UPD = [('h_list_add_rcu', 'cds_list_add_rcu', 2), ('h_list_add_tail_rcu', 'cds_list_add_tail_rcu', 2), ('h_list_del_rcu', 'cds_list_del_rcu', 0),
       ('h_list_replace_rcu', 'cds_list_replace_rcu', 0), ('h_hlist_add_head_rcu', 'cds_hlist_add_head_rcu', 2), ('h_hlist_del_rcu', 'cds_hlist_del_rcu', 2)]
OBLIGATIONS = []
for entry, fn, cov in UPD:
    OBLIGATIONS.append(Ob(name='C18.O1.' + fn, harness=H, entry=entry, unwind=1, min_covers=cov, cover=cov > 0, functions=(fn,), checks=CK,
                          desc=fn + ': exactly one store to the reader-visible next field, via a primitive (release for publications), new node fully linked before it, removed node\'s next intact, sequential doubly-linked result'))
READ = [('h_read_hlist_entry_2', 'cds_hlist_for_each_entry_rcu_2'), ('h_read_hlist_entry', 'cds_hlist_for_each_entry_rcu'), ('h_read_hlist', 'cds_hlist_for_each_rcu'),
        ('h_read_list_entry', 'cds_list_for_each_entry_rcu'), ('h_read_list', 'cds_list_for_each_rcu')]
for entry, fn in READ:
    OBLIGATIONS.append(Ob(name='C18.O2.' + fn, harness=H, entry=entry, tier='B', bound='list of <= 3 entries, <= 2 updater operations (delete any entry / add at head) between any two reader loads',
                          defines=('ENV_MODE',), unwind=6, min_covers=1, functions=(fn,), checks=CK, timeout=300,
                          desc=fn + ' under a concurrent updater: terminates (unwinding assertion), visits only real entries, in list order, none twice, every entry present throughout exactly once, contents initialised'))
META = {
    'level': 'proof', 'bounded_apart': True,
    'trusted_base': ['CBMC 6.11', 'sequential meaning of the uatomic/cmm primitives; the updater\'s primitives act atomically w.r.t. the reader (justified by O1: a single visible store each)'],
    'assumptions': ['a node freed a grace period after its removal is never touched: relies on C01', 'reader/updater interleaving at the granularity of the reader\'s loads'],
}
