from engine.core import Ob

CK = ('--bounds-check', '--signed-overflow-check', '--div-by-zero-check')
T = 'C08/trav.c'
D = ('_LGPL_SOURCE',)
OBLIGATIONS = [
    Ob(name='C08.O4.next', harness=T, entry='h_next', mode='legacy', loop_contracts=True, rules=('lfht_tags', 'lfht_trav'), defines=D, checks=CK,
       need_loop_assertions=2, min_covers=3, timeout=600, functions=('cds_lfht_next',),
       desc='cds_lfht_next on a chain of any length with arbitrary REMOVED/BUCKET flags: first live node at/after the start, none skipped, NULL iff none; iter.next = its next word; terminates (variant)'),
    Ob(name='C08.O4.first', harness=T, entry='h_first', mode='legacy', loop_contracts=True, rules=('lfht_tags', 'lfht_trav'), defines=D, checks=CK,
       need_loop_assertions=2, min_covers=2, timeout=600, functions=('cds_lfht_first', 'cds_lfht_next'),
       desc='cds_lfht_first: first live node after bucket 0'),
    Ob(name='C08.O4.lookup', harness=T, entry='h_lookup', mode='legacy', loop_contracts=True, rules=('lfht_tags', 'lfht_trav'), defines=D, checks=CK,
       need_loop_assertions=2, min_covers=3, timeout=600, functions=('cds_lfht_lookup', 'lookup_bucket'),
       desc='cds_lfht_lookup: first live node after the bucket with the requested reverse hash that matches the key; none skipped; terminates'),
    Ob(name='C08.O4.next_duplicate', harness=T, entry='h_next_dup', mode='legacy', loop_contracts=True, rules=('lfht_tags', 'lfht_trav'), defines=D, checks=CK,
       need_loop_assertions=2, min_covers=3, timeout=600, functions=('cds_lfht_next_duplicate',),
       desc='cds_lfht_next_duplicate: next live node of the equal-hash run that matches the key; none skipped; NULL iff none; terminates'),
    Ob(name='C08.O5.add_plain', harness='C08/add.c', entry='h_add_plain', mode='legacy', loop_contracts=True, rules=('lfht_tags', 'lfht_mut'), defines=D, checks=CK,
       replace=('check_resize',), unwind=1, need_loop_assertions=2, min_covers=3, timeout=1200, functions=('_cds_lfht_add',),
       desc='_cds_lfht_add (duplicates allowed) on a chain of any length: inserted after the last node with reverse hash <= its own, predecessor keeps its BUCKET bit, one store, frame, sortedness; single pass (no retry)'),
    Ob(name='C08.O5.add_bucket', harness='C08/add.c', entry='h_add_bucket', mode='legacy', loop_contracts=True, rules=('lfht_tags', 'lfht_mut'), defines=D, checks=CK,
       replace=('check_resize',), unwind=1, need_loop_assertions=2, min_covers=2, timeout=1200, functions=('_cds_lfht_add',),
       desc='_cds_lfht_add with bucket_flag (table growth): the new bucket node is linked BEFORE every node of equal reverse hash, carries BUCKET in its own next word'),
    Ob(name='C06.O1.add_unique', harness='C08/add.c', entry='h_add_unique', mode='legacy', loop_contracts=True, rules=('lfht_tags', 'lfht_mut'), defines=D, checks=CK,
       replace=('check_resize', 'cds_lfht_next_duplicate'), unwind=1, need_loop_assertions=2, min_covers=2, timeout=1200, functions=('_cds_lfht_add',),
       desc='_cds_lfht_add with unique_ret: returns the FIRST live duplicate and writes nothing, else inserts at the head of the equal-hash run'),
]
META = {
    'level': 'proof',
    'trusted_base': ['CBMC 6.11', 'sequential meaning of the primitives', 'pool layout (layout-obliviousness)', 'tag helpers redirected to pointer-arithmetic forms (must-fire rewrite)'],
    'assumptions': ['allocation succeeds', 'fls inline asm contract'],
}
