from engine.core import Ob

CK = ('--bounds-check', '--signed-overflow-check', '--div-by-zero-check')
T = 'C08/trav.c'
D = ('_LGPL_SOURCE',)
A = 'C08/arith.c'
CKA = ('--bounds-check', '--pointer-check', '--signed-overflow-check', '--div-by-zero-check')
OBLIGATIONS = [
    Ob(name='C08.O1.bit_reverse', harness=A, entry='h_bit_reverse', defines=D, unwind=1, min_covers=1, checks=CKA, backend='cadical', functions=('bit_reverse_ulong', 'bit_reverse_u64', 'bit_reverse_u8'),
       desc='bit_reverse_ulong is the 64-bit bit reversal (bitwise spec with an arbitrary bit index) and an involution, for all 2^64 inputs'),
    Ob(name='C08.O1.tags', harness=A, entry='h_tags', defines=D, unwind=1, min_covers=2, checks=CK, functions=('clear_flag', 'is_removed', 'is_bucket', 'is_removal_owner', 'flag_bucket', 'flag_removed', 'flag_removal_owner', 'flag_removed_or_removal_owner', 'is_end'),
       desc='the nine tag helpers = their bit-level spec for all user-space addresses, and equal to the object-preserving pointer-arithmetic forms used in the chain proofs'),
    Ob(name='C08.O1.count_order_u32', harness=A, entry='h_count_order_u32', defines=D, mode='legacy', replace=('fls_u32',), unwind=1, cover=False, checks=CKA, functions=('cds_lfht_get_count_order_u32',),
       desc='cds_lfht_get_count_order_u32 = ceil(log2 x), -1 for 0 (given the fls instruction contract)'),
    Ob(name='C08.O1.xchg_monotonic', harness=A, entry='h_xchg_monotonic', defines=D, unwind=2, min_covers=2, checks=CKA, functions=('_uatomic_xchg_monotonic_increase',),
       desc='_uatomic_xchg_monotonic_increase returns the old value and stores the maximum (sequential)'),
    Ob(name='C08.O3.bucket_at_order', harness=A, entry='h_bucket_at', defines=D + ('MM_ORDER',), mode='legacy', replace=('cds_lfht_fls_ulong',), unwind=1, min_covers=2, checks=CKA, functions=('rculfhash-mm-order.c:bucket_at',),
       desc='order allocator: bucket_at(index) for every index and every min order: inside the table alloc_bucket_table(order(index)) allocates, at offset index - 2^(order-1); injective'),
    Ob(name='C08.O3.alloc_table_order', harness=A, entry='h_alloc_table', defines=D + ('MM_ORDER',), unwind=1, min_covers=3, checks=CKA, functions=('rculfhash-mm-order.c:cds_lfht_alloc_bucket_table',),
       desc='order allocator: alloc_bucket_table allocates min_nr nodes for order 0, 2^(o-1) for o > min order, nothing in between'),
    Ob(name='C08.O3.bucket_at_chunk', harness=A, entry='h_bucket_at', defines=D + ('MM_CHUNK',), mode='legacy', replace=('cds_lfht_get_count_order_ulong',), unwind=1, min_covers=2, checks=CKA, timeout=600,
       functions=('rculfhash-mm-chunk.c:bucket_at', 'rculfhash-mm-chunk.c:alloc_cds_lfht'),
       desc='chunk allocator: parameter normalisation (chunk size >= max/1024, nr_chunks * size == max, struct size covers the chunk pointer table) and bucket_at in bounds / injective for every index < max'),
    Ob(name='C08.O3.bucket_at_mmap', harness=A, entry='h_bucket_at', defines=D + ('MM_MMAP',), mode='legacy', replace=('cds_lfht_get_count_order_ulong',), unwind=1, min_covers=2, checks=CKA, timeout=600,
       functions=('rculfhash-mm-mmap.c:bucket_at', 'rculfhash-mm-mmap.c:alloc_cds_lfht'),
       desc='mmap allocator: small/large table normalisation and flat-array bucket_at'),
    Ob(name='C08.O4.next', harness=T, entry='h_next', mode='legacy', loop_contracts=True, rules=('lfht_tags', 'lfht_trav'), defines=D, checks=CK,
       need_loop_assertions=2, min_covers=3, timeout=600, functions=('cds_lfht_next',),
       desc='cds_lfht_next on a chain of any length with arbitrary REMOVED/BUCKET flags: first live node at/after the start, none skipped, NULL iff none; iter.next = its next word; terminates (variant)'),
    Ob(name='C08.O4.first', harness=T, entry='h_first', mode='legacy', loop_contracts=True, rules=('lfht_tags', 'lfht_trav'), defines=D, checks=CK,
       need_loop_assertions=2, min_covers=2, timeout=600, functions=('cds_lfht_first', 'cds_lfht_next'),
       desc='cds_lfht_first: first live node after bucket 0'),
    Ob(name='C08.O4.lookup', harness=T, entry='h_lookup', mode='legacy', loop_contracts=True, rules=('lfht_tags', 'lfht_trav'), defines=D, checks=CK,
       need_loop_assertions=2, min_covers=3, timeout=600, functions=('cds_lfht_lookup', 'lookup_bucket'),
       desc='cds_lfht_lookup: first live node after the bucket with the requested reverse hash that matches the key; none skipped; terminates'),
    Ob(name='C08.O4.next_duplicate', harness=T, entry='h_next_dup', mode='legacy', loop_contracts=True, rules=('lfht_tags', 'lfht_trav'), defines=D, checks=CK,
       need_loop_assertions=2, min_covers=3, timeout=600, functions=('cds_lfht_next_duplicate',),
       desc='cds_lfht_next_duplicate: next live node of the equal-hash run that matches the key; none skipped; NULL iff none; terminates'),
    Ob(name='C08.O5.add_plain', harness='C08/add.c', entry='h_add_plain', mode='legacy', loop_contracts=True, rules=('lfht_tags', 'lfht_mut'), defines=D, checks=CK,
       replace=('check_resize',), unwind=1, need_loop_assertions=2, min_covers=3, timeout=1200, functions=('_cds_lfht_add',),
       desc='_cds_lfht_add (duplicates allowed) on a chain of any length: inserted after the last node with reverse hash <= its own, predecessor keeps its BUCKET bit, one store, frame, sortedness; single pass (no retry)'),
    Ob(name='C08.O5.add_bucket', harness='C08/add.c', entry='h_add_bucket', mode='legacy', loop_contracts=True, rules=('lfht_tags', 'lfht_mut'), defines=D, checks=CK,
       replace=('check_resize',), unwind=1, need_loop_assertions=2, min_covers=2, timeout=1200, functions=('_cds_lfht_add',),
       desc='_cds_lfht_add with bucket_flag (table growth): the new bucket node is linked BEFORE every node of equal reverse hash, carries BUCKET in its own next word'),
    Ob(name='C06.O1.add_unique_small', harness='C08/add.c', entry='h_add_unique', mode='legacy', rules=('lfht_tags', 'lfht_mut'), defines=D + ('LF_SMALL',), checks=CK, tier='B', bound='chains of <= 6 nodes, loops unwound (quick-tier stand-in for the unbounded proof C06.O1.add_unique of the thorough tier)',
       replace=('check_resize', 'cds_lfht_next_duplicate'), unwind=8, min_covers=2, timeout=600, functions=('_cds_lfht_add',), tiers=('quick',),
       desc='_cds_lfht_add with unique_ret, bounded: first live duplicate returned without writing, else inserted at the head of the equal-hash run'),
    Ob(name='C06.O1.add_unique', harness='C08/add.c', entry='h_add_unique', mode='legacy', loop_contracts=True, rules=('lfht_tags', 'lfht_mut'), defines=D, checks=CK,
       replace=('check_resize', 'cds_lfht_next_duplicate'), unwind=1, need_loop_assertions=2, min_covers=2, timeout=1800, functions=('_cds_lfht_add',), tiers=('thorough',),
       desc='_cds_lfht_add with unique_ret: returns the FIRST live duplicate and writes nothing, else inserts at the head of the equal-hash run'),
    Ob(name='C07.O2.gc_bucket_small', harness='C08/del.c', entry='h_gc', mode='legacy', rules=('lfht_tags', 'lfht_mut'), defines=D + ('LF_SMALL',), checks=CK, tier='B', bound='chains of <= 6 nodes, loops unwound (quick-tier stand-in for the unbounded proof C07.O2.gc_bucket of the thorough tier)',
       unwind=8, min_covers=2, timeout=600, functions=('_cds_lfht_gc_bucket',), tiers=('quick',),
       desc='_cds_lfht_gc_bucket, bounded: one unlink CAS of the observed-REMOVED node, predecessor BUCKET bit kept, frame'),
    Ob(name='C07.O2.gc_bucket', harness='C08/del.c', entry='h_gc', mode='legacy', loop_contracts=True, rules=('lfht_tags', 'lfht_mut'), defines=D, checks=CK, tiers=('thorough',),
       unwind=2, need_loop_assertions=2, min_covers=3, timeout=3000, functions=('_cds_lfht_gc_bucket',),
       desc='_cds_lfht_gc_bucket on a chain of any length with one REMOVED node: exactly one CAS of kind unlink (predecessor.next: node -> its successor, predecessor BUCKET bit kept, REMOVED observed first), node unreachable afterwards, frame; inner walk by loop contract with variant, outer retry loop exactly 2 passes (unwinding assertion)'),
    Ob(name='C07.O1.del', harness='C08/del.c', entry='h_del', mode='legacy', rules=('lfht_tags', 'lfht_mut'), defines=D, checks=CK, replace=('_cds_lfht_gc_bucket',),
       unwind=1, min_covers=3, timeout=900, functions=('_cds_lfht_del',),
       desc='_cds_lfht_del (gc_bucket through its contract): REMOVED by one release or on the victim, then gc, then the exchange setting REMOVAL_OWNER; returns 0 iff the exchanged-out word had OWNER clear; pointer part frozen, flags only grow; victim unlinked before return; frame'),
    Ob(name='C07.O1.del_twice', harness='C08/del.c', entry='h_del_twice', mode='legacy', rules=('lfht_tags', 'lfht_mut'), defines=D, checks=CK, replace=('_cds_lfht_gc_bucket',),
       unwind=1, min_covers=2, timeout=600, functions=('_cds_lfht_del',),
       desc='_cds_lfht_del on an already removed node (or NULL): -ENOENT, nothing written'),
    Ob(name='C06.O2.replace', harness='C08/replace.c', entry='h_replace', mode='legacy', rules=('lfht_tags', 'lfht_mut'), defines=D, checks=CK, replace=('_cds_lfht_gc_bucket',),
       unwind=2, min_covers=2, timeout=900, functions=('_cds_lfht_replace',),
       desc='_cds_lfht_replace with a fresh OR stale iterator: one successful CAS of kind replace (pointer-to-new | REMOVED | REMOVAL_OWNER in a single write over an un-REMOVED word, new.next == the expected successor at that instant), at most one retry, new node takes over the CURRENT successor, old node unlinked, frame'),
    Ob(name='C06.O2.replace_removed', harness='C08/replace.c', entry='h_replace_removed', mode='legacy', rules=('lfht_tags', 'lfht_mut'), defines=D, checks=CK, replace=('_cds_lfht_gc_bucket',),
       unwind=2, min_covers=2, timeout=900, functions=('_cds_lfht_replace',),
       desc='_cds_lfht_replace on a node removed meanwhile (or NULL): -ENOENT, nothing written'),
    Ob(name='C06.O2.replace_api', harness='C08/replace.c', entry='h_replace_api', mode='legacy', rules=('lfht_tags', 'lfht_mut'), defines=D, checks=CK, replace=('_cds_lfht_gc_bucket',),
       unwind=2, min_covers=2, timeout=900, functions=('cds_lfht_replace',),
       desc='cds_lfht_replace: NULL iterator -ENOENT; hash or key mismatch -EINVAL without writing; else replaces'),
    Ob(name='C07.O3.delete_bucket', harness='C08/destroy.c', entry='h_delete_bucket', mode='dfcc', unwind=10, loop_contracts=True, rules=('lfht_tags', 'lfht_destroy'), defines=D, checks=CK,
       replace=('cds_lfht_free_bucket_table', 'cds_lfht_get_count_order_ulong'), need_loop_assertions=4, min_covers=2, timeout=900, functions=('cds_lfht_delete_bucket',),
       desc='cds_lfht_delete_bucket on a chain of any length: 0 only if every node is a bucket, then frees every order order(size)..0 exactly once; else -EPERM and frees nothing; all three loops by loop contracts with variants'),
    Ob(name='C07.O3.delete_bucket_nonempty', harness='C08/destroy.c', entry='h_delete_bucket_nonempty', mode='dfcc', unwind=10, loop_contracts=True, rules=('lfht_tags', 'lfht_destroy'), defines=D, checks=CK,
       replace=('cds_lfht_free_bucket_table', 'cds_lfht_get_count_order_ulong'), need_loop_assertions=4, min_covers=1, timeout=900, functions=('cds_lfht_delete_bucket',),
       desc='destroy refuses (-EPERM, nothing freed) whenever a user node is anywhere in the table, e.g. one node behind many buckets'),
    Ob(name='C07.O3.is_empty', harness='C08/destroy.c', entry='h_is_empty', mode='dfcc', unwind=10, loop_contracts=True, rules=('lfht_tags', 'lfht_destroy'), defines=D, checks=CK,
       need_loop_assertions=2, min_covers=2, timeout=900, functions=('cds_lfht_is_empty',), desc='cds_lfht_is_empty true only if every node is a bucket'),
    Ob(name='C07.O3.is_empty_nonempty', harness='C08/destroy.c', entry='h_is_empty_nonempty', mode='dfcc', unwind=10, loop_contracts=True, rules=('lfht_tags', 'lfht_destroy'), defines=D, checks=CK,
       need_loop_assertions=2, min_covers=1, timeout=900, functions=('cds_lfht_is_empty',), desc='cds_lfht_is_empty false whenever a user node is in the table'),
    Ob(name='C08.O4.count_nodes', harness='C08/destroy.c', entry='h_count_nodes', mode='dfcc', unwind=10, loop_contracts=True, rules=('lfht_tags', 'lfht_destroy'), defines=D, checks=CK,
       need_loop_assertions=2, min_covers=1, timeout=900, functions=('cds_lfht_count_nodes',),
       desc='cds_lfht_count_nodes: *count equals the number of stored (non-removed, non-bucket) nodes for chains of any length (ghost prefix-count recurrence instantiated on access)'),
]
from obligations import C09 as _c09
OBLIGATIONS += [o for o in _c09.OBLIGATIONS if o.name in ('C09.O1.count_order', 'C09.O2.resize_terminates', 'C09.O1.target_update', 'C09.O6.destroy')]

LFHT_TRUSTED = ['CBMC 6.11 (legacy and dfcc loop-contract instrumentation, SAT back end)', 'sequential meaning of the uatomic/cmm primitives (atomics_seq.h); sequential CAS asserted not to fail',
                'pool encoding: canonical layout + forall-elimination of the chain invariant at the node being read (lfht_harness_post.h); layout-obliviousness of the verified functions',
                'tag helpers redirected to object-preserving pointer-arithmetic forms by a must-fire rewrite; integer-level equivalence proved (C08.O1.tags)',
                'fls (bsr inline asm) instruction contract', 'bucket_at used through its contract in the chain proofs (proved per allocator in C08.O3)']
SM = 'C08/small.c'
for e, fns, d in (('h_small_is_empty', ('cds_lfht_is_empty',), 'cds_lfht_is_empty'), ('h_small_count', ('cds_lfht_count_nodes',), 'cds_lfht_count_nodes'),
                  ('h_small_delete_bucket', ('cds_lfht_delete_bucket',), 'cds_lfht_delete_bucket'), ('h_small_first_next', ('cds_lfht_first', 'cds_lfht_next'), 'cds_lfht_first / cds_lfht_next')):
    OBLIGATIONS.append(Ob(name='C08.O7.small.' + e[8:], harness=SM, entry=e, mode='legacy', replace=('cds_lfht_free_bucket_table', 'cds_lfht_get_count_order_ulong'), defines=D, unwind=7, min_covers=2,
        checks=('--bounds-check', '--signed-overflow-check', '--div-by-zero-check'), tier='B', bound='all 27 chains of <= 3 nodes (bucket / live / removed each) behind bucket 0; loops fully unwound',
        functions=fns, timeout=300, desc=d + ' on every small concrete chain, WITHOUT any rewrite rule or read hook (robust against restructured loops): result equals the reference multimap'))
OBLIGATIONS.append(Ob(name='C08.O8.new_normalisation', harness='C08/new.c', entry='h_new', mode='legacy', defines=D, unwind=2, min_covers=4, timeout=300,
    replace=('cds_lfht_get_count_order_ulong', 'cds_lfht_create_bucket', 'alloc_split_items_count', 'cds_lfht_init_worker'), checks=('--bounds-check', '--signed-overflow-check', '--div-by-zero-check'),
    functions=('_cds_lfht_new_with_alloc', 'get_mm_type'),
    desc='_cds_lfht_new_with_alloc for all 2^64-valued (init, min, max, flags) and every plug-in choice: NULL iff a size is not a power of two (max = 0 = unlimited only for the order plug-in); else min\' = max(min,1), max\' = max(max,min\'), size = resize_target = min(max(init,1),max\') in [1,max\'], buckets created before the size is set, worker initialised iff AUTO_RESIZE'))
API = 'C08/api.c'
CKAPI = ('--bounds-check', '--signed-overflow-check', '--div-by-zero-check')
for e, fn, lc in (('h_api_add', 'cds_lfht_add', False), ('h_api_add_unique', 'cds_lfht_add_unique', False), ('h_api_add_replace', 'cds_lfht_add_replace', True), ('h_api_del', 'cds_lfht_del', False)):
    OBLIGATIONS.append(Ob(name='C06.O3.' + fn, harness=API, entry=e, mode='legacy', loop_contracts=lc, need_loop_assertions=1 if lc else 0, rules=('lfht_api',), defines=D, checks=CKAPI, unwind=2,
        replace=('_cds_lfht_add', '_cds_lfht_replace', '_cds_lfht_del', 'ht_count_add', 'ht_count_del'), min_covers=1, functions=(fn,), timeout=300,
        assumptions=('the contracts of _cds_lfht_add / _cds_lfht_replace / _cds_lfht_del used here by replacement are stated in harness/C08/api.c; the corresponding facts about the real bodies are proved as harness assertions by C06.O1, C08.O5, C06.O2 and C07.O1 (not as the same contract text)',),
        desc=fn + ' through the contracts of its callees: node initialised (reverse hash) before it is published, one size snapshot, count adjusted iff the operation changed the table; add_replace: NULL iff inserted, else the node replaced by exactly one successful replace; each retry consumes an interference token (loop variant: lock-free)'))
META = {
    'level': 'proof', 'bounded_apart': True,
    'trusted_base': LFHT_TRUSTED,
    'assumptions': ['allocation succeeds', 'sequentially reachable chains carry no REMOVED node (established as postcondition of del / replace)',
                    'composition of the per-operation contracts into "any sequence of operations equals the reference multimap" is by induction over the sequence (each contract is stated over the abstract view: position-wise chain facts + arbitrary witness); not re-run as one proof',
                    'cds_lfht_new/create_bucket shape and split-counter accounting (ht_count_add/del) are not under contract yet'],
}
