"""C07 - removed node: single owner, unreachable afterwards; bucket arrays freed only after unlink + grace period; destroy."""
import dataclasses
from obligations import C08 as _c08, C09 as _c09
from obligations.C08 import LFHT_TRUSTED

SEL = ('C08.O7.small.add_helps', 'C07.O2.gc_bucket_retry_small', 'C08.O7.small.is_empty', 'C08.O7.small.delete_bucket', 'C06.O3.cds_lfht_add_replace', 'C06.O3.cds_lfht_del', 'C07.O1.del', 'C07.O1.del_twice', 'C07.O2.gc_bucket', 'C07.O2.gc_bucket_small', 'C07.O3.delete_bucket', 'C07.O3.delete_bucket_nonempty', 'C07.O3.is_empty', 'C07.O3.is_empty_nonempty',
       'C06.O2.replace', 'C06.O2.replace_removed')
OBLIGATIONS = [o for o in _c08.OBLIGATIONS if o.name in SEL] + [o for o in _c09.OBLIGATIONS if o.name in ('C09.O3.fini_table', 'C09.O3.shrink', 'C09.O5.remove_table_partition', 'C09.O6.destroy', 'C09.O6.destroy_cb', 'C09.O6.resize_cb', 'C09.O4.partition_helper')]
META = {
    'level': 'proof', 'bounded_apart': True,
    'trusted_base': LFHT_TRUSTED,
    'assumptions': ['that NO thread touches the node after the grace period needs C01 and the rely of C05 (nodes reachable only through the chain); proved here: the owner is unique per write site, the node is physically unlinked before del/replace return, bucket tables are freed only after unlink and a later grace period, destroy refuses non-empty tables and frees each order once'],
}
