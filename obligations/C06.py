"""C06 - unique adds never expose duplicates; replace is atomic; each replaced node has one owner."""
import dataclasses
from obligations import C08 as _c08, C09 as _c09
from obligations.C08 import LFHT_TRUSTED

SEL = ('C08.O7.small.next_replaced', 'C08.O5.add_bucket', 'C06.O1.add_unique', 'C06.O1.add_unique_small', 'C06.O2.replace', 'C06.O2.replace_removed', 'C06.O2.replace_api', 'C08.O4.next_duplicate', 'C07.O1.del', 'C07.O1.del_twice',
       'C06.O3.cds_lfht_add', 'C06.O3.cds_lfht_add_unique', 'C06.O3.cds_lfht_add_replace', 'C06.O3.cds_lfht_del')
OBLIGATIONS = [o for o in _c08.OBLIGATIONS if o.name in SEL]
# resize ordering is part of uniqueness 'with concurrent resizes': a grow publishes the size only after populating, a shrink waits a
# grace period between publishing the smaller size and unlinking the dropped buckets (else an add_unique that still uses a
# dropped bucket as insertion point links a node nobody can find, and a second add_unique inserts a duplicate)
OBLIGATIONS += [o for o in _c09.OBLIGATIONS if o.name in ('C09.O3.init_table', 'C09.O3.fini_table', 'C09.O5.init_table_populate_partition', 'C09.O5.remove_table_partition', 'C09.O4.partition_helper')]
META = {
    'level': 'proof', 'bounded_apart': True,
    'trusted_base': LFHT_TRUSTED,
    'assumptions': ['C08.O5.add_bucket is part of this property because uniqueness across a GROW depends on every new bucket node being linked BEFORE all nodes of equal reverse hash (else a resident key becomes unreachable from its new bucket and add_unique inserts a second copy)',
                    'absence of transient duplicates for a concurrent traversal over all schedules follows from "insert at the head of the equal-hash run" + "replace = one CAS" by the list argument, not machine-checked',
                    'single ownership: the replace CAS sets REMOVAL_OWNER in the same write and only succeeds over an un-REMOVED word; del returns 0 iff its exchange saw OWNER clear; flags only grow (all proved per write site) => at most one winner (pencil-and-paper last step)'],
}
