from engine.core import Ob
from obligations import C01 as _c01

CK2 = ('--bounds-check', '--pointer-check', '--signed-overflow-check', '--div-by-zero-check')
H = 'C02/futex.c'
NU = ('--no-unwinding-assertions',)
OBLIGATIONS = [
    Ob(name='C02.O3.memb.wait_gp', harness=H, entry='h_wait_gp', defines=('_LGPL_SOURCE',), mode='legacy', replace=('smp_mb_master',), unwind=4, cbmc_flags=NU,
       min_covers=2, checks=CK2, functions=('wait_gp', 'futex_async'),
       desc='wait_gp (urcu.c) with the futex call returning 0 (incl. spurious), EAGAIN, EINTR, ENOSYS or another errno, and the waker acting at any time: returns only after the word left -1; FUTEX_WAIT only with expected -1 right after loading -1; other errno fatal; registry lock dropped while sleeping and re-taken'),
    Ob(name='C02.O3.call_rcu_wait', harness=H, entry='h_call_rcu_wait', defines=('_LGPL_SOURCE',), mode='legacy', replace=('smp_mb_master',), unwind=4, cbmc_flags=NU, min_covers=2, checks=CK2,
       functions=('call_rcu_wait',), desc='call_rcu_wait (helper thread asleep on its futex): same contract as wait_gp - returns only after the word left -1, FUTEX_WAIT only on -1 right after loading it, tolerant of spurious 0 / EINTR / EAGAIN / ENOSYS, other errno fatal'),
    Ob(name='C02.O3.completion_wait', harness=H, entry='h_completion_wait', defines=('_LGPL_SOURCE',), mode='legacy', replace=('smp_mb_master',), unwind=4, cbmc_flags=NU, min_covers=2, checks=CK2,
       functions=('call_rcu_completion_wait',), desc='call_rcu_completion_wait (rcu_barrier asleep on the completion futex): same contract'),
    Ob(name='C02.O3.qsbr.wait_gp', harness=H, entry='h_wait_gp', defines=('_LGPL_SOURCE', 'WHICH_QSBR'), unwind=4, cbmc_flags=NU,
       min_covers=2, checks=CK2, functions=('wait_gp', 'futex_noasync'), desc='wait_gp (urcu-qsbr.c): same contract'),
    Ob(name='C02.O3.busy_wait', harness=H, entry='h_busy_wait', defines=('_LGPL_SOURCE',), unwind=5, cbmc_flags=NU, min_covers=1, checks=CK2,
       rules=('wait_attempts_small',), tier='B', bound='spin count URCU_WAIT_ATTEMPTS reduced from 1000 to 3 (tuning constant) by a scratch rewrite; loops unwound 5x',
       functions=('urcu_adaptative_busy_wait',), timeout=300, tiers=('quick',),
       desc='urcu_adaptative_busy_wait (merged synchronize_rcu callers): returns only after the waker changed the state and set TEARDOWN; FUTEX_WAIT only on WAITING; tolerant of spurious/EINTR/EAGAIN'),
    Ob(name='C02.O3.busy_wait_full', harness=H, entry='h_busy_wait', defines=('_LGPL_SOURCE',), unwind=3, unwindset=('urcu_adaptative_busy_wait.0:1001', 'urcu_adaptative_busy_wait.3:1001'), cbmc_flags=NU, min_covers=1, checks=CK2,
       functions=('urcu_adaptative_busy_wait',), timeout=2400, tiers=('thorough',),
       desc='urcu_adaptative_busy_wait with the real spin count (both 1000-iteration loops fully unwound)'),
    Ob(name='C02.O4.enosys_fallback', harness=H, entry='h_fallback', defines=('_LGPL_SOURCE',), unwind=4, cbmc_flags=NU, min_covers=2, checks=CK2,
       functions=('futex_noasync', 'futex_async', 'compat_futex_async'),
       desc='futex_async/futex_noasync when the system call reports ENOSYS: WAIT returns 0 only after the value changed and never sleeps on the compat condition variable (polls; a waker that reached the kernel cannot be lost); WAKE succeeds'),
    Ob(name='C02.O4.compat_noasync', harness=H, entry='h_compat_noasync', defines=('_LGPL_SOURCE',), unwind=4, cbmc_flags=NU, min_covers=1, checks=CK2,
       functions=('compat_futex_noasync',), desc='compat_futex_noasync: WAIT under the compat lock until the value differs; WAKE broadcasts; lock released'),
]
for e, fns, d in (('h_wake_up', ('urcu_adaptative_wake_up',), 'urcu_adaptative_wake_up with the waiter acting before every access: WAKEUP (release) first; FUTEX_WAKE unless the waiter was seen RUNNING afterwards; TEARDOWN (release) is the last access to the node'),
                  ('h_wake_all', ('urcu_wake_all_waiters',), 'urcu_wake_all_waiters on stacks of 0..3 waiters incl. the leader\'s own RUNNING node: every waiting node woken exactly once, own node skipped, successor read before a node is woken (node memory poisoned at TEARDOWN)')):
    OBLIGATIONS.append(Ob(name='C02.O5.' + e[2:], harness='C02/waker.c', entry=e, defines=('_LGPL_SOURCE',), unwind=5, min_covers=2, checks=('--bounds-check', '--signed-overflow-check', '--div-by-zero-check'), functions=fns, timeout=300, desc=d))
# C02.O2: updater half of the sleep/wake handshake inside the registry scans (shared with C01.O4)
OBLIGATIONS += [o for o in _c01.OBLIGATIONS if o.name.startswith('C01.O4.')]
# no deadlock between concurrent callers: who waits for whom is fixed by the protocol skeleton of each synchronize_rcu (a qsbr caller
# goes offline BEFORE queuing itself: a waiter that stayed online would be waited for by the very leader it waits for)
OBLIGATIONS += [o for o in _c01.OBLIGATIONS if o.name.startswith('C01.O5.')]
# C02.O1: reader half (store of the reader word -> full barrier -> test of futex / waiting; wake-up iff needed)
OBLIGATIONS += [o for o in _c01.OBLIGATIONS if o.name.startswith('C01.O2.') and o.name.endswith('.unlock') or o.name.startswith('C01.O3.qsbr.')]
# the wait queue of merged callers is a wfstack: a wrong 'was non-empty' result of push leaves a grace period without leader (late import, resolved by engine/check.py)
def _shared():
    _r = []
    from obligations import C11 as _c11
    _r += [o for o in _c11.OBLIGATIONS if o.name in ('C11.O1.wfs_push', 'C11.O1.wfs_pop_all_iter')]
    return _r
META = {
    'level': 'other',
    'explanation': 'C02 is a liveness property (every synchronize_rcu returns under fair schedules). Contracts decide its per-function premises only: the sleep/wake handshake on both sides (reader side: C01.O2/O3 obligations on store -> barrier -> futex test; updater side and futex-wait loops here) as partial-correctness contracts under an adversarial futex (spurious wake-ups, EINTR, EAGAIN, ENOSYS) and an arbitrary waker. Termination itself is not decided.',
    'trusted_base': ['CBMC 6.11', 'futex / poll / condition-variable stubs', 'sequential meaning of the primitives'],
    'assumptions': ['termination under fair scheduling is not decided (busy-wait loops unwound, executions that spin longer repeat the same states)', 'kernel futex semantics as in the stub'],
}
