"""C05 - hash table, concurrent operations: the per-write-site guarantee (every write to a shared next word is an
insert / unlink / mark / replace of the stated shape) and the traversal contracts under arbitrary REMOVED/BUCKET flags,
plus the publication order of grow / shrink.  Obligations are shared with C08 / C07 / C06 / C09."""
import dataclasses
from obligations import C08 as _c08, C09 as _c09
from obligations.C08 import LFHT_TRUSTED

SEL = ('C08.O7.small.next_replaced', 'C08.O7.small.add_helps', 'C07.O2.gc_bucket_retry_small', 'C06.O1.add_unique_small', 'C06.O1.add_unique', 'C06.O3.cds_lfht_add_replace', 'C08.O4.next', 'C08.O4.first', 'C08.O4.lookup', 'C08.O4.next_duplicate', 'C08.O5.add_plain', 'C08.O5.add_bucket', 'C07.O2.gc_bucket', 'C07.O2.gc_bucket_small', 'C07.O1.del',
       'C06.O2.replace', 'C06.O2.replace_removed', 'C08.O1.tags')
OBLIGATIONS = [o for o in _c08.OBLIGATIONS if o.name in SEL] + [o for o in _c09.OBLIGATIONS if o.name in ('C09.O2.resize_retarget', 'C09.O3.init_table', 'C09.O3.fini_table', 'C09.O5.init_table_populate_partition', 'C09.O5.remove_table_partition', 'C09.O4.partition_helper')]
META = {
    'level': 'other',
    'explanation': 'Linearizability of whole histories is outside contract-based verification. Decided instead, for chains of unbounded length: (1) every write the hash table makes to a shared next word is one of the four relations the Harris/Michael argument needs - insert-before-successor with the new node linked first (add), unlink of a node whose REMOVED flag was observed with the predecessor\'s BUCKET bit kept (gc), flag-only mark with the pointer part frozen (del), single-CAS replace carrying pointer+REMOVED+OWNER with new.next equal to the expected successor (replace, also when the iterator is stale); (2) lookup / next / next_duplicate / first return the FIRST qualifying node at or after their start under arbitrary REMOVED/BUCKET flags on the chain, skipping nothing live (so a resident node is found in every state in which it is on its chain); (3) grow publishes a size only after allocating and populating that order (release store), shrink publishes, waits a grace period, unlinks, waits again, frees.',
    'trusted_base': LFHT_TRUSTED,
    'assumptions': ['the step from the write-site guarantee and the traversal contracts to linearizability (and "resident nodes are never missed" under all schedules) is the Harris/Michael/split-ordered-list argument, not machine-checked',
                    'x86-TSO / sequentially consistent interleaving at the granularity of the primitives'],
}
