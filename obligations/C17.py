from engine.core import Ob
from obligations import C08 as _c08, C09 as _c09, C10 as _c10, C11 as _c11, C12 as _c12

CK = ('--bounds-check', '--pointer-check', '--signed-overflow-check', '--div-by-zero-check')
ST = 'C17/static.c'
OBLIGATIONS = []
# ---- O1: operations documented wait-free execute every loop of their call closure at most once, for EVERY memory state
WF = [('w_wfcq_enqueue', 'cds_wfcq_enqueue', 'FL_NONE'), ('w_wfs_push', 'cds_wfs_push', 'FL_NONE'), ('w_wfs_pop_all', '__cds_wfs_pop_all', 'FL_NONE'),
      ('w_lfs_pop_all', '__cds_lfs_pop_all', 'FL_NONE'), ('w_wfs_empty', 'cds_wfs_empty', 'FL_NONE'), ('w_wfcq_empty', 'cds_wfcq_empty', 'FL_NONE')]
for fl in ('MEMB', 'MB', 'QSBR', 'BP'):
    WF.append(('w_read_lock', 'urcu_%s_read_lock' % fl.lower(), 'FL_' + fl))
    WF.append(('w_read_unlock', 'urcu_%s_read_unlock' % fl.lower(), 'FL_' + fl))
WF.append(('w_quiescent_state', 'urcu_qsbr_quiescent_state', 'FL_QSBR'))
NB = [('w_wfcq_dequeue_nb', '__cds_wfcq_dequeue_nonblocking'), ('w_wfcq_first_nb', '__cds_wfcq_first_nonblocking'), ('w_wfcq_next_nb', '__cds_wfcq_next_nonblocking'),
      ('w_wfcq_splice_nb', '__cds_wfcq_splice_nonblocking'), ('w_wfs_pop_nb', '__cds_wfs_pop_nonblocking'), ('w_wfs_next_nb', 'cds_wfs_next_nonblocking')]
for (e, fn, d) in WF:
    OBLIGATIONS.append(Ob(name='C17.O1.bounded_steps.' + fn, harness=ST, entry=e, defines=(d,), unwind=1, cover=True, min_covers=1, min_props=0, checks=(), rules=('x86asm',), cbmc_flags=('--nondet-static',),
                          functions=(fn,), timeout=120,
                          desc=fn + ' with the REAL primitives, from an arbitrary memory state (all statics nondeterministic): every loop in its call closure runs its body at most once and there is no recursion (unwinding assertions at bound 1) - a constant bound on its own steps, independent of other threads'))
for (e, fn) in NB:
    OBLIGATIONS.append(Ob(name='C17.O3.never_waits.' + fn, harness=ST, entry=e, defines=('FL_NONE', 'NO_WAIT_PRIMITIVES'), unwind=1, cover=True, min_covers=3, min_props=1, checks=(), rules=('x86asm',), cbmc_flags=('--nondet-static',),
                          functions=(fn,), timeout=120,
                          desc=fn + ' from an arbitrary memory state: no loop of its call closure iterates twice, and neither poll() nor caa_cpu_relax() is reachable - it never waits'))
for (e, fn) in (('w_control_wfcq_dequeue_blocking', '__cds_wfcq_dequeue_blocking'), ('w_control_wfs_pop_blocking', '__cds_wfs_pop_blocking')):
    OBLIGATIONS.append(Ob(name='C17.O0.control.' + fn, harness=ST, entry=e, defines=('FL_NONE', 'CONTROL'), unwind=1, cover=False, min_props=1, checks=(), rules=('x86asm',), cbmc_flags=('--nondet-static', '--no-assertions'),
                          must_fail=('unwind',), functions=(), timeout=120,
                          desc='positive control of the bounded-steps method: the BLOCKING ' + fn + ' must trip an unwinding assertion at bound 1 (it waits for an in-flight enqueue/push); if it did not, the O1/O3 results would be vacuous'))
FZ = 'C17/frozen.c'
CKP = ('--bounds-check', '--signed-overflow-check', '--div-by-zero-check')
for (e, part, fns, d) in (
    ('h_wfcq_dequeue_nb', 'PART_WFCQ', ('__cds_wfcq_dequeue_nonblocking', '__cds_wfcq_dequeue_with_state_nonblocking'), 'dequeue_nonblocking from every state with 0..2 elements and an enqueue suspended between its two steps (or none): never waits; correct element, NULL, or WOULDBLOCK exactly when the needed link is in flight; WOULDBLOCK leaves the queue as it was; never WOULDBLOCK when nothing is in flight'),
    ('h_wfcq_iter_nb', 'PART_WFCQ', ('__cds_wfcq_first_nonblocking', '__cds_wfcq_next_nonblocking'), 'first/next_nonblocking from the same states: never wait, WOULDBLOCK iff that link is in flight, read-only'),
    ('h_wfcq_splice_nb', 'PART_WFCQ', ('__cds_wfcq_splice_nonblocking',), 'splice_nonblocking from the same states: never waits; WOULDBLOCK only when the first link is in flight, leaving both queues untouched; otherwise moves everything incl. the in-flight node'),
    ('h_wfcq_enqueue_frozen', 'PART_WFCQ', ('cds_wfcq_enqueue',), 'enqueue behind a suspended enqueuer: completes its two steps without waiting'),
    ('h_wfs_pop_nb', 'PART_WFS', ('__cds_wfs_pop_nonblocking', '__cds_wfs_pop_with_state_nonblocking'), 'wfstack pop_nonblocking with a push suspended between its two steps (or none): never waits; WOULDBLOCK iff the top link is in flight, stack unchanged'),
    ('h_wfs_pop_all_frozen', 'PART_WFS', ('cds_wfs_push', '__cds_wfs_pop_all', 'cds_wfs_next_nonblocking'), 'wfstack push / pop_all / next_nonblocking on top of a half-pushed node: complete without waiting; next_nonblocking WOULDBLOCK at the in-flight link'),
    ('h_lfq_enqueue_frozen', 'PART_LFQ', ('_cds_lfq_enqueue_rcu',), 'rculfqueue enqueue with the tail lagging behind a suspended enqueuer: helps the tail forward, appends, completes (retry loop bounded, unwinding assertion)'),
    ('h_lfq_dequeue_frozen', 'PART_LFQ', ('_cds_lfq_dequeue_rcu',), 'rculfqueue dequeue from the same states: completes with the oldest real node'),
):
    OBLIGATIONS.append(Ob(name='C17.O4.frozen.' + e[2:], harness=FZ, entry=e, defines=(part,), unwind=5, min_covers=2, checks=CKP, functions=fns, timeout=300, native=True, desc=d))
# ---- O2 / O5: obligations shared with the structure properties, selected here for what they say about PROGRESS:
#  * loop contracts with a decreases clause on unbounded chains (termination of the solo run, chains may contain logically
#    removed nodes = suspended deletions that the operation helps to unlink), interference-token variants (lock-freedom),
#  * "never WOULDBLOCK / no waiting primitive on a quiescent structure".
import dataclasses
def _sel(mod, names, tiers=None):
    out = []
    for o in mod.OBLIGATIONS:
        if o.name in names:
            out.append(dataclasses.replace(o, tiers=tiers) if tiers else o)
    assert len(out) == len(names), (names, [o.name for o in out])
    return out
OBLIGATIONS += _sel(_c08, ('C08.O4.next', 'C08.O4.first', 'C08.O4.lookup', 'C07.O1.del', 'C07.O2.gc_bucket_small', 'C06.O2.replace', 'C08.O5.add_plain', 'C06.O3.cds_lfht_add_replace', 'C08.O7.small.add_helps'))
OBLIGATIONS += _sel(_c08, ('C08.O4.next_duplicate', 'C08.O5.add_bucket', 'C06.O1.add_unique', 'C07.O2.gc_bucket'), tiers=('thorough',))
OBLIGATIONS += _sel(_c11, ('C11.O2.lfs_pop_env', 'C11.O2.lfs_push_env', 'C11.O1.lfs_push', 'C11.O1.lfs_pop', 'C11.O1.wfs_pop', 'C11.O1.wfs_pop_all_iter'))
OBLIGATIONS += _sel(_c12, ('C12.O1.enqueue', 'C12.O1.dequeue', 'C12.O2.dequeue_env'))
# the resize-request retry loops that add / del run through ht_count_add / ht_count_del (solo run: every CAS loop terminates)
OBLIGATIONS += _sel(_c09, ('C09.O6.lazy_count', 'C09.O6.lazy_grow', 'C09.O6.count_adddel'))
OBLIGATIONS += _sel(_c10, ('C10.O1.dequeue', 'C10.O1.iter', 'C10.O1.splice', 'C10.O1.enqueue', 'C10.O1.busy_wait'))
META = {
    'level': 'other',
    'explanation': 'C17 quantifies over suspension points of other threads. Decided by contracts: (O1) each operation documented wait-free, compiled with the REAL primitives, executes every loop of its call closure at most once from an ARBITRARY memory state (unwinding assertions at bound 1, no recursion) - a constant bound on its own steps; (O3) the non-blocking variants can reach neither poll() nor caa_cpu_relax() nor a second loop iteration from an arbitrary memory state; (O0) positive controls: the blocking variants DO trip the same check; (O4) from the intermediate states a suspended enqueuer / pusher leaves behind, the non-blocking variants return the right element or WOULDBLOCK (exactly when the needed link is in flight, structure unchanged, never when nothing is in flight), wait-free operations complete, and the lock-free queue helps the lagging tail forward and completes; (O2/O5, shared with C06-C08, C10-C12) hash-table traversals and mutators terminate on unbounded chains containing logically deleted nodes (decreases clauses; unlinking = helping), lfstack push/pop retry only when another operation succeeded (interference tokens). Hash-table operations in the middle of a resize and the full schedule quantifier are not decided.',
    'trusted_base': ['CBMC 6.11', 'assumed x86 instruction contracts for the inline asm (must-fire rewrite, as C20)', 'syscall / ENOSYS fallback / bp registration of an unregistered thread are opaque in O1', 'sequential meaning of the primitives in O2/O4/O5'],
    'assumptions': ['a single x86 lock-prefixed instruction / xchg completes in bounded time (hardware)', 'urcu_bp_read_lock is considered for a REGISTERED thread (the property says so); its first-use registration path takes locks',
                    'read_unlock / quiescent_state may issue FUTEX_WAKE (a system call that does not wait); the ENOSYS compat fallback takes a mutex and is outside the claim'],
}
