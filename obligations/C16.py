from engine.core import Ob

CK = ('--bounds-check', '--pointer-check', '--signed-overflow-check', '--div-by-zero-check')
CKL = ('--bounds-check', '--signed-overflow-check', '--div-by-zero-check')
OBLIGATIONS = [
    Ob(name='C16.O1.bp_fork_handlers', harness='C15/bp.c', entry='h_fork', defines=('_LGPL_SOURCE',), native=True, unwind=6, unwindset=('urcu_bp_prune_registry.0:9', 'urcu_bp_prune_registry.1:2'), min_covers=4, checks=CKL, timeout=600, tier='B',
       bound='one registry chunk (8 slots): 2 allocated + registered slots with arbitrary owners (forking thread or other), the rest free; loops fully unwound',
       functions=('urcu_bp_before_fork', 'urcu_bp_after_fork_parent', 'urcu_bp_after_fork_child', 'urcu_bp_prune_registry', 'cleanup_thread'),
       desc='bp fork handlers: before_fork blocks all signals and takes gp lock then registry lock; parent: registry untouched; child: every slot not owned by the forking thread is released (alloc, tid, reader word cleared, off the registry, usage count), its own slots are kept; both: locks released, pre-fork signal mask restored'),
]
H = 'C16/callrcu_fork.c'
D = ('_LGPL_SOURCE',)
OBLIGATIONS += [
    Ob(name='C16.O2.call_rcu_before_fork', harness=H, entry='h_before_fork', defines=D, native=True, unwind=6, min_covers=4, checks=CKL, timeout=600, tier='B',
       bound='<= 2 helpers (each asleep or not, real-time or not, with or without a queued callback, reacting to PAUSE within 0..2 polls)',
       functions=('call_rcu_before_fork', 'wake_call_rcu_thread', 'call_rcu_wake_up'),
       desc='call_rcu_before_fork: call_rcu_mutex taken first and kept; registered hash-table hook once under it; PAUSE + wake-up for every helper; returns only after EVERY helper announced PAUSED; queues untouched'),
    Ob(name='C16.O3.call_rcu_after_fork_parent', harness=H, entry='h_after_fork_parent', defines=D, native=True, unwind=6, min_covers=3, checks=CKL, timeout=600, tier='B',
       bound='<= 2 helpers reacting within 0..2 polls', functions=('call_rcu_after_fork_parent',),
       desc='call_rcu_after_fork_parent: clears exactly PAUSE on every helper, returns only after every helper dropped PAUSED, then the hash-table hook, the mutex released last; queues untouched'),
    Ob(name='C16.O4.helper_pause', harness=H, entry='h_helper_pause', defines=D, mode='legacy', rules=('callrcu',), tier='B', bound='<= 2 queued callbacks, PAUSE cleared after 1..3 polls',
       replace=('urcu_memb_synchronize_rcu', 'set_thread_cpu_affinity', 'urcu_memb_register_thread', 'urcu_memb_unregister_thread'),
       unwind=5, min_covers=2, checks=CKL, timeout=600, functions=('call_rcu_thread',),
       desc='helper pause branch: unregisters as a reader before announcing PAUSED; while parked it is no reader and touches neither queue nor callbacks; drops PAUSED only after PAUSE was cleared, re-registers; then runs the callbacks queued at fork time exactly once'),
    Ob(name='C16.O5.call_rcu_after_fork_child', harness=H, entry='h_after_fork_child', defines=D, native=True, unwind=6, min_covers=4, checks=CKL, timeout=600, tier='B',
       bound='<= 2 inherited helpers with <= 1 queued callback each', functions=('call_rcu_after_fork_child', '_call_rcu_data_free', 'get_default_call_rcu_data', 'call_rcu_data_init'),
       desc='call_rcu_after_fork_child: mutex released; hook once; a new default helper with its own thread; per-CPU table / thread pointer dropped; inherited helpers marked STOPPED, never waited for nor joined, their callbacks moved exactly once to the new default helper, unlinked and freed once; never used => no-op'),
]
WQ = 'C16/wq_fork.c'
OBLIGATIONS += [
    Ob(name='C16.O6.wq_pause_worker', harness=WQ, entry='h_wq_pause', defines=('LOOPS',), mode='legacy', loop_contracts=True, need_loop_assertions=True, rules=('wq_fork',), unwind=3, min_covers=2, checks=CKL, timeout=300,
       functions=('urcu_workqueue_pause_worker', 'wake_worker_thread', 'futex_wake_up'),
       desc='urcu_workqueue_pause_worker (loop invariant, any number of polls): sets PAUSE, wakes a sleeping worker, returns only after the worker itself announced PAUSED; other flags and the queue untouched'),
    Ob(name='C16.O6.wq_resume_worker', harness=WQ, entry='h_wq_resume', defines=('LOOPS',), mode='legacy', loop_contracts=True, need_loop_assertions=True, rules=('wq_fork',), unwind=3, min_covers=1, checks=CKL, timeout=300,
       functions=('urcu_workqueue_resume_worker',),
       desc='urcu_workqueue_resume_worker (loop invariant, any number of polls): clears exactly PAUSE, returns only after the worker dropped PAUSED'),
    Ob(name='C16.O6.wq_create_worker', harness=WQ, entry='h_wq_create_worker', native=True, unwind=3, checks=CKL, timeout=300, rules=('wq_fork',),
       functions=('urcu_workqueue_create_worker',),
       min_covers=3, desc='urcu_workqueue_create_worker in the child, for every inherited flag combination and sleep word (-1 / 0): PAUSE and PAUSED both cleared, sleep word re-initialised, one new worker thread on the queue created with signals blocked, queued work kept'),
    Ob(name='C16.O6.wq_worker_pause', harness=WQ, entry='h_wq_worker_pause', native=True, unwind=5, min_covers=2, checks=CKL, timeout=300, rules=('wq_fork',), tier='B', bound='<= 2 queued work items, PAUSE cleared after 1..3 polls',
       functions=('workqueue_thread',),
       desc='workqueue_thread pause branch: before_pause callback, then PAUSED; no queue/work access while parked; PAUSED dropped only after PAUSE cleared; after_resume; then the queued work runs exactly once'),
]
OBLIGATIONS += [
    Ob(name='C16.O7.lfht_fork_nesting', harness='C16/lfht_fork.c', entry='h_lfht_fork', unwind=4, min_covers=3, checks=CKL, timeout=300,
       functions=('cds_lfht_before_fork', 'cds_lfht_after_fork_parent', 'cds_lfht_after_fork_child'),
       assumptions=('work-queue operations are used through their contracts (proved in C16.O6): pause requires a running worker, resume/create_worker require a parked one',),
       desc='hash-table fork handlers for 1..3 nested registrations, with or without a work queue: first before_fork takes the fork mutex and pauses the worker once; nested calls only count; the last after_fork resumes (parent) or re-creates (child) the worker exactly once and releases the mutex last; preconditions of the work-queue contracts hold at each call'),
]
META = {
    'level': 'other',
    'explanation': 'C16 quantifies over fork instants and helper schedules. Contracts decide the handler-side premises: (proved, unbounded) the work-queue pause/resume handshakes for any number of polls (loop invariants), create_worker for every inherited flag combination, and the nesting protocol of the hash-table handlers against the work-queue contracts; (bounded, reported apart) call_rcu before_fork / after_fork_parent / after_fork_child over <= 2 helpers with the helpers as environment inside poll(), the pause branches of the call_rcu helper and of the work-queue worker (quiescent while parked, queued callbacks run exactly once afterwards), and the bp handlers (locks, signal mask, pruning of vanished threads in the child). That parent and child never hang for every fork instant is not decided.',
    'trusted_base': ['CBMC 6.11', 'pthread / poll / futex / sigmask / mmap stubs with ghost state', 'sequential meaning of the primitives', 'free() logged instead of performed in the call_rcu harness'],
    'assumptions': ['fork() itself (address-space copy, only the forking thread survives) is the documented OS behaviour, not modelled', 'helper / worker threads react to PAUSE within a bounded number of polls in the bounded obligations; the loop-contract obligations need no such bound', 'termination (no hang) is reduced to: every wait loop waits for a flag that the paired thread provably sets (partial correctness)'],
}
