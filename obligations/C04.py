from engine.core import Ob
from obligations import C03 as _c03

CKL = ('--bounds-check', '--signed-overflow-check', '--div-by-zero-check')
H = 'C03/callrcu.c'
D = ('_LGPL_SOURCE', 'BARRIER_PART')
OBLIGATIONS = [
    Ob(name='C04.O1.rcu_barrier', harness=H, entry='h_barrier', defines=D, mode='legacy', tier='B', bound='<= 2 helper threads on the list',
       replace=('_call_rcu', 'call_rcu_completion_wait'), unwind=4, cbmc_flags=('--no-unwinding-assertions',), min_covers=3, checks=CKL, timeout=600, functions=('rcu_barrier',),
       desc='rcu_barrier: one marker (_rcu_barrier_complete, own rcu_head) per listed helper, queued under call_rcu_mutex; sleeps only after futex decrement -> barrier -> non-zero count, with the mutex released; inside a read-side critical section nothing is queued'),
    Ob(name='C04.O3.barrier_complete', harness=H, entry='h_barrier_complete', defines=D, mode='legacy', unwind=2, native=True, min_covers=3, checks=CKL, timeout=600,
       functions=('_rcu_barrier_complete', 'call_rcu_completion_wake_up', 'urcu_ref_put', 'free_completion'),
       desc='_rcu_barrier_complete for every count / reference state: one decrement, wake-up iff last marker and waiter asleep, work item freed once, completion freed by exactly the last put'),
] + [o for o in _c03.OBLIGATIONS if o.name in ('C03.O2.thread_iteration', 'C03.O4.data_free', 'C03.O1.call_rcu_enqueue')]
# futex-wait loops of the helper / of rcu_barrier (shared with C02; late import via engine/check.py)
def _shared():
    from obligations import C02 as _c02, C01 as _c01
    _r = [o for o in _c02.OBLIGATIONS if o.name in ('C02.O3.completion_wait', 'C02.O3.call_rcu_wait')]
    from obligations import C10 as _c10
    _r += [o for o in _c10.OBLIGATIONS if o.name in ('C10.O1.enqueue', 'C10.O1.splice', 'C10.O1.iter')]
    # an online qsbr caller of rcu_barrier goes offline while it waits (and that transition wakes a grace period that sleeps on it)
    _r += [o for o in _c01.OBLIGATIONS if o.name in ('C01.O3.qsbr.offline', 'C01.O3.qsbr.online', 'C01.O3.qsbr.quiescent_state')]
    return _r
META = {
    'level': 'other',
    'explanation': 'rcu_barrier is correct if (a) every helper that can still run earlier callbacks gets exactly one marker behind them, (b) helpers run callbacks FIFO (C03.O2), (c) the count/futex handshake is sound, (d) a helper leaves the helper list only with an empty queue (C03.O4). Contracts decide each of these per function; list walks are bounded to <= 2 helpers. Termination of the wait is not decided.',
    'trusted_base': ['CBMC 6.11', '_call_rcu contract (C03.O1)', 'futex/pthread stubs', 'free() logged instead of performed'],
    'assumptions': ['schedules of helper threads; termination of the futex wait', 'callbacks terminate'],
}
