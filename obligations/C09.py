from engine.core import Ob
from engine import native

LFHT_SRCS = ('rculfhash.c', 'rculfhash-mm-order.c', 'rculfhash-mm-chunk.c', 'rculfhash-mm-mmap.c', 'workqueue.c', 'urcu.c',
             'compat_arch.c', 'compat_futex.c', 'wfcqueue.c', 'wfstack.c', 'urcu-pointer.c')


def replay_resize(ctx, ob, inputs):
    def g(k, d):
        v = native.to_int(inputs.get(k, {})) if k in inputs else None
        return d if v is None else v
    return native.run_program(ctx, 'resize', 'C09/native_resize.c', extra_sources=LFHT_SRCS, defines=('RCU_MEMBARRIER',),
                              args=(g('in_size_order', 0), g('in_max_order', 6), g('in_count', 3) if ob.entry == 'h_target_update' else g('in_new_size', 3)))


H = 'C09/resize.c'
D = ('_LGPL_SOURCE',)
OBLIGATIONS = [
    Ob(name='C09.O1.count_order', harness=H, entry='h_count_order', mode='dfcc',
       desc='cds_lfht_get_count_order_ulong = ceil(log2 x), -1 for 0, for all 2^64 x (given the assumed contract of the bsr-based fls)',
       enforce=('cds_lfht_get_count_order_ulong',), replace=('fls_u64',), defines=D, unwind=1, cover=False, min_props=3,
       functions=('cds_lfht_get_count_order_ulong', 'cds_lfht_fls_ulong'), assumptions=('fls_u64 inline asm (bsr) replaced by an assumed instruction contract',)),
    Ob(name='C09.O1.target_update', harness=H, entry='h_target_update', mode='legacy', defines=D, unwind=1,
       desc='resize_target_update_count: stored target is a power of two in [1,max], >= request unless clamped, minimal',
       replace=('fls_u64',), min_props=4, min_covers=3, functions=('resize_target_update_count',), native_custom=replay_resize, small=True),
    Ob(name='C09.O3.init_table', harness=H, entry='h_init_table', mode='dfcc', defines=D + ('GROW_SIDE', 'LOOP_CONTRACTS'), unwind=12, loop_contracts=True, rules=('lfht_resize',), need_loop_assertions=2,
       desc='init_table(first,last) for all orders <= 63 and all targets: allocate(i) < populate(i) < release-store size=2^i, increasing orders, stops when the target is below 2^i or destroy is in progress; exact final size and exact set of allocated orders',
       enforce=('init_table',), replace=('cds_lfht_alloc_bucket_table', 'init_table_populate'), min_props=20, min_covers=3, timeout=600,
       functions=('init_table',)),
    Ob(name='C09.O3.fini_table', harness=H, entry='h_fini_table', mode='dfcc', defines=D + ('LOOP_CONTRACTS',), unwind=12, loop_contracts=True, rules=('lfht_resize',), need_loop_assertions=2,
       desc='fini_table(first,last) for all orders <= 63: per order publish smaller size (after wmb) < grace period < unlink; an order is freed only after its unlink and a later grace period, exactly once; exact final size and exact set of freed orders',
       enforce=('fini_table',), replace=('remove_table', 'cds_lfht_free_bucket_table'), min_props=20, min_covers=2, timeout=600,
       functions=('fini_table',)),
    Ob(name='C09.O3.grow', harness=H, entry='h_grow', mode='dfcc', defines=D + ('GROW_SIDE',), unwind=12,
       desc='_do_cds_lfht_grow: passes first=order(old)+1, last=order(target); ends at the largest power of two <= target',
       enforce=('_do_cds_lfht_grow',), replace=('init_table', 'cds_lfht_get_count_order_ulong'), min_props=10, min_covers=2,
       functions=('_do_cds_lfht_grow',)),
    Ob(name='C09.O3.shrink', harness=H, entry='h_shrink', mode='dfcc', defines=D, unwind=12,
       desc='_do_cds_lfht_shrink: clamps to >= 1, passes first=order(target)+1, last=order(old); ends at the smallest power of two >= target',
       enforce=('_do_cds_lfht_shrink',), replace=('fini_table', 'cds_lfht_get_count_order_ulong'), min_props=10, min_covers=3,
       functions=('_do_cds_lfht_shrink',)),
    Ob(name='C09.O2.resize_terminates', harness=H, entry='h_resize', mode='legacy', defines=D + ('RESIZE_LEVEL',), unwind=2,
       desc='cds_lfht_resize(ht, n) for EVERY n, every power-of-two size/max: the do-while of _do_cds_lfht_resize exits after one pass on a quiescent table (unwinding assertion = termination), size == target on return, within [1,max]',
       replace=('_do_cds_lfht_grow', '_do_cds_lfht_shrink', 'fls_u64'), min_props=10, min_covers=4,
       functions=('cds_lfht_resize', '_do_cds_lfht_resize', 'resize_target_update_count'), native_custom=replay_resize, small=True),
]

OBLIGATIONS.append(Ob(name='C09.O2.resize_retarget', harness='C09/retarget.c', entry='h_retarget', mode='legacy', defines=D, unwind=3, min_covers=4, checks=('--bounds-check', '--signed-overflow-check', '--div-by-zero-check'), timeout=300,
    replace=('_do_cds_lfht_grow', '_do_cds_lfht_shrink'), functions=('_do_cds_lfht_resize',),
    desc='_do_cds_lfht_resize when the target moves during a pass (second cds_lfht_resize or a lazy resize: they only store resize_target), for all power-of-two sizes and targets: every pass of the re-do loop starts from the CURRENT size and target, the loop ends with size == latest target after at most two passes (unwinding assertion)'))
OBLIGATIONS.append(Ob(name='C09.O4.partition_helper', harness='C09/partition.c', entry='h_partition', defines=D, mode='legacy', replace=('cds_lfht_get_count_order_ulong',), unwind=18, min_covers=5, checks=('--bounds-check', '--signed-overflow-check', '--div-by-zero-check'), timeout=600,
    functions=('partition_resize_helper',),
    desc='partition_resize_helper for every len = 2^k (k <= 40), every CPU mask, work-array allocation failure and pthread_create failing at ANY worker: the ranges given to the workers plus the caller\'s fallback cover [0,len) consecutively - every bucket index exactly once; workers joined, signals blocked during creation, mask restored, work array freed once'))
for e, fn, rep, pre in (('h_populate', 'init_table_populate_partition', ('_cds_lfht_add',), ('init_table_populate_partition.0:2',)), ('h_remove', 'remove_table_partition', ('_cds_lfht_gc_bucket',), ('remove_table_partition.0:2',))):
    OBLIGATIONS.append(Ob(name='C09.O5.' + fn, harness='C09/populate.c', entry=e, defines=D, mode='legacy', loop_contracts=True, need_loop_assertions=2, rules=('lfht_partition',), replace=rep, pre_unwindset=pre, unwind=2,
        min_covers=2, checks=('--bounds-check', '--signed-overflow-check', '--div-by-zero-check'), timeout=300, functions=(fn,),
        assumptions=('_cds_lfht_add (bucket mode) / _cds_lfht_gc_bucket are used through contracts whose preconditions are the call shapes; their bodies are the subject of C08.O5.add_bucket and C07.O2.gc_bucket',),
        desc=fn + ' (loop invariant: any order, start, len): each bucket index of the share exactly once, in order, with the documented call shape (old size / parent bucket, reverse hash set first, REMOVED before unlink), inside one read-side critical section'))
for e, fns, d in (('h_wq_queue_work', ('urcu_workqueue_queue_work', 'wake_worker_thread', 'futex_wake_up'), 'urcu_workqueue_queue_work on queues of 0..2 items: one FIFO enqueue, qlen + 1, enqueue -> barrier -> futex test, wake iff the worker sleeps (resize and destroy work are ordered through this one queue)'),
                  ('h_wq_iteration', ('workqueue_thread',), 'one pass of workqueue_thread: every queued item exactly once in FIFO order, grace-period callback once per batch, queue left empty')):
    OBLIGATIONS.append(Ob(name='C09.O7.' + e[2:], harness='C16/wq_fork.c', entry=e, unwind=5, min_covers=2, checks=('--bounds-check', '--signed-overflow-check', '--div-by-zero-check'), timeout=300, rules=('wq_fork',), functions=fns,
        tier='P' if e == 'h_wq_queue_work' else 'B', bound='' if e == 'h_wq_queue_work' else '<= 2 queued work items', desc=d))
LZ = 'C09/lazy.c'
CKZ = ('--bounds-check', '--signed-overflow-check', '--div-by-zero-check')
for e, fns, rep, dfn, d in (
    ('h_lazy_grow', ('cds_lfht_resize_lazy_grow', 'resize_target_grow', '__cds_lfht_resize_lazy_launch'), ('_do_cds_lfht_resize', 'cds_lfht_get_count_order_ulong'), (), 'cds_lfht_resize_lazy_grow for all power-of-two sizes / targets / maxima and growth 0..32: target only raised, stays a power of two <= max; one work item queued iff raised, nothing initiated, no destroy in progress'),
    ('h_lazy_count', ('cds_lfht_resize_lazy_count',), ('_do_cds_lfht_resize', 'cds_lfht_get_count_order_ulong'), (), 'cds_lfht_resize_lazy_count for every power-of-two count: clamped; a grow request only raises, a shrink request only lowers (not while a grow beyond size is pending); target stays a power of two in [1,max]'),
    ('h_count_adddel', ('ht_count_add', 'ht_count_del'), ('_do_cds_lfht_resize', 'cds_lfht_get_count_order_ulong', 'cds_lfht_resize_lazy_count', 'ht_get_split_count_index'), ('COUNT_PART',), 'ht_count_add / ht_count_del for every counter state: the resize request carries a power-of-two count, only every 2^10-th operation, only past the load thresholds'),
    ('h_resize_cb', ('do_resize_cb',), ('_do_cds_lfht_resize', 'cds_lfht_get_count_order_ulong'), (), 'do_resize_cb: registered thread, resize mutex held around the resize, work item freed once'),
    ('h_destroy_cb', ('do_auto_resize_destroy_cb',), ('_do_cds_lfht_resize', 'cds_lfht_get_count_order_ulong', 'cds_lfht_is_empty', 'cds_lfht_delete_bucket', 'free_split_items_count'), (), 'do_auto_resize_destroy_cb (the deferred half of destroy, run by the resize worker): bucket nodes removed by a registered thread, counters and table released exactly once, worker unregistered, and NOTHING of the table is used after it was handed to the allocator (the harness allocator poisons the released table)'),
    ('h_destroy', ('cds_lfht_destroy',), ('_do_cds_lfht_resize', 'cds_lfht_get_count_order_ulong', 'cds_lfht_is_empty', 'cds_lfht_delete_bucket', 'free_split_items_count'), (), 'cds_lfht_destroy: AUTO_RESIZE: -EPERM on a non-empty table with nothing changed, else in_progress_destroy set and exactly one destroy item queued behind the queued resizes; otherwise synchronous teardown, everything freed once'),
):
    OBLIGATIONS.append(Ob(name='C09.O6.' + e[2:], harness=LZ, entry=e, mode='legacy', defines=D + dfn, replace=rep, unwind=3, min_covers=1 if e in ('h_resize_cb', 'h_destroy_cb') else 3, checks=CKZ, timeout=300, functions=fns, desc=d))
# "every node present before a resize is still found afterwards" also depends on how a grow links each new bucket node and how a
# shrink unlinks it: the bodies behind the call shapes of C09.O5 (shared with C08 / C07; obligations/C08.py imports this module,
# hence the late import, resolved by engine/check.py)
def _shared():
    from obligations import C08 as _c08
    _r = [o for o in _c08.OBLIGATIONS if o.name in ('C08.O5.add_bucket', 'C07.O2.gc_bucket_small', 'C07.O2.gc_bucket', 'C08.O3.alloc_free_mmap', 'C08.O3.alloc_table_order', 'C08.O3.bucket_at_order', 'C08.O3.bucket_at_chunk', 'C08.O3.bucket_at_mmap')]
    from obligations import C10 as _c10
    _r += [o for o in _c10.OBLIGATIONS if o.name in ('C10.O1.enqueue', 'C10.O1.splice')]
    return _r
META = {
    'level': 'proof', 'bounded_apart': True,
    'trusted_base': ['CBMC 6.11 (dfcc contract instrumentation, SAT back end)', 'fls_u64: bsr inline asm replaced by an assumed instruction contract',
                     'sequential meaning of uatomic/cmm primitives (atomics_seq.h)', 'pthread mutex stubs'],
    'assumptions': ['quiescent resize in C09.O2.resize_terminates and C09.O3: no other thread moves resize_target / in_progress_destroy during the call; a target that moves once during a pass is C09.O2.resize_retarget, further interleavings of re-targeting are not decided',
                    'partition worker threads and the work-queue thread are not modelled as threads'],
}
