from engine.core import Ob

WF = ('_cds_wfs_push', '___cds_wfs_pop', '___cds_wfs_node_sync_next', '___cds_wfs_pop_all', '_cds_wfs_first', '___cds_wfs_next', '_cds_wfs_empty')
LF = ('_cds_lfs_push', '___cds_lfs_pop', '___cds_lfs_pop_all', '_cds_lfs_empty')
# the END sentinel (0x1) goes through caa_container_of(): CBMC's pointer-arithmetic checks flag that idiom, so
# only dereference / bounds / overflow checks are enabled for the stack obligations
CK = ('--bounds-check', '--pointer-check', '--signed-overflow-check', '--div-by-zero-check')
OBLIGATIONS = [
    Ob(name='C11.O1.wfs_push', harness='C11/wfs.c', entry='h_push', unwind=1, min_covers=2, functions=WF, checks=CK,
       desc='wfstack push on a quiescent stack of any depth: new top above the old one (END sentinel kept), returns non-empty flag; exchange before release store; wait-free'),
    Ob(name='C11.O1.wfs_pop', harness='C11/wfs.c', entry='h_pop', unwind=2, min_covers=3, functions=WF, checks=CK,
       desc='wfstack pop (blocking / non-blocking): top node, NULL iff empty, LAST iff it was the only one, never WOULDBLOCK on a quiescent stack'),
    Ob(name='C11.O1.wfs_pop_all_iter', harness='C11/wfs.c', entry='h_pop_all', unwind=1, min_covers=3, functions=WF, checks=CK,
       desc='wfstack pop_all returns the whole chain and empties the stack; first/next induction step of for_each over the popped chain'),
    Ob(name='C11.O2.wfs_pop_env', harness='C11/wfs.c', entry='h_pop_env', tier='B', bound='1 concurrent push split into its 2 atomic steps at arbitrary points; retry / busy-wait loops unwound 4x',
       defines=('ENV_MODE',), unwind=4, cbmc_flags=('--no-unwinding-assertions',), min_covers=4, functions=WF, checks=CK, timeout=300,
       desc='wfstack pop with a pusher acting between any two of its shared accesses: returns the node on top when its CAS succeeded, exactly one successful CAS, LAST iff the stack was empty right after it, nothing lost; WOULDBLOCK leaves the stack unchanged'),
    Ob(name='C11.O1.lfs_push', harness='C11/lfs.c', entry='h_lfs_push', unwind=2, min_covers=2, functions=LF, checks=CK,
       desc='lfstack push on a quiescent stack of any depth: <= 2 iterations (unwinding assertion), new top above the old one, returns non-empty flag'),
    Ob(name='C11.O1.lfs_pop', harness='C11/lfs.c', entry='h_lfs_pop', unwind=1, min_covers=3, functions=LF, checks=CK,
       desc='lfstack pop: top node, NULL iff empty, head = successor; empty() <=> n == 0'),
    Ob(name='C11.O1.lfs_pop_all', harness='C11/lfs.c', entry='h_lfs_pop_all', unwind=1, min_covers=2, functions=LF, checks=CK,
       desc='lfstack pop_all: whole chain, stack empty afterwards'),
    Ob(name='C11.O1.rculfs', harness='C11/lfs.c', entry='h_rculfs', unwind=2, min_covers=2, functions=('_cds_lfs_push_rcu', '_cds_lfs_pop_rcu'), checks=CK,
       desc='legacy cds_lfs_rcu push/pop on stacks of depth 0..2 (loop-free per call on a quiescent stack)'),
    Ob(name='C11.O2.lfs_pop_env', harness='C11/lfs.c', entry='h_lfs_pop_env', mode='legacy', loop_contracts=True, rules=('lfstack',), defines=('ENV_MODE',),
       need_loop_assertions=2, min_covers=1, functions=LF, checks=CK, timeout=300,
       desc='lfstack pop under arbitrary, unboundedly many head changes by other threads (loop contract): returns the head of its single successful CAS, installs that node\'s successor; retries only when a token was consumed (decreases(tokens) = lock-freedom)'),
    Ob(name='C11.O2.lfs_push_env', harness='C11/lfs.c', entry='h_lfs_push_env', mode='legacy', loop_contracts=True, rules=('lfstack',), defines=('ENV_MODE',),
       need_loop_assertions=2, min_covers=1, functions=LF, checks=CK, timeout=300,
       desc='lfstack push under arbitrary interference: single successful CAS installs node with node.next == replaced head; lock-free (token variant)'),
]
OBLIGATIONS.append(Ob(name='C11.O3.lock_discipline.lfs', harness='C11/lockdisc.c', entry='h_lock_lfs', defines=('PART_LFS',), unwind=3, min_covers=2, checks=('--bounds-check', '--signed-overflow-check', '--div-by-zero-check'), functions=('cds_lfs_pop_blocking', 'cds_lfs_pop_all_blocking'), timeout=300, native=True,
    desc='mutex-protected consumer wrappers (cds_lfs_pop_blocking, cds_lfs_pop_all_blocking): every access to the consumer-side words happens with the structure\'s own mutex held, taken once and released once; result = result of the lock-free core (mutual exclusion of consumers is the documented scheme that rules out ABA / torn dequeues)'))
OBLIGATIONS.append(Ob(name='C11.O3.lock_discipline.wfs', harness='C11/lockdisc.c', entry='h_lock_wfs', defines=('PART_WFS',), unwind=3, min_covers=2, checks=('--bounds-check', '--signed-overflow-check', '--div-by-zero-check'), functions=('cds_wfs_pop_blocking', 'cds_wfs_pop_with_state_blocking', 'cds_wfs_pop_all_blocking'), timeout=300, native=True,
    desc='mutex-protected consumer wrappers (cds_wfs_pop_blocking, cds_wfs_pop_with_state_blocking, cds_wfs_pop_all_blocking): every access to the consumer-side words happens with the structure\'s own mutex held, taken once and released once; result = result of the lock-free core (mutual exclusion of consumers is the documented scheme that rules out ABA / torn dequeues)'))
# operations run from the states a suspended enqueuer / pusher leaves behind (shared with C17; late import via engine/check.py):
# nothing is lost or reported as 'end' while a link is still in flight
def _shared():
    from obligations import C17 as _c17
    return [o for o in _c17.OBLIGATIONS if o.name in ('C17.O4.frozen.wfs_pop_nb', 'C17.O4.frozen.wfs_pop_all_frozen')]
META = {
    'level': 'proof', 'bounded_apart': True,
    'trusted_base': ['CBMC 6.11', 'sequential meaning of the uatomic/cmm primitives (atomics_seq.h)', 'canonical pool layout'],
    'assumptions': ['the callers\' synchronisation provides the no-ABA rely (mutex / single consumer / RCU + grace period = C01)', 'full linearizability over all schedules is not decided'],
}
