from engine.core import Ob

CK = ('--bounds-check', '--pointer-check', '--signed-overflow-check', '--div-by-zero-check', '--conversion-check')
CK2 = ('--bounds-check', '--pointer-check', '--signed-overflow-check', '--div-by-zero-check')
R = 'C01/reader.c'
OBLIGATIONS = []
for fl in ('MEMB', 'MB', 'BP'):
    d = ('FLAVOR_' + fl, '_LGPL_SOURCE')
    pre = '_urcu_%s_' % fl.lower()
    OBLIGATIONS += [
        Ob(name='C01.O1.%s.state' % fl.lower(), harness=R, entry='h_state', defines=d, unwind=1, native=True, min_covers=3, checks=CK2,
           functions=('urcu_bp_reader_state',) if fl == 'BP' else ('urcu_common_reader_state',),
           desc='%s: reader-state classification = spec function of (reader word, gp.ctr) over all 2^128 pairs, one snapshot of the word, read-only' % fl.lower()),
        Ob(name='C01.O2.%s.lock' % fl.lower(), harness=R, entry='h_lock', defines=d, unwind=1, native=True, min_covers=2, checks=CK2,
           functions=(pre + 'read_lock', pre + 'read_lock_update'),
           desc='%s: rcu_read_lock for every reader word: outermost = snapshot of gp.ctr + slave barrier after the store, nested = +COUNT with phase kept; one store' % fl.lower()),
        Ob(name='C01.O2.%s.unlock' % fl.lower(), harness=R, entry='h_unlock', defines=d, unwind=1, native=True, min_covers=3, checks=CK2,
           functions=(pre + 'read_unlock', pre + 'read_unlock_update_and_wakeup', 'urcu_common_wake_up_gp'),
           desc='%s: rcu_read_unlock for every reader word: -COUNT with phase kept; outermost: barrier before the store, store -> barrier -> futex test, wake-up iff futex == -1' % fl.lower()),
    ]
for fl in ('MEMB', 'MB'):
    OBLIGATIONS.append(Ob(name='C01.O5.%s.sync_skeleton' % fl.lower(), harness='C01/sync.c', entry='h_sync', defines=('FLAVOR_' + fl, '_LGPL_SOURCE'), mode='legacy',
       replace=('urcu_wait_add', 'urcu_adaptative_busy_wait', 'urcu_move_waiters', 'urcu_wake_all_waiters', 'smp_mb_master', 'wait_for_readers'),
       unwind=1, min_covers=4, checks=CK2, functions=('synchronize_rcu',),
       desc='%s: synchronize_rcu protocol skeleton: wait_add; merged caller only waits; leader: lock gp, move_waiters BEFORE examining readers, lock registry, mb_master, scan, barrier, exactly one PHASE toggle, barrier, scan, splice, mb_master, unlocks in reverse order, wake_all last; registry set unchanged' % fl.lower()))
for fl, nr, tiers in (('MEMB', 1, ('quick', 'thorough')), ('MB', 1, ('quick', 'thorough')), ('MEMB', 2, ('thorough',))):
    OBLIGATIONS.append(Ob(name='C01.O4.%s.scan%d' % (fl.lower(), nr), harness='C01/scan.c', entry='h_scan', defines=('FLAVOR_' + fl, '_LGPL_SOURCE', 'NRMAX=%d' % nr), mode='legacy', tiers=tiers,
       replace=('smp_mb_master', 'wait_gp'), rules=('qs_attempts_small',), tier='B', bound='<= %d reader(s), <= 3 passes,' % nr + ' RCU_QS_ACTIVE_ATTEMPTS reduced from 100 to 2 (scratch rewrite)',
       unwind=4, cbmc_flags=('--no-unwinding-assertions',), min_covers=3 if nr == 2 else 2, checks=('--bounds-check', '--signed-overflow-check', '--div-by-zero-check'), timeout=900,
       functions=('wait_for_readers', 'urcu_common_reader_state', 'cds_list_move'),
       desc='wait_for_readers with arbitrary reader words at every load: never retires a reader on an OLD observation; CURRENT -> cur_snap (if supplied) else qsreaders; nothing lost/duplicated; sleeps only after arm -> mb_master -> full re-scan with one OLD; futex reset; lock discipline'))
for nr, tiers in ((1, ('quick', 'thorough')), (2, ('thorough',))):
    OBLIGATIONS.append(Ob(name='C01.O4.qsbr.scan%d' % nr, harness='C01/scan_qsbr.c', entry='h_scan', defines=('_LGPL_SOURCE', 'NRMAX=%d' % nr), mode='legacy', tiers=tiers,
       replace=('wait_gp',), rules=('qs_attempts_small_qsbr',), tier='B', bound='<= %d reader(s), <= 3 passes,' % nr + ' RCU_QS_ACTIVE_ATTEMPTS reduced from 100 to 2 (scratch rewrite)',
       unwind=4, cbmc_flags=('--no-unwinding-assertions',), min_covers=3 if nr == 2 else 2, checks=('--bounds-check', '--signed-overflow-check', '--div-by-zero-check'), backend=('cadical' if nr == 1 else 'minisat'), timeout=(300 if nr == 1 else 900),
       functions=('wait_for_readers', 'urcu_qsbr_reader_state', 'cds_list_move'),
       desc='qsbr wait_for_readers with arbitrary reader counters at every load: never retires a reader on an OLD observation; nothing lost/duplicated; sleeps only after arm -> wmb -> waiting set on every awaited reader -> full barrier -> re-scan with one OLD; futex reset with release; lock discipline'))
for nr, tiers in ((1, ('quick', 'thorough')), (2, ('thorough',))):
    OBLIGATIONS.append(Ob(name='C01.O4.bp.scan%d' % nr, harness='C01/scan_bp.c', entry='h_scan', defines=('_LGPL_SOURCE', 'NRMAX=%d' % nr), tiers=tiers,
       rules=('qs_attempts_small_bp',), tier='B', bound='<= %d reader(s), <= 3 passes,' % nr + ' RCU_QS_ACTIVE_ATTEMPTS reduced from 100 to 2 (scratch rewrite)',
       unwind=4, cbmc_flags=('--no-unwinding-assertions',), min_covers=3 if nr == 2 else 2, checks=('--bounds-check', '--signed-overflow-check', '--div-by-zero-check'), timeout=900,
       functions=('wait_for_readers', 'urcu_bp_reader_state', 'cds_list_move'),
       desc='bp wait_for_readers with arbitrary reader words at every load: never retires a reader on an OLD observation; nothing lost/duplicated; never waits holding the registry lock'))
for e, fns, d in (('h_membarrier_init', ('rcu_init', 'rcu_sys_membarrier_init', 'rcu_sys_membarrier_status'), 'memb start-up for every answer of the membarrier QUERY and of the registration: the flag that lets readers drop their full barriers is set iff the kernel offers PRIVATE_EXPEDITED (registered first; failure fatal) or SHARED, never when the system call is unavailable; idempotent'),
                  ('h_mb_master', ('smp_mb_master',), 'memb smp_mb_master: flag set => exactly one membarrier(PRIVATE_EXPEDITED | SHARED as granted), failure fatal; flag clear => a full fence')):
    OBLIGATIONS.append(Ob(name='C01.O6.memb.' + e[2:], harness='C01/membarrier.c', entry=e, defines=('_LGPL_SOURCE',), unwind=2, min_covers=3, checks=CK2, functions=fns, timeout=120, desc=d))
for e, fns, cov in (('h_membarrier_init', ('urcu_bp_sys_membarrier_init', 'urcu_bp_sys_membarrier_status'), 3), ('h_mb_master', ('smp_mb_master',), 2)):
    OBLIGATIONS.append(Ob(name='C01.O6.bp.' + e[2:], harness='C01/membarrier_bp.c', entry=e, defines=('_LGPL_SOURCE',), unwind=2, min_covers=cov, checks=CK2, functions=fns, timeout=120,
                          desc='bp flavor: ' + ('start-up: readers may drop their full barriers iff PRIVATE_EXPEDITED is offered and was registered first' if 'init' in e else 'smp_mb_master: one membarrier(PRIVATE_EXPEDITED) when readers rely on it (failure fatal), else a full fence')))
OBLIGATIONS.append(Ob(name='C01.O5.bp.sync_skeleton', harness='C01/sync_bp_qsbr.c', entry='h_sync', defines=('FLAVOR_BP', '_LGPL_SOURCE'), mode='legacy',
   replace=('smp_mb_master', 'wait_for_readers'), unwind=1, min_covers=2, checks=CK2, functions=('urcu_bp_synchronize_rcu',),
   desc='bp: synchronize_rcu skeleton: all signals blocked first and restored last; lock gp, lock registry, mb_master, scan, exactly one PHASE toggle, scan, splice, mb_master, unlocks in reverse order; registry set unchanged'))
OBLIGATIONS.append(Ob(name='C01.O5.qsbr.sync_skeleton', harness='C01/sync_bp_qsbr.c', entry='h_sync', defines=('_LGPL_SOURCE',), mode='legacy',
   replace=('urcu_wait_add', 'urcu_adaptative_busy_wait', 'urcu_move_waiters', 'urcu_wake_all_waiters', 'wait_for_readers', 'urcu_qsbr_thread_offline', 'urcu_qsbr_thread_online'),
   unwind=1, min_covers=4, checks=CK2, functions=('urcu_qsbr_synchronize_rcu',),
   desc='qsbr (64-bit): synchronize_rcu skeleton: caller offline (or full barrier) before queuing itself; merged caller only waits; leader: lock gp, move_waiters, lock registry, counter += GP_CTR exactly once, one scan, splice, unlocks, wake_all; online again iff it was (else full barrier)'))
for entry, fns, what in (('h_state', ('urcu_qsbr_reader_state',), 'classification'), ('h_quiescent_state', ('_urcu_qsbr_quiescent_state', '_urcu_qsbr_quiescent_state_update_and_wakeup', 'urcu_qsbr_wake_up_gp'), 'quiescent_state'),
                          ('h_offline', ('_urcu_qsbr_thread_offline', 'urcu_qsbr_wake_up_gp'), 'thread_offline'), ('h_online', ('_urcu_qsbr_thread_online',), 'thread_online')):
    OBLIGATIONS.append(Ob(name='C01.O3.qsbr.' + entry[2:], harness='C01/qsbr.c', entry=entry, defines=('_LGPL_SOURCE',), unwind=1, native=True, min_covers=1, checks=CK2, functions=fns,
                          desc='qsbr ' + what + ': reader-word update for all values; seq-cst publication; store -> barrier -> waiting test; waiting cleared -> barrier -> futex test; wake iff waiting && futex == -1'))
# merged synchronize_rcu callers: the wait queue is a wfstack (push result decides who leads the grace period; pop_all hands the waiters to the leader) and the leader wakes the waiters (late import, resolved by engine/check.py)
def _shared():
    _r = []
    from obligations import C11 as _c11
    _r += [o for o in _c11.OBLIGATIONS if o.name in ('C11.O1.wfs_push', 'C11.O1.wfs_pop_all_iter')]
    from obligations import C02 as _c02
    _r += [o for o in _c02.OBLIGATIONS if o.name in ('C02.O5.wake_up', 'C02.O5.wake_all', 'C02.O3.busy_wait')]
    return _r
META = {
    'level': 'other',
    'explanation': 'C01 is a safety property over all schedules of readers and updaters; contracts decide, for all inputs, every per-function premise the accepted grace-period argument uses (reader-state classification, reader-word arithmetic and fences of lock/unlock/quiescent-state/offline/online for memb, mb, bp, qsbr; the protocol skeleton of all four synchronize_rcu implementations incl. waiter merging) and, bounded, the registry scan under arbitrary reader behaviour. The composition of these premises into the grace-period theorem is not machine-checked.',
    'trusted_base': ['CBMC 6.11', 'sequential meaning / event kinds of the uatomic and cmm primitives (atomics_seq.h)', 'futex system-call stub'],
    'assumptions': ['the grace-period theorem over all schedules (composition of the per-function obligations) is not machine-checked', 'x86-TSO: only store->load pairs need a full barrier'],
}
