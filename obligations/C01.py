from engine.core import Ob

CK = ('--bounds-check', '--pointer-check', '--signed-overflow-check', '--div-by-zero-check', '--conversion-check')
CK2 = ('--bounds-check', '--pointer-check', '--signed-overflow-check', '--div-by-zero-check')
R = 'C01/reader.c'
OBLIGATIONS = []
for fl in ('MEMB', 'MB', 'BP'):
    d = ('FLAVOR_' + fl, '_LGPL_SOURCE')
    pre = '_urcu_%s_' % fl.lower()
    OBLIGATIONS += [
        Ob(name='C01.O1.%s.state' % fl.lower(), harness=R, entry='h_state', defines=d, unwind=1, min_covers=3, checks=CK2,
           functions=('urcu_bp_reader_state',) if fl == 'BP' else ('urcu_common_reader_state',),
           desc='%s: reader-state classification = spec function of (reader word, gp.ctr) over all 2^128 pairs, one snapshot of the word, read-only' % fl.lower()),
        Ob(name='C01.O2.%s.lock' % fl.lower(), harness=R, entry='h_lock', defines=d, unwind=1, min_covers=2, checks=CK2,
           functions=(pre + 'read_lock', pre + 'read_lock_update'),
           desc='%s: rcu_read_lock for every reader word: outermost = snapshot of gp.ctr + slave barrier after the store, nested = +COUNT with phase kept; one store' % fl.lower()),
        Ob(name='C01.O2.%s.unlock' % fl.lower(), harness=R, entry='h_unlock', defines=d, unwind=1, min_covers=3, checks=CK2,
           functions=(pre + 'read_unlock', pre + 'read_unlock_update_and_wakeup', 'urcu_common_wake_up_gp'),
           desc='%s: rcu_read_unlock for every reader word: -COUNT with phase kept; outermost: barrier before the store, store -> barrier -> futex test, wake-up iff futex == -1' % fl.lower()),
    ]
META = {
    'level': 'proof',
    'trusted_base': ['CBMC 6.11', 'sequential meaning / event kinds of the uatomic and cmm primitives (atomics_seq.h)', 'futex system-call stub'],
    'assumptions': ['the grace-period theorem over all schedules (composition of the per-function obligations) is not machine-checked', 'x86-TSO: only store->load pairs need a full barrier'],
}
