from engine.core import Ob

CK2 = ('--bounds-check', '--pointer-check', '--signed-overflow-check', '--div-by-zero-check')
R = 'C01/reader.c'
OBLIGATIONS = []
for fl in ('MEMB', 'MB', 'BP'):
    fut = () if fl == 'BP' else ('futex_async',)
    d = ('FLAVOR_' + fl, '_LGPL_SOURCE', 'ENV_MODE')
    pre = '_urcu_%s_' % fl.lower()
    OBLIGATIONS.append(Ob(
        name='C19.O1.%s.handler_contract' % fl.lower(), harness=R, entry='h_handler', defines=d, mode='dfcc', enforce_rec=('sig_handler',), replace=fut, unwind=24, object_bits=12,
        min_covers=2, checks=CK2, timeout=300, functions=(pre + 'read_lock', pre + 'read_unlock', 'urcu_common_wake_up_gp'),
        desc='%s: contract of a signal handler doing rcu_read_lock(); rcu_read_unlock(): reader word (nesting, phase) and rcu_read_ongoing() restored, gp.ctr well-formed - with further handlers (same contract, --enforce-contract-rec) and the updater (phase flip, futex armed) running before each of its shared accesses, i.e. nesting to any depth' % fl.lower()))
    for entry, what in (('h_lock_env', 'rcu_read_lock'), ('h_unlock_env', 'rcu_read_unlock')):
        OBLIGATIONS.append(Ob(
            name='C19.O1.%s.%s' % (fl.lower(), what), harness=R, entry=entry, defines=d, mode='legacy', replace=('sig_handler',) + fut, unwind=1,
            min_covers=2, checks=CK2, timeout=300, functions=(pre + 'read_lock', pre + 'read_unlock', 'urcu_common_wake_up_gp'),
            desc='%s: %s interrupted before every shared access (incl. between the plain read of the reader word and the store derived from it) by handlers satisfying the handler contract, while the updater flips the phase / arms the futex: the interrupted call keeps its postcondition (nesting +-1, phase kept / snapshot of gp.ctr)' % (fl.lower(), what)))
# bp: a handler that registers the thread inside urcu_bp_register (shared with C15.O5; bounded, reported apart)
from obligations import C15 as _c15
OBLIGATIONS += [o for o in _c15.OBLIGATIONS if o.name in ('C15.O5.bp_register_signal', 'C15.O5.bp_register_already', 'C15.O5.bp_register')]
# "the handler's critical section receives the full grace-period guarantee and the interrupted code's guarantee is not weakened": a
# handler nests on top of the interrupted section (nesting >= 2), so the updater's classification of reader words must be right for
# EVERY nesting count, and bp grace periods must run with signals blocked (shared with C01)
from obligations import C01 as _c01
OBLIGATIONS += [o for o in _c01.OBLIGATIONS if (o.name.startswith('C01.O1.') and o.name.endswith('.state')) or o.name in ('C01.O5.bp.sync_skeleton', 'C01.O4.memb.scan1', 'C01.O4.mb.scan1', 'C01.O4.bp.scan1')]
META = {
    'level': 'proof', 'bounded_apart': True,
    'trusted_base': ['CBMC 6.11 (dfcc, recursive contract enforcement, contract replacement)', 'sequential meaning of the primitives', 'futex system-call stub'],
    'assumptions': ['atomicity below one C-level access (aligned word moves on x86) is assumed', 'the handler\'s critical section gets the C01 guarantee (not re-proved here)',
                    'nesting depth stays below the documented limit (nest part of the reader word does not overflow into the phase bit)'],
}
