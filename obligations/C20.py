import os, re
from engine.core import Ob

H = 'C20/uatomic.c'
TYPES = ('u8', 'i8', 'u16', 'i16', 'u32', 'i32', 'u64', 'i64', 'ptr')
OBLIGATIONS = []
for t in TYPES:
    OBLIGATIONS.append(Ob(
        name='C20.O2.x86.%s' % t, harness=H, entry='h_' + t, mode='plain', rules=('x86asm',), unwind=1,
        desc='default x86 path (x86.h + generic.h, asm -> assumed instruction contracts): %s object, operand types int/uint/long/ulong/schar/ushort, all values: set/read/xchg/cmpxchg/add_return/sub_return/add/sub/inc/dec/and/or/load/store = C expression truncated to the width, return value with the type of the object, neighbours untouched' % t,
        min_props=10, min_covers=1, native=True, timeout=300, backend='cadical',
        functions=('__uatomic_cmpxchg', '__uatomic_exchange', '__uatomic_add_return', '__uatomic_and', '__uatomic_or', '__uatomic_add', '__uatomic_inc', '__uatomic_dec',
                   'uatomic_sub_return_mo', 'uatomic_sub_mo', 'uatomic_load_mo', 'uatomic_store_mo')))
    OBLIGATIONS.append(Ob(
        name='C20.O1.builtins.%s' % t, harness=H, entry='h_' + t, mode='plain', defines=('BUILTINS', 'CONFIG_RCU_USE_ATOMIC_BUILTINS'), unwind=1,
        desc='CONFIG_RCU_USE_ATOMIC_BUILTINS path (builtins-generic.h over CBMC models of __atomic_*): same specification, %s object' % t,
        min_props=10, min_covers=1, timeout=300, backend='cadical',
        checks=('--bounds-check', '--pointer-check', '--pointer-overflow-check', '--div-by-zero-check', '--pointer-primitive-check'),
        assumptions=('signed-overflow check off for the builtins configuration: CBMC models __atomic_add_fetch on signed objects with a plain signed +, which the hardware/GCC define as wrapping',),
        functions=('builtins-generic.h macros',)))


def static_lock_prefix(ctx):
    """every RMW asm statement of x86.h carries a lock prefix or is xchg; all have a memory clobber;
    byte-sized register operands use the q (byte-addressable register) constraint."""
    from engine import rewrites
    src = open(os.path.join(ctx.mirror if False else '/repo', 'include/urcu/uatomic/x86.h')).read() if False else open(os.path.join(os.environ.get('VERIF_REPO', '/repo'), 'include/urcu/uatomic/x86.h')).read()
    try:
        _, facts = rewrites.rewrite_x86_asm(src, 32)
    except ValueError as e:
        return None, 'cannot parse x86.h asm statements: %s' % e
    bad = []
    for f in facts:
        if not f['lock'] and f['mnemonic'] != 'xchg':
            bad.append('%s: read-modify-write instruction without lock prefix' % f['template'])
        if not f['memory_clobber']:
            bad.append('%s: no "memory" clobber' % f['template'])
        if f['width'] == 'b':
            for c in f['constraints']:
                if 'r' in c and 'q' not in c:
                    bad.append('%s: byte operand with constraint "%s" (needs a byte-addressable register, q)' % (f['template'], c))
        if not any('m' in c for c in f['constraints']):
            bad.append('%s: no memory operand' % f['template'])
    if bad:
        return False, '; '.join(bad)
    return True, '%d asm statements: all RMW carry lock (or are xchg), all clobber memory, byte operands use q' % len(facts)


OBLIGATIONS.append(Ob(name='C20.O4.lock_prefix', tier='S', static=static_lock_prefix,
                      desc='static fact: every RMW asm in uatomic/x86.h is lock-prefixed or xchg, has a "memory" clobber, byte operands use the q constraint',
                      functions=('uatomic/x86.h asm statements',)))



def static_rmw_constraints(ctx):
    """every asm statement of x86.h whose instruction READS its memory operand (all of them: and/or/add/inc/dec/xadd/cmpxchg/xchg)
    declares that operand read-write: '+m', or '=m' together with a matching 'm' input.  A write-only '=m' tells the compiler that
    the previous value is dead."""
    from engine import rewrites
    src = open(os.path.join(os.environ.get('VERIF_REPO', '/repo'), 'include/urcu/uatomic/x86.h')).read()
    try:
        _, facts = rewrites.rewrite_x86_asm(src, 32)
    except ValueError as e:
        return None, 'cannot parse x86.h asm statements: %s' % e
    bad = []
    for f in facts:
        cs = f['constraints']
        mem = [c for c in cs if 'm' in c]
        rw = any('+' in c for c in mem) or (any('=' in c for c in mem) and any(('=' not in c and '+' not in c) for c in mem))
        if not rw:
            bad.append(f['template'])
    if bad:
        return False, '%d read-modify-write asm statement(s) declare their memory operand write-only ("=m"), so the compiler may discard the value stored before: %s' % (len(bad), '; '.join(bad))
    return True, '%d asm statements: every read-modify-write memory operand is declared read-write' % len(facts)


def replay_constraints(ctx, ob, inputs):
    from engine import native as _n
    import subprocess
    wd = os.path.join(ctx.scratch, 'native_constraints'); os.makedirs(wd, exist_ok=True)
    exe = os.path.join(wd, 'prog')
    repo = os.environ.get('VERIF_REPO', '/repo')
    out_all = ''
    for opt in ('-O2', '-O1'):
        p = subprocess.run(['gcc', opt, '-w', '-I' + repo + '/include', os.path.join(os.path.dirname(os.path.dirname(os.path.abspath(__file__))), 'harness', 'C20', 'native_constraint.c'), '-o', exe], stdout=subprocess.PIPE, stderr=subprocess.STDOUT)
        if p.returncode != 0:
            return 'error', 'native build failed: ' + p.stdout.decode()[-1500:]
        r = subprocess.run([exe], stdout=subprocess.PIPE, stderr=subprocess.STDOUT, timeout=20)
        out_all += 'gcc %s: exit %d\n%s' % (opt, r.returncode, r.stdout.decode()[-1200:])
        if r.returncode != 0:
            return 'reproduced', out_all
    return 'not-reproduced', out_all


OBLIGATIONS.append(Ob(name='C20.O5.rmw_operand_constraints', tier='S', static=static_rmw_constraints, native_custom=replay_constraints,
                      desc='static fact: every x86 asm statement that reads and writes its memory operand declares it read-write ("+m"); a write-only "=m" lets the compiler drop the store that initialised the object (wrong results on objects whose address does not escape, at -O1 and above)',
                      functions=('uatomic/x86.h asm statements',)))

META = {
    'level': 'proof',
    'trusted_base': ['CBMC 6.11 incl. its models of the __atomic_*/__sync_* builtins', 'assumed x86 instruction contracts (verif/x86_insn.h) substituted for the 32 inline-asm statements by a must-fire rewrite',
                     'machine arithmetic as CBMC models it (two\'s complement, C integer conversions)'],
    'assumptions': ['atomicity of lock-prefixed instructions / xchg and their full-fence effect are hardware facts (only the presence of the prefix is checked, statically)',
                    'lost-update freedom under real concurrency is not decided'],
}
