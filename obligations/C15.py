from engine.core import Ob
from obligations import C01 as _c01

CK = ('--bounds-check', '--pointer-check', '--signed-overflow-check', '--div-by-zero-check')
CKL = ('--bounds-check', '--signed-overflow-check', '--div-by-zero-check')
OBLIGATIONS = []
for e, fn in (('h_add', 'cds_list_add'), ('h_del', 'cds_list_del'), ('h_move', 'cds_list_move'), ('h_splice', 'cds_list_splice'), ('h_empty', 'cds_list_empty')):
    OBLIGATIONS.append(Ob(name='C15.O1.' + fn, harness='C15/list.c', entry=e, unwind=1, native=True, cover=e in ('h_add', 'h_move', 'h_splice'), min_covers=2 if e in ('h_add', 'h_move', 'h_splice') else 0, checks=CK, functions=(fn,),
                          desc=fn + ': local contract on a symbolic neighbourhood (neighbours relinked, nothing else written; del needs no list head; splice keeps what the destination already held)'))
for fl in ('MEMB', 'MB', 'QSBR'):
    for e in ('h_register', 'h_unregister'):
        OBLIGATIONS.append(Ob(name='C15.O2.%s.%s' % (fl.lower(), e[2:]), harness='C15/reg.c', entry=e, defines=('FLAVOR_' + fl, '_LGPL_SOURCE'), unwind=5, native=True, min_covers=2, checks=CKL,
                              functions=('rcu_register_thread', 'rcu_unregister_thread'),
                              desc='%s %s: one insertion/removal of the own node inside one rcu_registry_lock critical section, from whichever list holds it; other readers untouched; qsbr: offline before the lock / online after it' % (fl.lower(), e[2:])))
for fl in ('MEMB', 'MB'):
    OBLIGATIONS.append(Ob(name='C15.O3.%s.register_during_gp' % fl.lower(), harness='C15/dynreg.c', entry='h_sync_dynreg', defines=('FLAVOR_' + fl, '_LGPL_SOURCE'), tier='B',
        bound='1 scanned reader with arbitrary reader words (quiescent from its 3rd observation), 1 thread registering at an arbitrary release of the registry lock inside the grace period, spin constant reduced to 2, loops unwound 6x',
        rules=('qs_attempts_small',), unwind=6, cbmc_flags=('--no-unwinding-assertions',), min_covers=2, checks=CKL, timeout=600, functions=('synchronize_rcu', 'wait_for_readers', 'cds_list_splice'),
        desc='%s: real synchronize_rcu + wait_for_readers with a thread registering while the registry lock is dropped inside the grace period: afterwards the registry holds the scanned reader and the new thread, each once' % fl.lower()))
BP = 'C15/bp.c'
AA = ('arena_alloc.0:17', 'arena_alloc.1:3', 'arena_alloc.2:2')
OBLIGATIONS += [
    Ob(name='C15.O4.bp_expand_arena', harness=BP, entry='h_expand', defines=('_LGPL_SOURCE',), unwind=2, min_covers=2, checks=CKL, timeout=600, functions=('expand_arena', 'chunk_allocation_size'),
       desc='bp arena: first chunk of INIT_READER_COUNT zeroed slots; growth = in-place mremap (never MAYMOVE) doubling the capacity with zeroed new slots, else a new chunk of twice the capacity appended; existing chunks and slots never move nor change'),
    Ob(name='C15.O4.bp_arena_alloc', harness=BP, entry='h_arena_alloc', defines=('_LGPL_SOURCE',), native=True, unwind=9, unwindset=AA, min_covers=4, checks=CKL, timeout=600, tier='B', bound='arena shape: one chunk of INIT_READER_COUNT (8) slots with arbitrary occupancy; all loops fully unwound (unwinding assertions on)', functions=('arena_alloc',),
       desc='bp arena_alloc for every occupancy of the first chunk: takes the first free slot without expanding and touches no other; a full arena expands exactly once; never returns an allocated slot'),
    Ob(name='C15.O5.bp_register', harness=BP, entry='h_register_unregister', defines=('_LGPL_SOURCE',), native=True, unwind=6, unwindset=AA, min_covers=2, checks=CKL, timeout=600, tier='B', bound='arena empty (first registration) resp. one chunk; all loops fully unwound (unwinding assertions on)',
       functions=('urcu_bp_register', 'add_thread', 'urcu_bp_unregister', 'remove_thread', 'cleanup_thread', 'find_chunk'),
       desc='bp automatic registration (first use of an empty arena, before or after the library constructor): all signals blocked before the TLS re-check; slot allocation + list insertion under rcu_registry_lock with signals blocked; mask and lock restored on both paths; already registered (by a handler) => no-op; thread exit releases the slot for reuse'),
    Ob(name='C15.O5.bp_register_already', harness=BP, entry='h_register_already', defines=('_LGPL_SOURCE',), native=True, unwind=6, unwindset=AA, min_covers=1, checks=CKL, timeout=600, tier='B', bound='arena empty (first registration) resp. one chunk; all loops fully unwound (unwinding assertions on)',
       functions=('urcu_bp_register',), desc='bp automatic registration when a signal handler registered the thread first: the re-check under blocked signals makes it a no-op (no second slot), mask restored'),
] + [
    Ob(name='C15.O4.bp_find_chunk.c%d%s' % (w, 'last' if l else 'first'), harness=BP, entry='h_find_chunk', defines=('_LGPL_SOURCE', 'FC_WHICH=%d' % w, 'FC_LAST=%d' % l), unwind=4, min_covers=1, checks=CKL, timeout=600, tier='B',
       bound='arena of two chunks (8 + 16 slots); first and last slot of the first chunk', functions=('find_chunk', 'remove_thread', 'cleanup_thread'),
       desc='bp find_chunk / remove_thread with two chunks: the chunk containing the slot is found (boundary slots; the address one past a chunk excluded); slot released and the usage count of exactly that chunk decremented')
    for w in (0,) for l in (0, 1)	# slots of the SECOND chunk are out of reach: find_chunk then compares pointers into different objects with < / >=, which CBMC's memory model leaves unspecified (a check there would be a coin toss, not a proof)
] + [
    Ob(name='C15.O5.bp_register_signal', harness=BP, entry='h_register_signal', defines=('_LGPL_SOURCE',), unwind=9, unwindset=AA, min_covers=1, checks=CKL, timeout=600, tier='B', bound='arena empty; one signal, delivered between entry and the moment SIG_BLOCK takes effect; handler = nested real urcu_bp_register',
       functions=('urcu_bp_register',), desc='bp automatic registration interrupted by a signal whose handler registers the thread (nested real call) just before signals get blocked: the re-check after blocking notices it - exactly one slot, one registry entry, mask and lock restored'),
]
OBLIGATIONS += [o for o in _c01.OBLIGATIONS if o.name.startswith('C01.O5.') or o.name.startswith('C01.O4.') or o.name.startswith('C01.O3.qsbr.')]
META = {
    'level': 'other',
    'explanation': 'Contracts decide: the list primitives are position-independent; explicit registration/unregistration (memb, mb, qsbr) is one list operation inside one registry-lock critical section, from whichever list currently holds the node, with the qsbr offline/online ordering; the bp arena never moves or loses a slot, reuses freed slots and doubles; bp registration runs with all signals blocked under the lock. Bounded: a thread registering while a grace period has dropped the lock is still registered afterwards (real synchronize_rcu + scan), plus the C01 scan / skeleton obligations. That each grace period waits for exactly the registered threads over all interleavings is not decided.',
    'trusted_base': ['CBMC 6.11', 'pthread/mmap stubs', 'sequential meaning of the primitives'],
    'assumptions': [],
}
