#!/bin/sh
# usage: mk_worktree.sh <dir>   - scratch git worktree of /repo incl. the generated build system, rebuilt there
set -e
d="$1"
git -C /repo worktree add -q --detach "$d" HEAD
rsync -a --exclude .git /repo/ "$d"/
cd "$d" && make clean >/dev/null 2>&1 && make -j16 >/dev/null 2>&1
echo "worktree ready: $d"
