#!/usr/bin/env python3
"""gen_status_table.py: rewrites the table of DESIGN.md 12.1 (between the STATUS_TABLE markers) from /verif/evidence/*.json"""
import json, os, re
V = os.path.dirname(os.path.dirname(os.path.abspath(__file__)))
rows = ['| id  | level | P obligations | CBMC properties discharged | B | static facts | functions under contract | solver s | quick wall |',
        '|-----|-------|---------------|----------------------------|---|--------------|--------------------------|----------|-----------|']
for i in range(1, 21):
    pid = 'C%02d' % i
    d = json.load(open(os.path.join(V, 'evidence', pid + '.json')))
    c = d['coverage']
    apart = ' (apart)' if d.get('level') == 'proof' and c.get('bounded') else ''
    rows.append('| %s | %s | %d | %d | %d%s | %d | %d | %.0f | %.0f s |' % (pid, d.get('level'), len(c.get('proved_obligations', [])), c.get('discharged', 0), len(c.get('bounded', [])), apart,
                len(c.get('static_facts', [])), len(c.get('functions_under_contract', [])), c.get('solver_seconds_total', 0), d.get('wall_s', 0)))
p = os.path.join(V, 'DESIGN.md')
s = open(p).read()
a, b = '<!-- STATUS_TABLE_BEGIN -->', '<!-- STATUS_TABLE_END -->'
i, j = s.index(a), s.index(b)
s = s[:i + len(a)] + '\n' + '\n'.join(rows) + '\n' + s[j:]
open(p, 'w').write(s)
print('\n'.join(rows))
