#!/bin/bash
# usage: confirm_seed.sh <PROP> [<name>]   (worktree /tmp/wt_<PROP>, demo /tmp/demo_<PROP>)
# Confirms a seeded change independently (suite passes, demo fails with / passes without), stores it under
# /verif/seeded/<name>/, runs the property's check against it on /repo and restores /repo.
P="$1"; NAME="${2:-$P}"; WT="${3:-/tmp/wt_$P}"; DEMO="${4:-/tmp/demo_$P}"
OUT=/verif/seeded/$NAME; mkdir -p $OUT
log() { echo "$@" | tee -a $OUT/confirm.log; }
: > $OUT/confirm.log
cd $WT || exit 2
git diff > $OUT/patch.diff
[ -s $OUT/patch.diff ] || { log "no patch in worktree"; exit 2; }
make -j16 >/dev/null 2>&1 || { log "patched tree does not build"; exit 2; }
make -k check > /tmp/seed_check_$P.log 2>&1
pass=$(grep -E "^# PASS:" /tmp/seed_check_$P.log | awk '{s+=$3} END{print s}')
fail=$(grep -E "^# (FAIL|ERROR|XPASS):" /tmp/seed_check_$P.log | awk '{s+=$3} END{print s}')
rm -f /tmp/seed_check_$P.log
log "suite with patch: PASS=$pass FAIL/ERROR=$fail"
timeout 180 bash $DEMO/run.sh $WT > /tmp/seed_demo_$P.log 2>&1; with=$?
log "demo with patch: exit $with"
git checkout -q -- . && make -j16 >/dev/null 2>&1   # NOT git stash: refs/stash is shared by all worktrees of /repo
timeout 180 bash $DEMO/run.sh $WT > /tmp/seed_demo2_$P.log 2>&1; without=$?
log "demo without patch: exit $without"
git apply $OUT/patch.diff && make -j16 >/dev/null 2>&1
rm -f /tmp/seed_demo_$P.log /tmp/seed_demo2_$P.log
cp -r $DEMO/demo* $DEMO/run.sh $DEMO/meta.json $OUT/ 2>/dev/null
ok=0
if [ "$fail" = "0" ] && [ "$with" != "0" ] && [ "$without" = "0" ]; then ok=1; fi
log "confirmed=$ok"
cd /verif
# the property's check runs against a scratch copy of /repo's include/ + src/ with the patch applied (VERIF_REPO), so that
# /repo itself is never modified and concurrent runs of other checks are not disturbed
SC=$(mktemp -d /var/tmp/urcu-seedconf-XXXXXX)
cp -r /repo/include /repo/src $SC/
if (cd $SC && patch -p1 -s -i $OUT/patch.diff); then
  VERIF_REPO=$SC ./check $P --no-evidence > $OUT/check_output.txt 2>&1; rc=$?
  log "check $P on seeded tree: exit $rc"
  grep -E "^(VIOLATION|UNDECIDED|KNOWN)" $OUT/check_output.txt | head -5 | tee -a $OUT/confirm.log
else
  log "patch does not apply to a copy of /repo"
fi
rm -rf $SC
