"""Native replay of a refuted scalar-input obligation: the same harness file is compiled with gcc against
the *unmodified* working tree of /repo (-DVERIF_NATIVE), inputs are taken from CBMC's trace."""
import os, subprocess
from engine.core import VERIF, REPO


def to_int(v):
    if 'binary' in v and v['binary'] and set(v['binary']) <= set('01'):
        return int(v['binary'], 2)
    d = v.get('data')
    try:
        return int(str(d).rstrip('ulUL'), 0)
    except Exception:
        return None


def replay(ctx, ob, inputs):
    wd = os.path.join(ctx.scratch, 'native_' + ob.name.replace('/', '_'))
    os.makedirs(wd, exist_ok=True)
    exe = os.path.join(wd, 'replay')
    # obligations that depend on must-fire rewrites (markers, dispatch macros) are replayed against the scratch mirror
    # (= working tree + those value-preserving rewrites); all others against /repo itself
    root = ctx.mirror if ob.rules else REPO
    inc = ['-include', 'verif_gen/markers.h'] if ob.rules else []
    hsrc = open(os.path.join(VERIF, 'harness', ob.harness)).read()
    extra = []
    if 'VERIF_ENTRY' not in hsrc:       # harness without a replay main of its own: generated one
        mainc = os.path.join(wd, 'native_main.c')
        open(mainc, 'w').write('#include <stdio.h>\nvoid %s(void);\nint main(void) { %s(); printf("REPLAY-PASS\\n"); return 0; }\n' % (ob.entry, ob.entry))
        extra = [mainc]
    cmd = ['gcc', '-O1', '-g', '-w', '-DVERIF_NATIVE', '-DVERIF_ENTRY=' + ob.entry] + ['-D' + d for d in ob.defines] + inc + \
          ['-I' + root + '/include', '-I' + root + '/src', '-I' + VERIF + '/include', '-I' + VERIF + '/spec', '-I' + VERIF + '/harness',
           os.path.join(VERIF, 'harness', ob.harness)] + extra + ['-o', exe, '-lpthread'] + list(ob.native_libs)
    p = subprocess.run(cmd, stdout=subprocess.PIPE, stderr=subprocess.STDOUT)
    if p.returncode != 0:
        return 'error', 'native build failed:\n' + p.stdout.decode()[-2000:]
    env = dict(os.environ)
    shown = {}
    for k, v in inputs.items():
        if not k.startswith('in_'):
            continue
        iv = to_int(v)
        if iv is None:
            continue
        env['VERIF_IN_' + k] = hex(iv)
        shown[k] = hex(iv)
    try:
        p = subprocess.run([exe], stdout=subprocess.PIPE, stderr=subprocess.STDOUT, env=env, timeout=20)
    except subprocess.TimeoutExpired:
        return 'reproduced', 'native run with inputs %r did not terminate within 20 s' % shown
    out = p.stdout.decode('utf-8', 'replace')
    if p.returncode == 1 and 'REPLAY-FAIL' in out:
        return 'reproduced', 'inputs %r\n%s' % (shown, out[-2000:])
    if p.returncode < 0:
        return 'reproduced', 'inputs %r: native run killed by signal %d\n%s' % (shown, -p.returncode, out[-2000:])
    if p.returncode == 0:
        return 'not-reproduced', 'inputs %r: native run passed\n%s' % (shown, out[-1000:])
    return 'inconclusive', 'inputs %r: exit %d\n%s' % (shown, p.returncode, out[-1000:])


def run_program(ctx, name, src, extra_sources=(), defines=(), timeout=30, args=()):
    """compile a fixed native reproducer against the real sources of the working tree and run it.
    verdict 'reproduced' when it fails (non-zero exit, signal or time-out)."""
    wd = os.path.join(ctx.scratch, 'native_' + name)
    os.makedirs(wd, exist_ok=True)
    exe = os.path.join(wd, 'prog')
    cmd = ['gcc', '-O1', '-g', '-w'] + ['-D' + d for d in defines] + ['-I' + REPO + '/include', '-I' + REPO + '/src',
           os.path.join(VERIF, 'harness', src)] + [os.path.join(REPO, 'src', f) for f in extra_sources] + ['-o', exe, '-lpthread']
    p = subprocess.run(cmd, stdout=subprocess.PIPE, stderr=subprocess.STDOUT)
    if p.returncode != 0:
        return 'error', 'native build failed:\n' + p.stdout.decode()[-2000:]
    try:
        p = subprocess.run([exe] + [str(a) for a in args], stdout=subprocess.PIPE, stderr=subprocess.STDOUT, timeout=timeout)
    except subprocess.TimeoutExpired:
        return 'reproduced', 'native program %s %s did not terminate within %d s' % (src, list(args), timeout)
    out = p.stdout.decode('utf-8', 'replace')
    if p.returncode == 0:
        return 'not-reproduced', out[-1500:]
    return 'reproduced', 'native program %s %s: exit %d%s\n%s' % (src, list(args), p.returncode, ' (killed by signal %d)' % -p.returncode if p.returncode < 0 else '', out[-1500:])
