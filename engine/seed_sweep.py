#!/usr/bin/env python3
"""seed_sweep.py [names...]: re-runs the property check against every stored seeded change (/verif/seeded/<name>/patch.diff)
on a SCRATCH COPY of /repo's include/ and src/ (never /repo itself), and prints one line per seed:
   <name> property=<id> exit=<rc> caught-by=<obligations> native=<verdicts>
Exit 1 if a seed is no longer caught.  Scratch copies are removed."""
import json, os, re, shutil, subprocess, sys, tempfile
V = os.path.dirname(os.path.dirname(os.path.abspath(__file__)))
REPO = os.environ.get('VERIF_REPO', '/repo')

def main():
    names = sys.argv[1:] or sorted(os.listdir(os.path.join(V, 'seeded')))
    missed = 0
    rows = []
    for n in names:
        d = os.path.join(V, 'seeded', n)
        pf = os.path.join(d, 'patch.diff')
        if not os.path.isfile(pf):
            continue
        try:
            prop = (json.load(open(os.path.join(d, 'meta.json'))).get('property') or n)[:3]
        except Exception:
            prop = n.split('-')[0]
        scratch = tempfile.mkdtemp(prefix='urcu-seed-%s-' % n, dir='/var/tmp')
        try:
            for sub in ('include', 'src'):
                shutil.copytree(os.path.join(REPO, sub), os.path.join(scratch, sub), symlinks=True,
                                ignore=shutil.ignore_patterns('*.o', '*.lo', '*.la', '.libs', '.deps', '*.a', '*.so*'))
            p = subprocess.run(['patch', '-p1', '-s', '-i', pf], cwd=scratch, stdout=subprocess.PIPE, stderr=subprocess.STDOUT)
            if p.returncode != 0:
                rows.append((n, prop, 'patch-failed', '', p.stdout.decode()[-200:].replace('\n', ' ')))
                missed += 1
                print('%-8s property=%s exit=%s caught-by=%s native=%s' % rows[-1], flush=True)
                continue
            env = dict(os.environ, VERIF_REPO=scratch)
            r = subprocess.run([os.path.join(V, 'check'), prop, '--no-evidence'], cwd=V, env=env, stdout=subprocess.PIPE, stderr=subprocess.STDOUT)
            out = r.stdout.decode('utf-8', 'replace')
            obs = re.findall(r'^VIOLATION property=\S+ replay=\S+ obligation=(\S+)( no-failing-input-found)?', out, re.M)
            caught = ','.join(o for o, _ in obs)
            nat = ','.join('replayed' if not nf else 'no-input' for _, nf in obs)
            rows.append((n, prop, r.returncode, caught, nat))
            if r.returncode != 1:
                missed += 1
        finally:
            shutil.rmtree(scratch, ignore_errors=True)
        print('%-8s property=%s exit=%s caught-by=%s native=%s' % rows[-1], flush=True)
    print('SWEEP seeds=%d missed=%d' % (len(rows), missed))
    return 1 if missed else 0

if __name__ == '__main__':
    sys.exit(main())
