#!/bin/bash
# usage: run_all.sh [quick|thorough] [--no-evidence] [ids...] - runs every property check in turn, one summary line each
T=${1:-quick}; shift
NE=""; if [ "$1" = "--no-evidence" ]; then NE="--no-evidence"; shift; fi
IDS=${@:-C01 C02 C03 C04 C05 C06 C07 C08 C09 C10 C11 C12 C13 C14 C15 C16 C17 C18 C19 C20}
cd /verif
for p in $IDS; do
  s=$(date +%s); out=$(./check $p --tier $T $NE 2>&1); rc=$?; e=$(date +%s)
  echo "$p rc=$rc $((e-s))s $(echo "$out" | grep '^SUMMARY' | cut -c1-160)"
  echo "$out" | grep -E '^(VIOLATION|UNDECIDED|KNOWN|ERROR|TIMEOUT|FAIL)' | cut -c1-250
done
