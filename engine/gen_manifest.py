#!/usr/bin/env python3
"""Regenerates /verif/MANIFEST.json from obligations/*.py (claimed) and engine/claims.py texts."""
import importlib, json, os, sys
sys.path.insert(0, os.path.dirname(os.path.dirname(os.path.abspath(__file__))))
from engine import claims
V = os.path.dirname(os.path.dirname(os.path.abspath(__file__)))
checks, na = [], []
ids = [json.loads(l)['id'] for l in open(os.path.join(V, 'properties.jsonl'))]
for pid in ids:
    c = claims.CLAIMS.get(pid)
    if c is None or c.get('not_applicable'):
        na.append({'property_id': pid, 'reason': (c or {}).get('not_applicable', 'no contract-based check built for this property')})
        continue
    checks.append({
        'property_id': pid,
        'quick_cmd': './check %s --tier quick' % pid,
        'thorough_cmd': './check %s --tier thorough' % pid,
        'evidence_file': '/verif/evidence/%s.json' % pid,
        'replay_cmd_template': './check %s --replay {path}' % pid,
        'engine': 'cbmc-contracts',
        'level_claimed': {'category': c['category'], 'text': c['text'], 'design_ref': c.get('design_ref', 'DESIGN.md section 6, ' + pid)},
        'level_note': c['note'],
        'technique': c.get('technique', 'contract-based deductive verification of the real C code with CBMC 6.11 (function/loop contracts, goto-instrument contract instrumentation)'),
    })
m = {
    'version': 1,
    'setup_cmd': 'python3 engine/selftest.py',
    'hooks': {'guard': 'URCU_VERIF', 'enable': 'none needed: no file of /repo mentions the guard; contracts live in /verif/spec and /verif/harness, loop-contract markers are inserted mechanically per run into a scratch mirror of the working tree (engine/rewrites.py, must-fire)',
              'baseline_off_cmd': 'cd /repo && make -k check', 'source_commits': [], 'add_only': True},
    'engines': [{'name': 'cbmc-contracts', 'path': '/verif/engine', 'serves_properties': [c['property_id'] for c in checks],
                 'kind_free_text': 'goto-cc -> goto-instrument (contracts) -> cbmc per obligation over harness TUs that #include the real sources; Python driver, evidence writer, native replay'}],
    'checks': checks,
    'not_applicable': na,
    'notes': 'Exit codes of every check: 0 all obligations discharged; 1 refuted obligation (VIOLATION line, replay file under /verif/replays); 2 undecided for infrastructure reasons (time-out, must-fire rewrite rule missed, harness no longer compiles, vacuity guard) - never a VIOLATION line. See DESIGN.md.',
}
json.dump(m, open(os.path.join(V, 'MANIFEST.json'), 'w'), indent=1)
print('claimed', [c['property_id'] for c in checks], 'n/a', len(na))
