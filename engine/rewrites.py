"""Must-fire, per-run rewrite rules applied to the scratch mirror of /repo (DESIGN.md 2.2/2.3).

Rule kinds
  loop   : insert `marker` between the header and the body of the n-th loop (keyword for/while/do or a
           loop macro name) of function `func` in `file`.  Adds no executable token (markers expand to
           loop-contract clauses or to nothing).
  regex  : value-preserving textual rewrite `pattern` -> `repl`, must match exactly `count` times.
  after  : insert `text` on a new line after the (single) line matching `pattern`.
Every rule must fire; otherwise the check exits 2 (infrastructure), never reports a violation.
"""
import os, re


def mask(src):
    """replace comments and string/char literals by blanks of equal length."""
    out = list(src)
    i, n = 0, len(src)
    while i < n:
        c = src[i]
        if src.startswith('/*', i):
            j = src.find('*/', i + 2)
            j = n if j < 0 else j + 2
            for k in range(i, j):
                if out[k] != '\n':
                    out[k] = ' '
            i = j
        elif src.startswith('//', i):
            j = src.find('\n', i)
            j = n if j < 0 else j
            for k in range(i, j):
                out[k] = ' '
            i = j
        elif c == '"' or c == "'":
            j = i + 1
            while j < n and src[j] != c:
                if src[j] == '\\':
                    j += 1
                j += 1
            for k in range(i + 1, min(j, n)):
                if out[k] != '\n':
                    out[k] = ' '
            i = j + 1
        else:
            i += 1
    return ''.join(out)


def match_paren(m, i, open_='(', close=')'):
    depth = 0
    n = len(m)
    while i < n:
        if m[i] == open_:
            depth += 1
        elif m[i] == close:
            depth -= 1
            if depth == 0:
                return i
        i += 1
    return -1


def find_function_body(m, func):
    """(start, end) offsets of the outermost braces of the definition of func in masked text m."""
    # neutralise the C++ linkage wrapper  #ifdef __cplusplus / extern "C" { / #endif ... #ifdef __cplusplus / } / #endif
    m = re.sub(r'extern\s+"[^"]*"\s*\{', lambda mo: ' ' * len(mo.group(0)), m)
    m = re.sub(r'(#ifdef __cplusplus\s*\n)\}', lambda mo: mo.group(1) + ' ', m)
    for mo in re.finditer(r'\b' + re.escape(func) + r'\s*\(', m):
        p = m.find('(', mo.start())
        q = match_paren(m, p)
        if q < 0:
            continue
        k = q + 1
        # allow attributes / contract macros between ')' and '{'
        while k < len(m) and m[k] in ' \t\n':
            k += 1
        while True:
            mm = re.match(r'(__attribute__\s*\(|__CPROVER_\w+\s*\(|URCU_VERIF_\w+\s*\()', m[k:])
            if not mm:
                break
            p2 = m.find('(', k)
            q2 = match_paren(m, p2)
            k = q2 + 1
            while k < len(m) and m[k] in ' \t\n':
                k += 1
        if k < len(m) and m[k] == '{':
            # make sure this is at file scope (depth 0)
            depth = m.count('{', 0, mo.start()) - m.count('}', 0, mo.start())
            if depth != 0:
                continue
            e = match_paren(m, k, '{', '}')
            if e > 0:
                return k, e
    return None


def apply_rule(mirror, rule):
    path = os.path.join(mirror, rule['file'])
    if not os.path.exists(path):
        return False, 'file %s missing' % rule['file']
    src = open(path).read()
    kind = rule['kind']
    if kind == 'regex':
        new, n = re.subn(rule['pattern'], rule['repl'], src, flags=re.M | (re.S if rule.get('dotall') else 0))
        want = rule.get('count', 1)
        if n != want:
            return False, 'pattern matched %d times, expected %d' % (n, want)
        open(path, 'w').write(new)
        return True, 'rewrote %d site(s)' % n
    if kind == 'after':
        ms = list(re.finditer(rule['pattern'], src, flags=re.M))
        if len(ms) != rule.get('count', 1):
            return False, 'anchor matched %d times, expected %d' % (len(ms), rule.get('count', 1))
        off = 0
        for mo in ms:
            e = src.find('\n', mo.end() + off)
            e = len(src) if e < 0 else e
            ins = '\n' + rule['text']
            src = src[:e] + ins + src[e:]
            off += len(ins)
        open(path, 'w').write(src)
        return True, 'inserted after %d anchor(s)' % len(ms)
    if kind == 'x86asm':
        try:
            new, facts = rewrite_x86_asm(src, rule['count'])
        except ValueError as e:
            return False, str(e)
        open(path, 'w').write('#include <verif/x86_insn.h>\t/* inserted by the x86asm rewrite: the rewritten header is self-contained */\n' + new)
        rule['facts'] = facts
        return True, '%d asm statements replaced by instruction contracts' % len(facts)
    if kind == 'loop':
        m = mask(src)
        fb = find_function_body(m, rule['func'])
        if not fb:
            return False, 'function %s not found in %s' % (rule['func'], rule['file'])
        s, e = fb
        kw = rule['keyword']
        occ = [mo for mo in re.finditer(r'\b' + re.escape(kw) + r'\b', m[s:e])]
        if kw == 'while':
            # skip the `while` that closes a do-loop:  "} while (...);"
            occ = [mo for mo in occ if not re.search(r'\}\s*$', m[s:s + mo.start()])]
        nth = rule.get('nth', 1)
        if 'count' in rule and len(occ) != rule['count']:
            return False, 'function %s has %d `%s` loops, expected %d' % (rule['func'], len(occ), kw, rule['count'])
        if len(occ) < nth:
            return False, 'function %s has only %d `%s` loops, wanted #%d' % (rule['func'], len(occ), kw, nth)
        pos = s + occ[nth - 1].end()
        if kw == 'do':
            # CBMC takes the contract of a do/while loop right after the `do` keyword (dfcc instrumentation only);
            # the invariant is evaluated at every entry of the body
            ins = ' ' + rule['marker'] + ' '
            src = src[:pos] + ins + src[pos:]
            open(path, 'w').write(src)
            return True, 'marker inserted after `do` #%d of %s' % (nth, rule['func'])
        else:
            p = m.find('(', pos)
            if p < 0 or m[pos:p].strip():
                return False, 'loop keyword not followed by ('
            q = match_paren(m, p)
        if q < 0:
            return False, 'unbalanced parentheses'
        ins = ' ' + rule['marker'] + ' '
        src = src[:q + 1] + ins + src[q + 1:]
        open(path, 'w').write(src)
        return True, 'marker inserted in %s loop #%d of %s' % (kw, nth, rule['func'])
    return False, 'unknown rule kind ' + kind


def split_operands(txt):
    """'"c"(expr), "c2" (expr2)' -> [(constraint, expr), ...] (balanced parentheses)."""
    ops, i, n = [], 0, len(txt)
    while i < n:
        m = re.compile(r'\s*,?\s*"([^"]*)"\s*\(').match(txt, i)
        if not m:
            if txt[i:].strip():
                raise ValueError('cannot parse operand list: ' + txt[i:])
            break
        p = m.end() - 1
        q = match_paren(txt, p)
        ops.append((m.group(1), txt[p + 1:q].strip()))
        i = q + 1
    return ops


X86_WIDTH = {'b': 'uint8_t', 'w': 'uint16_t', 'l': 'uint32_t', 'q': 'uint64_t'}
X86_KNOWN = {'cmpxchg': 3, 'xchg': 3, 'xadd': 2, 'and': 2, 'or': 2, 'add': 2, 'inc': 1, 'dec': 1}


def rewrite_x86_asm(src, want):
    """replace every `__asm__ __volatile__("insn" : outs : ins : "memory");` of uatomic/x86.h by a call of
    the instruction contract VERIF_X86_<mnemonic>(W, locked, operands in %0.. order [tied inputs last]).
    Returns (new_src, facts) or raises ValueError (unknown mnemonic / shape)."""
    out, pos, facts = [], 0, []
    for mo in re.finditer(r'__asm__\s+__volatile__\s*\(', src):
        p = mo.end() - 1
        q = match_paren(mask(src), p)
        body = src[p + 1:q]
        end = src.index(';', q) + 1
        parts = body.split(':')
        if len(parts) == 3:
            parts.append('')	# no clobber list: a fact for C20.O4 to judge, not a shape error
        if len(parts) != 4:
            raise ValueError('asm statement with %d sections' % len(parts))
        tmpl = ''.join(re.findall(r'"([^"]*)"', parts[0])).strip()
        m = re.match(r'^(lock;\s*)?([a-z]+?)([bwlq])\s+(.*)$', tmpl)
        if not m:
            raise ValueError('unknown asm template: ' + tmpl)
        lock, mnem, w, args = bool(m.group(1)), m.group(2), m.group(3), m.group(4)
        if mnem not in X86_KNOWN:
            raise ValueError('unknown mnemonic: ' + mnem)
        outs, ins = split_operands(parts[1]), split_operands(parts[2])
        clob = parts[3]
        ops = [e for (_, e) in outs] + [e for (c, e) in ins]
        if len(ops) != X86_KNOWN[mnem]:
            raise ValueError('%s with %d operands' % (mnem, len(ops)))
        facts.append({'template': tmpl, 'lock': lock, 'mnemonic': mnem, 'width': w, 'memory_clobber': '"memory"' in clob,
                      'constraints': [c for (c, _) in outs + ins]})
        out.append(src[pos:mo.start()])
        out.append('VERIF_X86_%s(%s, %d, %s);' % (mnem, X86_WIDTH[w], 1 if lock else 0, ', '.join('(' + o + ')' if not o.startswith('*') else o for o in ops)))
        pos = end
    out.append(src[pos:])
    if len(facts) != want:
        raise ValueError('found %d asm statements, expected %d' % (len(facts), want))
    return ''.join(out), facts


def L(id_, file, func, keyword, nth, name, count=None):
    r = {'id': id_, 'file': file, 'kind': 'loop', 'func': func, 'keyword': keyword, 'nth': nth,
         'marker': 'URCU_VERIF_LOOP(%s)' % name, 'markers': ('URCU_VERIF_LOOP_%s' % name,)}
    if count is not None:
        r['count'] = count
    return r


# group name -> list of rules.  A property's obligations name the groups their TU depends on.
RULES = {
 'bp_small': [
  {'id': 'bp_init_reader_count', 'file': 'src/urcu-bp.c', 'kind': 'regex', 'pattern': r'^#define INIT_READER_COUNT\s+8\s*$', 'repl': '#define INIT_READER_COUNT\t2', 'count': 1},
 ],
 'wq_fork': [
  L('wq_pause_loop', 'src/workqueue.c', 'urcu_workqueue_pause_worker', 'while', 1, 'wq_pause', count=1),
  L('wq_resume_loop', 'src/workqueue.c', 'urcu_workqueue_resume_worker', 'while', 1, 'wq_resume', count=1),
  # indirect calls of the worker -> dispatch macros (default definition: the call itself)
  {'id': 'wq_work_call', 'file': 'src/workqueue.c', 'kind': 'regex', 'pattern': r'^(\s*)uwp->func\(uwp\);\s*$', 'repl': r'\1URCU_VERIF_WORK(uwp);', 'count': 1,
   'default_defs': {'URCU_VERIF_WORK': '#define URCU_VERIF_WORK(w) (w)->func(w)'}},
  {'id': 'wq_cb_calls', 'file': 'src/workqueue.c', 'kind': 'regex', 'pattern': r'^(\s*)workqueue->(\w+_fct)\(workqueue, workqueue->priv\);\s*$', 'repl': r'\1URCU_VERIF_WQCB(\2, workqueue);', 'count': 7,
   'default_defs': {'URCU_VERIF_WQCB': '#define URCU_VERIF_WQCB(f, wq) (wq)->f((wq), (wq)->priv)'}},
 ],
 'callrcu': [
  # indirect callback invocation -> recorder (default definition: the call itself)
  {'id': 'helper_indirect_call', 'file': 'src/urcu-call-rcu-impl.h', 'kind': 'regex', 'pattern': r'^(\s*)rhp->func\(rhp\);\s*$', 'repl': r'\1URCU_VERIF_CB(rhp);', 'count': 1,
   'default_defs': {'URCU_VERIF_CB': '#define URCU_VERIF_CB(r) (r)->func(r)'}},
 ],
 'lfht_tags': [
  {'id': 'tag_overrides', 'file': 'src/rculfhash.c', 'kind': 'after', 'pattern': r'^\treturn clear_flag\(node\) == \(struct cds_lfht_node \*\) END_VALUE;\s*$',
   'text': '}\n#include <verif_flag_overrides.h>\nstatic inline void verif_tag_overrides_anchor(void) {', 'count': 1},
 ],
 'lfht_mut': [
  L('add_inner_loop', 'src/rculfhash.c', '_cds_lfht_add', 'for', 2, 'lfht_add', count=2),
  L('gc_inner_loop', 'src/rculfhash.c', '_cds_lfht_gc_bucket', 'for', 2, 'lfht_gc', count=2),
 ],
 'lfht_partition': [
  L('populate_partition_loop', 'src/rculfhash.c', 'init_table_populate_partition', 'for', 1, 'populate_partition', count=1),
  L('remove_partition_loop', 'src/rculfhash.c', 'remove_table_partition', 'for', 1, 'remove_partition', count=1),
 ],
 'lfht_api': [
  L('add_replace_loop', 'src/rculfhash.c', 'cds_lfht_add_replace', 'for', 1, 'lfht_add_replace', count=1),
 ],
 'lfht_destroy': [
  # plain read of a chain node's next word -> identity macro by default (adds no executable token), load hook in the harness
  {'id': 'delete_bucket_plain_load', 'file': 'src/rculfhash.c', 'kind': 'regex', 'pattern': r'^(\t\tnode = )clear_flag\(node\)->next;\s*$',
   'repl': r'\1URCU_VERIF_RD(clear_flag(node)->next);', 'count': 1, 'default_defs': {'URCU_VERIF_RD': '#define URCU_VERIF_RD(x) (x)'}},
  {'id': 'delete_bucket_plain_load2', 'file': 'src/rculfhash.c', 'kind': 'regex', 'pattern': r'^(\t\turcu_posix_assert\(is_bucket\()node->next(\)\);)\s*$',
   'repl': r'\1URCU_VERIF_RD(node->next)\2', 'count': 1},
  L('delete_bucket_walk', 'src/rculfhash.c', 'cds_lfht_delete_bucket', 'do', 1, 'lfht_delb_walk', count=1),
  L('delete_bucket_sanity', 'src/rculfhash.c', 'cds_lfht_delete_bucket', 'for', 1, 'lfht_delb_sanity', count=2),
  L('delete_bucket_free', 'src/rculfhash.c', 'cds_lfht_delete_bucket', 'for', 2, 'lfht_delb_free', count=2),
  L('is_empty_walk', 'src/rculfhash.c', 'cds_lfht_is_empty', 'do', 1, 'lfht_isempty', count=1),
  L('count_nodes_walk', 'src/rculfhash.c', 'cds_lfht_count_nodes', 'do', 1, 'lfht_count', count=1),
 ],
 'lfht_trav': [
  L('lookup_loop', 'src/rculfhash.c', 'cds_lfht_lookup', 'for', 1, 'lfht_lookup', count=1),
  L('next_dup_loop', 'src/rculfhash.c', 'cds_lfht_next_duplicate', 'for', 1, 'lfht_next_dup', count=1),
  L('next_loop', 'src/rculfhash.c', 'cds_lfht_next', 'for', 1, 'lfht_next', count=1),
 ],
 'qs_attempts_small': [
  {'id': 'rcu_qs_active_attempts', 'file': 'src/urcu.c', 'kind': 'regex', 'pattern': r'^#define RCU_QS_ACTIVE_ATTEMPTS 100\s*$',
   'repl': '#define RCU_QS_ACTIVE_ATTEMPTS 2', 'count': 1},
 ],
 'qs_attempts_small_bp': [
  {'id': 'rcu_qs_active_attempts_bp', 'file': 'src/urcu-bp.c', 'kind': 'regex', 'pattern': r'^#define RCU_QS_ACTIVE_ATTEMPTS 100\s*$',
   'repl': '#define RCU_QS_ACTIVE_ATTEMPTS 2', 'count': 1},
 ],
 'qs_attempts_small_qsbr': [
  {'id': 'rcu_qs_active_attempts_qsbr', 'file': 'src/urcu-qsbr.c', 'kind': 'regex', 'pattern': r'^#define RCU_QS_ACTIVE_ATTEMPTS 100\s*$',
   'repl': '#define RCU_QS_ACTIVE_ATTEMPTS 2', 'count': 1},
 ],
 # tuning constant only: number of spins before sleeping (bounded stand-in; the thorough tier keeps 1000)
 'wait_attempts_small': [
  {'id': 'urcu_wait_attempts', 'file': 'src/urcu-wait.h', 'kind': 'regex', 'pattern': r'^#define URCU_WAIT_ATTEMPTS 1000\s*$',
   'repl': '#define URCU_WAIT_ATTEMPTS 3', 'count': 1},
 ],
 'lfstack': [
  L('lfs_pop_loop', 'include/urcu/static/lfstack.h', '___cds_lfs_pop', 'for', 1, 'lfs_pop', count=1),
  L('lfs_push_loop', 'include/urcu/static/lfstack.h', '_cds_lfs_push', 'for', 1, 'lfs_push', count=1),
 ],
 'x86asm': [
  {'id': 'uatomic_x86_asm', 'file': 'include/urcu/uatomic/x86.h', 'kind': 'x86asm', 'count': 32},
 ],
 'lfht_resize': [
  L('init_table_loop', 'src/rculfhash.c', 'init_table', 'for', 1, 'init_table', count=1),
  L('fini_table_loop', 'src/rculfhash.c', 'fini_table', 'for', 1, 'fini_table', count=1),
 ],
 'defer': [
  # CBMC compares `p == (void *)(~(1 << 0))` in 32 bits; same value under GCC with the widening made explicit
  {'id': 'dq_fct_mark_width', 'file': 'src/urcu-defer-impl.h', 'kind': 'regex',
   'pattern': r'^#define DQ_FCT_MARK\s+\(\(void \*\)\(~DQ_FCT_BIT\)\)\s*$',
   'repl': '#define DQ_FCT_MARK\t\t((void *)(~(unsigned long)DQ_FCT_BIT))', 'count': 1},
  # indirect call of an arbitrary bit pattern -> recorder (default definition: the call itself)
  {'id': 'decode_call', 'file': 'src/urcu-defer-impl.h', 'kind': 'regex',
   'pattern': r'^(\s*)fct\(p\);\s*$', 'repl': r'\1URCU_VERIF_CALL(fct, p);', 'count': 1,
   'default_defs': {'URCU_VERIF_CALL': '#define URCU_VERIF_CALL(f, a) f(a)'}},
  L('decode_loop', 'src/urcu-defer-impl.h', 'rcu_defer_barrier_queue', 'for', 1, 'defer_decode', count=1),
 ],
}
