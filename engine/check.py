#!/usr/bin/env python3
"""./check <id> [--tier quick|thorough] [--only <substr>] [--replay <path>] [--keep] [-j N]"""
import argparse, importlib, json, os, re, sys, time
from concurrent.futures import ThreadPoolExecutor

sys.path.insert(0, os.path.dirname(os.path.dirname(os.path.abspath(__file__))))
from engine import core
from engine.core import VERIF, REPO

KNOWN = os.path.join(VERIF, 'known_findings.txt')


def load_known(prop):
    out = []
    if os.path.exists(KNOWN):
        for line in open(KNOWN):
            line = line.strip()
            if not line.startswith('finding:'):
                continue
            kv = dict(re.findall(r'(\w+)=("[^"]*"|\S+)', line))
            if kv.get('property') != prop:
                continue
            out.append({'obligation': kv.get('obligation', '').strip('"'), 'match': kv.get('match', '').strip('"'),
                        'text': line[len('finding:'):].strip()})
    return out


def scan_assumptions(files):
    """every __CPROVER_assume in the machinery must carry a /*A:<category>*/ tag on its line."""
    bad, tally = [], {}
    for f in files:
        try:
            lines = open(f).read().split('\n')
        except OSError:
            continue
        for i, l in enumerate(lines):
            if '__CPROVER_assume' in l and not l.strip().startswith(('//', '*', '/*')) and '#define VERIF_ASSUME' not in l:
                m = re.search(r'/\*A:([a-z-]+)', l)
                if not m:
                    bad.append('%s:%d' % (f, i + 1))
                else:
                    tally[m.group(1)] = tally.get(m.group(1), 0) + 1
            for m in re.finditer(r'VERIF_ASSUME_(\w+)\(', l):
                if '#define' in l:
                    continue
                tally[m.group(1).lower()] = tally.get(m.group(1).lower(), 0) + 1
    return bad, tally


def main():
    ap = argparse.ArgumentParser()
    ap.add_argument('prop')
    ap.add_argument('--tier', default=os.environ.get('VERIF_TIER', 'quick'))
    ap.add_argument('--only', default=None)
    ap.add_argument('--replay', default=None)
    ap.add_argument('--keep', action='store_true')
    ap.add_argument('-j', type=int, default=int(os.environ.get('VERIF_JOBS', '14')))
    ap.add_argument('--no-evidence', action='store_true')
    args = ap.parse_args()
    prop = args.prop
    tier = args.tier if args.tier in ('quick', 'thorough') else 'quick'
    try:
        seed = int(os.environ.get('VERIF_SEED', '0'))
    except ValueError:
        seed = 0
    t0 = time.time()
    mod = importlib.import_module('obligations.' + prop)
    META = mod.META
    ALL = list(mod.OBLIGATIONS) + (list(mod._shared()) if hasattr(mod, '_shared') else [])   # _shared(): late import (module cycles)
    obs = [o for o in ALL if tier in o.tiers]
    replay_file = None
    if args.replay:
        replay_file = json.load(open(args.replay))
        obs = [o for o in ALL if o.name == replay_file['obligation']]
        if not obs:
            print('replay: obligation %s no longer exists' % replay_file['obligation'])
            return 2
    if args.only:
        obs = [o for o in obs if args.only in o.name]
    if seed:
        import random
        random.Random(seed).shuffle(obs)
    # expensive first
    obs.sort(key=lambda o: -o.timeout)
    ctx = core.Ctx(prop, tier, seed, keep=args.keep)
    try:
        groups = set()
        for o in obs:
            groups.update(o.rules)
        ctx.build_mirror(groups)
        with ThreadPoolExecutor(max_workers=args.j) as ex:
            results = list(ex.map(lambda o: core.solve(ctx, o), obs))
    finally:
        if args.keep:
            print('scratch kept at', ctx.scratch)
        ctx.close()

    # ---- assumption scan -------------------------------------------------------------------
    files = set()
    for o in obs:
        if o.harness:
            files.add(os.path.join(VERIF, 'harness', o.harness))
    for d in ('include/verif', 'spec'):
        for root, _, fs in os.walk(os.path.join(VERIF, d)):
            for f in fs:
                files.add(os.path.join(root, f))
    bad_assumes, assume_tally = scan_assumptions(sorted(files))

    known = load_known(prop)
    violations, known_hits, infra = [], [], []
    os.makedirs(os.path.join(VERIF, 'replays', prop), exist_ok=True)
    for r in results:
        if r.status == 'fail':
            rp = os.path.join(VERIF, 'replays', prop, re.sub(r'[^A-Za-z0-9_.-]', '_', r.ob.name) + '.json')
            body = {'property': prop, 'obligation': r.ob.name, 'description': r.ob.desc, 'tier_kind': r.ob.tier,
                    'bound': r.ob.bound,
                    'failed_cbmc_properties': [{'property': a, 'description': b, 'location': c} for (a, b, c, _) in r.failed],
                    'inputs': r.trace_inputs, 'native_verdict': r.native_verdict, 'native_output': r.native_text,
                    'verifier_output': r.trace_text or r.detail, 'commands': r.cmds,
                    'how_to_replay': './check %s --replay %s' % (prop, rp)}
            json.dump(body, open(rp, 'w'), indent=1)
            descs = ' | '.join(b for (_, b, _, _) in r.failed)
            hit = None
            for k in known:
                if k['obligation'] != r.ob.name:
                    continue
                if k['match'] and not all(k['match'] in b for (_, b, _, _) in r.failed):
                    continue
                hit = k
                break
            if hit:
                known_hits.append((r, hit))
            else:
                found = r.native_verdict == 'reproduced'
                violations.append((r, rp, found))
        elif r.status in ('error', 'timeout'):
            infra.append(r)
    if bad_assumes:
        infra_msg = 'untagged __CPROVER_assume at ' + ', '.join(bad_assumes)
    else:
        infra_msg = ''

    # ---- report -----------------------------------------------------------------------------
    for r in sorted(results, key=lambda r: r.ob.name):
        extra = ''
        if r.ob.tier == 'B':
            extra = ' [bounded: %s]' % r.ob.bound
        if r.ob.tier == 'S':
            extra = ' [static fact]'
        print('%-8s %-44s props=%-5d covers=%d/%d solver=%.1fs wall=%.1fs%s %s' % (
            r.status.upper(), r.ob.name, r.props, r.covers_sat, r.covers_total, r.solver_s, r.wall_s, extra,
            ('- ' + r.detail.split('\n')[0][:200]) if r.status in ('error', 'timeout') else ''))
        if r.status == 'fail':
            for (a, b, c, _) in r.failed[:8]:
                print('         refuted: %s  [%s] at %s' % (b, a, c))
            if r.native_verdict:
                print('         native replay: %s' % r.native_verdict)
    for r in infra:
        if r.status == 'error':
            sys.stderr.write('--- %s: %s\n' % (r.ob.name, r.detail[:3000]))
    for (r, hit) in known_hits:
        print('KNOWN-FINDING: property=%s %s' % (prop, hit['text']))
    for (r, rp, found) in violations:
        print('VIOLATION property=%s replay=%s obligation=%s%s' % (prop, rp, r.ob.name, '' if found else ' no-failing-input-found'))

    # ---- evidence ---------------------------------------------------------------------------
    P = [r for r in results if r.ob.tier == 'P']
    B = [r for r in results if r.ob.tier == 'B']
    S = [r for r in results if r.ob.tier == 'S']
    # an obligation for which CBMC generated no assertion at all (bound proofs: an unwinding assertion exists only for a loop that
    # can reach the bound) counts as ONE obligation: "verification successful under the stated unwinding bound"
    n_obl = sum(max(r.props, 1) for r in P) + len(S)
    n_dis = sum((r.props - len(r.failed)) if r.props else (1 if r.status == 'pass' else 0) for r in P if r.status in ('pass', 'fail')) + sum(1 for r in S if r.status == 'pass')
    funcs = {}
    for r in results:
        for f in r.ob.functions:
            funcs.setdefault(f, []).append(r.ob.name)
    sample_cmd = ''
    for r in results:
        if r.cmds and r.status == 'pass':
            sample_cmd = ' && '.join(r.cmds[:3])
            break
    level = META.get('level', 'proof')
    if level == 'proof' and (B and not META.get('bounded_apart', False)):
        level = 'other'
    cov = {
        'obligations': n_obl, 'discharged': n_dis,
        'checker_cmd': sample_cmd or 'goto-cc --function <entry> …; goto-instrument [--dfcc <entry>] --enforce-contract/--replace-call-with-contract/--apply-loop-contracts; cbmc --no-standard-checks <checks> --unwinding-assertions --json-ui',
        'trusted_base': META.get('trusted_base', []),
        'explanation': META.get('explanation', ''),
        'proved_obligations': [{'name': r.ob.name, 'what': r.ob.desc, 'status': r.status, 'cbmc_properties': r.props,
                                'mode': r.ob.mode, 'enforced': list(r.ob.enforce), 'replaced_by_contract': list(r.ob.replace),
                                'loop_contracts': r.ob.loop_contracts, 'loop_contract_assertions_seen': r.loop_assertions,
                                'unwind': r.ob.unwind, 'backend': 'cbmc 6.11 built-in SAT (MiniSat2)' if r.ob.backend == 'minisat' else r.ob.backend,
                                'solver_s': round(r.solver_s, 2), 'wall_s': round(r.wall_s, 2),
                                'covers_satisfied': '%d/%d' % (r.covers_sat, r.covers_total)} for r in P],
        'bounded': [{'name': r.ob.name, 'what': r.ob.desc, 'bound': r.ob.bound, 'status': r.status, 'cbmc_properties': r.props,
                     'solver_s': round(r.solver_s, 2), 'note': 'bounded stand-in, not counted in obligations/discharged'} for r in B],
        'static_facts': [{'name': r.ob.name, 'what': r.ob.desc, 'status': r.status, 'detail': r.detail[:600]} for r in S],
        'functions_under_contract': [{'function': f, 'obligations': v} for f, v in sorted(funcs.items())],
        'rewrite_rules_fired': ['%s/%s: %s' % (g, i, m) for (g, i, ok, m) in ctx.rule_log if ok],
        'assume_sites_by_category': assume_tally,
        'solver_seconds_total': round(sum(r.solver_s for r in results), 2),
        'samples': [{'obligation': r.ob.name, 'what': r.ob.desc, 'harness': 'harness/' + r.ob.harness, 'entry': r.ob.entry,
                     'commands': r.cmds[:3]} for r in (P + B + S)[:4]],
        'infrastructure_problems': [{'name': r.ob.name, 'status': r.status, 'detail': r.detail[:500]} for r in infra],
        'known_findings_hit': [h['text'] for (_, h) in known_hits],
    }
    ev = {'property_id': prop, 'tier': tier, 'seed': seed, 'level': level, 'coverage': cov,
          'assumptions': META.get('assumptions', []) + sorted({a for r in results for a in r.ob.assumptions}),
          'wall_s': round(time.time() - t0, 2), 'violations': len(violations)}
    if not args.no_evidence and not args.only and not args.replay:
        os.makedirs(os.path.join(VERIF, 'evidence'), exist_ok=True)
        json.dump(ev, open(os.path.join(VERIF, 'evidence', prop + '.json'), 'w'), indent=1)
    print('SUMMARY property=%s tier=%s obligations(P)=%d discharged=%d bounded=%d static=%d violations=%d infra=%d wall=%.1fs' % (
        prop, tier, n_obl, n_dis, len(B), len(S), len(violations), len(infra) + (1 if infra_msg else 0), time.time() - t0))
    if violations:
        return 1
    if infra or infra_msg:
        if infra_msg:
            sys.stderr.write(infra_msg + '\n')
        print('UNDECIDED property=%s (infrastructure: %s)' % (prop, ', '.join(r.ob.name + ':' + r.status for r in infra) or infra_msg))
        return 2
    return 0


if __name__ == '__main__':
    sys.exit(main())
