#!/usr/bin/env python3
"""native_smoke.py [--all] [ids...]: builds the native replay of every obligation marked native=True (or, with --all,
of every obligation that has a harness) on the unchanged tree and runs it with all inputs 0 / 1; a replay path that does
not build, crashes or reports a failure on the unchanged tree is reported (it would make replays meaningless)."""
import importlib, os, re, sys
sys.path.insert(0, os.path.dirname(os.path.dirname(os.path.abspath(__file__))))
from engine import core, native

def main():
    args = [a for a in sys.argv[1:] if not a.startswith('--')]
    every = '--all' in sys.argv
    ids = args or ['C%02d' % i for i in range(1, 21)]
    bad = 0
    seen = set()
    for pid in ids:
        mod = importlib.import_module('obligations.' + pid)
        obs = [o for o in mod.OBLIGATIONS if o.harness and o.name not in seen and (every or o.native)]
        if not obs:
            continue
        ctx = core.Ctx(pid, 'quick', 0)
        try:
            groups = set()
            for o in obs:
                groups.update(o.rules)
            ctx.build_mirror(groups)
            for o in obs:
                seen.add(o.name)
                src = open(os.path.join(core.VERIF, 'harness', o.harness)).read()
                names = set(re.findall(r'VIN\([^,]+,\s*(\w+)\)', src))
                for val in (0, 1):
                    inputs = {n: {'data': str(val)} for n in names}
                    v, txt = native.replay(ctx, o, inputs)
                    ok = v == 'not-reproduced' or (v == 'inconclusive' and 'exit 3' in txt)
                    if not ok:
                        bad += 1
                        print('%-50s inputs=%d %-15s %s' % (o.name, val, v, txt.strip().split('\n')[-1][:160]))
                        break
                else:
                    print('%-50s ok' % o.name)
        finally:
            ctx.close()
    return 1 if bad else 0

if __name__ == '__main__':
    sys.exit(main())
