#!/usr/bin/env python3
"""setup_cmd: nothing is compiled ahead of time; verify the tool chain is present."""
import shutil, subprocess, sys
ok = True
for t in ('cbmc', 'goto-cc', 'goto-instrument', 'gcc'):
    if not shutil.which(t):
        print('missing tool', t); ok = False
if ok:
    print(subprocess.run(['cbmc', '--version'], stdout=subprocess.PIPE).stdout.decode().strip())
sys.exit(0 if ok else 1)
