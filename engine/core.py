#!/usr/bin/env python3
"""Contract-verification engine for /verif (see DESIGN.md sections 2, 4, 5, 8).

One *obligation* = one goto-cc / goto-instrument / cbmc pipeline over a harness TU that #includes the
real files of /repo's working tree (through a per-run mirror in a scratch directory to which the
must-fire rewrite rules of engine/rewrites.py have been applied), or one static fact computed by a
Python callable.  Exit codes of a check: 0 all discharged, 1 refuted obligation (VIOLATION line),
2 infrastructure problem (never a VIOLATION line).
"""
import json, os, re, shutil, subprocess, sys, tempfile, time, hashlib, resource
from concurrent.futures import ThreadPoolExecutor
from dataclasses import dataclass, field
from typing import Callable, Optional

VERIF = os.path.dirname(os.path.dirname(os.path.abspath(__file__)))
REPO = os.environ.get('VERIF_REPO', '/repo')

BASE_FLAGS = ["-D__atomic_always_lock_free(a,b)=1", "-D__destructor__=__unused__",
              "-D__constructor__=__unused__", "-DURCU_VERIF_CBMC=1"]

STD_CHECKS = ["--bounds-check", "--pointer-check", "--pointer-overflow-check", "--signed-overflow-check",
              "--div-by-zero-check", "--pointer-primitive-check"]


@dataclass
class Ob:
    name: str
    harness: str = ''                 # file under /verif/harness
    entry: str = ''                   # harness function (becomes the goto entry point)
    desc: str = ''
    tier: str = 'P'                   # P proved / B bounded / S static fact
    bound: str = ''                   # text of the bound for B
    mode: str = 'plain'               # plain | dfcc | legacy (goto-instrument without --dfcc)
    enforce: tuple = ()               # functions whose contract is enforced (dfcc only)
    enforce_rec: tuple = ()           # recursive functions: --enforce-contract-rec (dfcc)
    replace: tuple = ()               # callees replaced by their contract
    loop_contracts: bool = False
    defines: tuple = ()
    rules: tuple = ()                 # rewrite-rule groups (engine/rewrites.py) the TU depends on
    unwind: Optional[int] = None
    unwindset: tuple = ()
    pre_unwindset: tuple = ()         # goto-instrument --unwindset … before loop contracts (legacy mode)
    checks: tuple = tuple(STD_CHECKS) # cbmc check flags (on top of --no-standard-checks)
    cbmc_flags: tuple = ()
    gi_flags: tuple = ()
    cover: bool = True                # run the separate --cover cover pass
    min_props: int = 1
    min_covers: int = 0
    need_loop_assertions: int = 0     # minimal number of loop-contract assertions that must show up
    timeout: int = 300
    tiers: tuple = ('quick', 'thorough')
    functions: tuple = ()             # real functions of /repo whose text this obligation verifies
    must_fail: tuple = ()             # positive control: substrings of CBMC property names/descriptions that MUST be refuted (others must hold)
    static: Optional[Callable] = None # S tier: callable(ctx) -> (ok: bool|None, detail: str)
    native: bool = False              # harness compiles natively with -DVERIF_NATIVE for replay
    native_libs: tuple = ()
    native_custom: Optional[Callable] = None  # callable(ctx, ob, inputs) -> (verdict, text)
    drop_unused: bool = True
    object_bits: Optional[int] = None
    backend: str = 'minisat'          # minisat | cadical | kissat
    assumptions: tuple = ()
    include_src: bool = True
    small: bool = False               # on refutation re-solve with -DVERIF_SMALL for a small counterexample


@dataclass
class Result:
    ob: Ob
    status: str = 'error'             # pass | fail | error | timeout
    props: int = 0
    failed: list = field(default_factory=list)   # [(property, description, location)]
    covers_total: int = 0
    covers_sat: int = 0
    covers_failed: list = field(default_factory=list)
    loop_assertions: int = 0
    solver_s: float = 0.0
    wall_s: float = 0.0
    detail: str = ''
    cmds: list = field(default_factory=list)
    log: str = ''
    trace_inputs: dict = field(default_factory=dict)
    trace_text: str = ''
    native_verdict: str = ''
    native_text: str = ''


def _limit():
    try:
        resource.setrlimit(resource.RLIMIT_AS, (24 << 30, 24 << 30))
    except Exception:
        pass


def run(cmd, timeout, cwd=None, env=None):
    t0 = time.time()
    try:
        p = subprocess.run(cmd, stdout=subprocess.PIPE, stderr=subprocess.STDOUT, timeout=timeout, cwd=cwd,
                           preexec_fn=_limit, env=env)
        return p.returncode, p.stdout.decode('utf-8', 'replace'), time.time() - t0
    except subprocess.TimeoutExpired as e:
        out = (e.stdout or b'').decode('utf-8', 'replace')
        return -999, out, time.time() - t0


class Ctx:
    """Per-run context: scratch directory with the mirror of /repo and build outputs."""

    def __init__(self, prop, tier, seed, keep=False):
        self.prop, self.tier, self.seed, self.keep = prop, tier, seed, keep
        self.scratch = tempfile.mkdtemp(prefix='urcu-verif-%s-' % prop)
        self.mirror = os.path.join(self.scratch, 'mirror')
        self.rule_log = []
        self.rule_errors = []
        self.rule_errors_by_group = {}
        self.mirror_groups = set()

    def close(self):
        if not self.keep:
            shutil.rmtree(self.scratch, ignore_errors=True)

    # ---- mirror of the working tree -------------------------------------------------------
    def build_mirror(self, groups):
        from engine import rewrites
        os.makedirs(self.mirror, exist_ok=True)
        for sub, pats in (('include', ('.h',)), ('src', ('.c', '.h'))):
            for root, dirs, files in os.walk(os.path.join(REPO, sub)):
                if '.libs' in root or '.deps' in root:
                    continue
                rel = os.path.relpath(root, REPO)
                os.makedirs(os.path.join(self.mirror, rel), exist_ok=True)
                for f in files:
                    if f.endswith(pats):
                        shutil.copy2(os.path.join(root, f), os.path.join(self.mirror, rel, f))
        self.mirror_groups = set(groups)
        markers = set()
        for g in sorted(groups):
            for rule in rewrites.RULES.get(g, []):
                ok, msg = rewrites.apply_rule(self.mirror, rule)
                self.rule_log.append((g, rule['id'], ok, msg))
                if not ok:
                    self.rule_errors.append('%s/%s: %s' % (g, rule['id'], msg))
                    self.rule_errors_by_group.setdefault(g, []).append('%s/%s: %s' % (g, rule['id'], msg))
                for m in rule.get('markers', ()):
                    markers.add(m)
        # default (empty) definitions for every marker
        os.makedirs(os.path.join(self.mirror, 'include', 'verif_gen'), exist_ok=True)
        with open(os.path.join(self.mirror, 'include', 'verif_gen', 'markers.h'), 'w') as f:
            f.write('/* generated per run: empty defaults for the loop / hook markers */\n')
            f.write('#define URCU_VERIF_LOOP(n) URCU_VERIF_LOOP_##n\n')
            f.write('#define URCU_VERIF_HOOK(n) URCU_VERIF_HOOK_##n\n')
            for g in rewrites.RULES:
                for rule in rewrites.RULES[g]:
                    for m in rule.get('markers', ()):
                        f.write('#ifndef %s\n#define %s\n#endif\n' % (m, m))
                    for m, d in rule.get('default_defs', {}).items():
                        f.write('#ifndef %s\n%s\n#endif\n' % (m, d))

    def inc_flags(self):
        return ['-I' + os.path.join(self.mirror, 'include'), '-I' + os.path.join(self.mirror, 'src'),
                '-I' + os.path.join(VERIF, 'include'), '-I' + os.path.join(VERIF, 'spec'),
                '-I' + os.path.join(VERIF, 'harness')]


def parse_cbmc_json(out):
    """returns (status, props, failed list, errors, solver seconds)."""
    i = out.find('[')
    try:
        data = json.loads(out[i:])
    except Exception:
        # try to cut trailing garbage
        try:
            j = out.rfind(']')
            data = json.loads(out[i:j + 1])
        except Exception:
            return 'error', 0, [], ['unparseable cbmc output: ' + out[-2000:]], 0.0, None
    props, failed, errors, solver = 0, [], [], 0.0
    cstat = None
    goals = None
    for el in data:
        if not isinstance(el, dict):
            continue
        if el.get('messageType') == 'ERROR':
            errors.append(el.get('messageText', ''))
        mt = el.get('messageText', '')
        m = re.search(r'Runtime decision procedure: ([0-9.e+-]+)s', mt)
        if m:
            solver += float(m.group(1))
        if 'result' in el:
            for r in el['result']:
                props += 1
                if r.get('status') != 'SUCCESS':
                    loc = r.get('sourceLocation', {})
                    failed.append((r.get('property', ''), r.get('description', ''),
                                   '%s:%s %s' % (loc.get('file', '?'), loc.get('line', '?'), loc.get('function', '')),
                                   r.get('trace')))
        if 'goals' in el:
            goals = el['goals']
        if 'cProverStatus' in el:
            cstat = el['cProverStatus']
    if cstat == 'success':
        st = 'pass'
    elif cstat == 'failure':
        st = 'fail'
    else:
        st = 'error'
    return st, props, failed, errors, solver, goals


def extract_inputs(trace):
    """first assignment to every variable called in_* (harness inputs) in a JSON trace."""
    ins = {}
    for step in trace or []:
        if step.get('stepType') != 'assignment':
            continue
        lhs = step.get('lhs', '')
        if not re.match(r'^(in_|G_)\w+(\[\d+[lLuU]*\])?(\.\w+)*$', lhs):
            continue
        v = step.get('value', {})
        if 'binary' in v:
            ins[lhs] = {'binary': v['binary'], 'data': v.get('data')}
        elif 'data' in v:
            ins[lhs] = {'data': v.get('data')}
    return ins


def build(ctx, ob, res, tag, extra_defines):
    """goto-cc + goto-instrument; returns path of the goto binary to solve or None (res filled in)."""
    wd = os.path.join(ctx.scratch, re.sub(r'[^A-Za-z0-9_.-]', '_', ob.name), tag)
    os.makedirs(wd, exist_ok=True)
    src = os.path.join(VERIF, 'harness', ob.harness)
    a, b = os.path.join(wd, 'a.gb'), os.path.join(wd, 'b.gb')
    cc = ['goto-cc', '--function', ob.entry] + BASE_FLAGS + ['-D' + d for d in tuple(ob.defines) + tuple(extra_defines)] + ctx.inc_flags() + \
         ['-include', 'verif_gen/markers.h', src, '-o', a]
    rc, out, _ = run(cc, 300)
    res.cmds.append(' '.join(cc))
    res.log += out
    if rc != 0:
        res.status, res.detail = 'error', 'goto-cc failed (harness no longer compiles against the working tree):\n' + out[-3000:]
        return None
    cur = a
    # --- instrumentation -------------------------------------------------------------------
    if ob.mode == 'dfcc':
        gi = ['goto-instrument'] + list(ob.gi_flags) + ['--dfcc', ob.entry]
        for f in ob.enforce:
            gi += ['--enforce-contract', f]
        for f in ob.enforce_rec:
            gi += ['--enforce-contract-rec', f]
        for f in ob.replace:
            gi += ['--replace-call-with-contract', f]
        if ob.loop_contracts:
            gi += ['--apply-loop-contracts']
        gi += [cur, b]
        rc, out, _ = run(gi, 600)
        res.cmds.append(' '.join(gi)); res.log += out
        if rc != 0:
            res.status, res.detail = 'error', 'goto-instrument --dfcc failed:\n' + out[-3000:]
            return None
        cur = b
    elif ob.mode == 'plain' and ob.drop_unused:
        c = os.path.join(wd, 'a1.gb')
        gi = ['goto-instrument', '--drop-unused-functions', cur, c]
        rc, out, _ = run(gi, 300); res.cmds.append(' '.join(gi)); res.log += out
        if rc != 0:
            res.status, res.detail = 'error', 'goto-instrument --drop-unused-functions failed:\n' + out[-3000:]
            return None
        cur = c
    elif ob.mode == 'legacy':
        if ob.drop_unused:
            c = os.path.join(wd, 'a1.gb')
            gi = ['goto-instrument', '--drop-unused-functions', cur, c]
            rc, out, _ = run(gi, 300); res.cmds.append(' '.join(gi)); res.log += out
            if rc != 0:
                res.status, res.detail = 'error', 'goto-instrument --drop-unused-functions failed:\n' + out[-3000:]
                return None
            cur = c
        if ob.pre_unwindset:
            c = os.path.join(wd, 'a2.gb')
            gi = ['goto-instrument', '--unwindset', ','.join(ob.pre_unwindset), '--unwinding-assertions', cur, c]
            rc, out, _ = run(gi, 300); res.cmds.append(' '.join(gi)); res.log += out
            if rc != 0:
                res.status, res.detail = 'error', 'goto-instrument --unwindset failed:\n' + out[-3000:]
                return None
            cur = c
        gi = ['goto-instrument'] + list(ob.gi_flags)
        for f in ob.replace:
            gi += ['--replace-call-with-contract', f]
        for f in ob.enforce:
            gi += ['--enforce-contract', f]
        if ob.loop_contracts:
            gi += ['--apply-loop-contracts']
        gi += [cur, b]
        rc, out, _ = run(gi, 600); res.cmds.append(' '.join(gi)); res.log += out
        if rc != 0:
            res.status, res.detail = 'error', 'goto-instrument (contracts) failed:\n' + out[-3000:]
            return None
        cur = b
    return cur


def solve(ctx: Ctx, ob: Ob) -> Result:
    res = Result(ob)
    t0 = time.time()
    # a must-fire rule that did not fire makes exactly the obligations that depend on its group undecided (exit 2);
    # obligations that need no rewrite of that group still run (they are what still catches a change that restructures
    # the annotated code)
    mine = [e for g in ob.rules for e in ctx.rule_errors_by_group.get(g, [])]
    if mine:
        res.status, res.detail = 'error', 'must-fire rewrite rule(s) did not fire: ' + '; '.join(mine)
        return res
    if ob.static is not None:
        try:
            ok, detail = ob.static(ctx)
        except Exception as e:  # infrastructure
            ok, detail = None, 'static fact script crashed: %r' % (e,)
        res.props = 1
        res.detail = detail
        res.status = 'pass' if ok else ('error' if ok is None else 'fail')
        if ok is False:
            res.failed = [(ob.name, detail, 'static', None)]
            if ob.native_custom:
                try:
                    res.native_verdict, res.native_text = ob.native_custom(ctx, ob, {})
                except Exception as e:
                    res.native_verdict, res.native_text = 'error', repr(e)
        res.wall_s = time.time() - t0
        return res
    cur = build(ctx, ob, res, 'main', ())
    if cur is None:
        return res
    # --- solve -----------------------------------------------------------------------------
    base = ['cbmc', cur, '--no-standard-checks'] + list(ob.checks)
    if ob.unwind is not None:
        base += ['--unwind', str(ob.unwind)]
    if ob.unwindset:
        base += ['--unwindset', ','.join(ob.unwindset)]
    if ob.object_bits:
        base += ['--object-bits', str(ob.object_bits)]
    base += list(ob.cbmc_flags)
    if ob.backend == 'cadical':
        base += ['--sat-solver', 'cadical']
    main = base + ['--unwinding-assertions', '--json-ui', '--verbosity', '8']
    if '--no-unwinding-assertions' in ob.cbmc_flags:
        main = [x for x in main if x != '--unwinding-assertions']
    rc, out, wall = run(main, ob.timeout)
    res.cmds.append(' '.join(main))
    if rc == -999:
        # one retry with the other SAT back end (a time-out on a loaded machine, or an unlucky search, is not a verdict)
        alt = [x for x in main if x not in ('--sat-solver', 'cadical')]
        if ob.backend != 'cadical':
            alt = alt + ['--sat-solver', 'cadical']
        rc, out, wall = run(alt, ob.timeout)
        res.cmds.append(' '.join(alt))
        res.detail = 'first run timed out after %ds, retried with the other SAT back end' % ob.timeout
    if rc == -999:
        res.status, res.detail = 'timeout', 'cbmc exceeded %ds twice (both SAT back ends)' % ob.timeout
        res.wall_s = time.time() - t0
        return res
    st, props, failed, errors, solver, _ = parse_cbmc_json(out)
    if ob.must_fail and st in ('pass', 'fail'):
        hit = {m: any(m in a or m in b for (a, b, c, _) in failed) for m in ob.must_fail}
        rest = [f for f in failed if not any(m in f[0] or m in f[1] for m in ob.must_fail)]
        if not all(hit.values()):
            res.props, res.solver_s = props, solver
            res.status, res.detail = 'error', 'vacuity guard: positive control did not fire - expected a refutation of: ' + ', '.join(m for m, v in hit.items() if not v)
            res.wall_s = time.time() - t0
            return res
        failed, st = rest, ('fail' if rest else 'pass')
    res.props, res.failed, res.solver_s = props, failed, solver
    res.log += out if st != 'pass' else ''
    if st == 'error' or errors and st != 'fail' and props == 0:
        res.status, res.detail = 'error', 'cbmc error: ' + ' | '.join(errors)[-3000:] + ('' if errors else out[-1500:])
        res.wall_s = time.time() - t0
        return res
    res.status = st
    # loop-contract assertions present?
    if ob.need_loop_assertions:
        sp = base + ['--show-properties', '--json-ui']
        rc2, out2, _ = run(sp, 300)
        n = len(re.findall(r'loop invariant|loop variant|decreases clause|invariant before entry|invariant is preserved|__init_invariant|tmp_cc\$\d+ < tmp_cc|loop_invariant_base|loop_invariant_step|loop_decreases', out2, re.I))
        res.loop_assertions = n
        if n < ob.need_loop_assertions and st == 'pass':
            res.status, res.detail = 'error', 'vacuity guard: only %d loop-contract assertions (need %d): loop contract silently dropped?' % (n, ob.need_loop_assertions)
    if st == 'pass' and props < ob.min_props:
        res.status, res.detail = 'error', 'vacuity guard: only %d CBMC properties, expected at least %d' % (props, ob.min_props)
    # cover pass
    if st == 'pass' and ob.cover and res.status == 'pass':
        cur_c = build(ctx, ob, res, 'cover', ('VERIF_COVER_PASS',))
        if cur_c is None:
            res.wall_s = time.time() - t0
            return res
        cv = [cur_c if x == cur else x for x in base] + ['--json-ui', '--verbosity', '8']
        cv = [x for x in cv if x not in ob.checks and x != '--no-unwinding-assertions'] + ['--no-unwinding-assertions']
        rc, out, _ = run(cv, ob.timeout)
        res.cmds.append(' '.join(cv))
        if rc == -999:
            res.status, res.detail = 'timeout', 'cover pass exceeded %ds' % ob.timeout
        else:
            _, _, failedc, errs, s2, _ = parse_cbmc_json(out)
            res.solver_s += s2
            allc = re.findall(r'"description": "(COVER [^"]*)"', out)
            # a cover witness is satisfied iff its negation-assertion FAILS; inlining may duplicate a
            # statement (one copy unreachable): satisfied when any copy is
            by = {d: False for d in allc}
            for (_, d, _, _) in failedc:
                if d.startswith('COVER '):
                    by[d] = True
            res.covers_total = len(by)
            res.covers_sat = sum(1 for v in by.values() if v)
            res.covers_failed = [d for d, v in by.items() if not v]
            if res.covers_failed:
                res.status, res.detail = 'error', 'vacuity guard: cover goal(s) not satisfiable: ' + '; '.join(res.covers_failed)
            elif res.covers_total < ob.min_covers:
                res.status, res.detail = 'error', 'vacuity guard: %d cover goals, expected at least %d' % (res.covers_total, ob.min_covers)
    # counterexample
    if st == 'fail':
        tr = base + ['--unwinding-assertions', '--trace', '--json-ui']
        if '--no-unwinding-assertions' in ob.cbmc_flags:
            tr = [x for x in tr if x != '--unwinding-assertions']
        rc, out, _ = run(tr, max(ob.timeout, 300))
        if rc != -999:
            _, _, failed2, _, _, _ = parse_cbmc_json(out)
            for f in failed2:
                if f[3]:
                    res.trace_inputs = extract_inputs(f[3])
                    break
        tt = [x for x in tr if x != '--json-ui'] + ['--compact-trace']
        rc, out, _ = run(tt, max(ob.timeout, 300))
        if rc != -999:
            k = out.find('** Results')
            res.trace_text = out[k:][-20000:] if k >= 0 else out[-20000:]
        res.failed = [(a_, b_, c_, None) for (a_, b_, c_, _) in res.failed]
        if ob.small:
            cur_s = build(ctx, ob, res, 'small', ('VERIF_SMALL',))
            if cur_s is not None:
                trs = [cur_s if x == cur else x for x in tr]
                rc, out, _ = run(trs, max(ob.timeout, 300))
                if rc != -999:
                    _, _, failed3, _, _, _ = parse_cbmc_json(out)
                    for f in failed3:
                        if f[3]:
                            res.trace_inputs = extract_inputs(f[3])
                            res.trace_text = 'small-scope re-solve (-DVERIF_SMALL) reproduced the refutation; inputs below are from it\n' + res.trace_text
                            break
        if ob.native or ob.native_custom:
            try:
                from engine import native
                if ob.native_custom:
                    res.native_verdict, res.native_text = ob.native_custom(ctx, ob, res.trace_inputs)
                else:
                    res.native_verdict, res.native_text = native.replay(ctx, ob, res.trace_inputs)
            except Exception as e:
                res.native_verdict, res.native_text = 'error', repr(e)
    res.wall_s = time.time() - t0
    return res
