"""Texts for MANIFEST.json, one entry per claimed property (others are listed as not_applicable)."""
NOT_BUILT = 'check not built yet in this session (see DESIGN.md section 9 for the build order)'
CLAIMS = {
 'C16': {
  'category': 'other',
  'text': 'Contracts on the real fork handlers. Proved (unbounded): urcu_workqueue_pause_worker / resume_worker with loop invariants for ANY number of polls (PAUSE set + sleeping worker woken, returns only after the worker itself announced PAUSED; resume clears exactly PAUSE and returns only after PAUSED was dropped), urcu_workqueue_create_worker in the child for every inherited flag combination (PAUSE and PAUSED cleared, one new worker created with signals blocked, queued work kept), and the hash-table handlers for 1..3 nested flavor registrations against those contracts (first call locks + pauses once, last call resumes / re-creates once and unlocks last). Bounded, reported apart: call_rcu_before_fork / after_fork_parent / after_fork_child over <= 2 helpers (mutex first and kept; every helper PAUSEd, woken and observed PAUSED; parent clears exactly PAUSE and waits; child: new default helper with its own thread, inherited helpers marked STOPPED and never waited for or joined, their callbacks moved exactly once, per-CPU table and thread pointer dropped, frees exactly once); pause branches of call_rcu_thread and workqueue_thread (unregistered before PAUSED, quiescent while parked, queued callbacks run exactly once after resume); bp before/after fork (gp + registry locks and full signal mask across fork, child prunes exactly the slots of vanished threads).',
  'note': 'Assumed: fork() semantics of the OS, pthread/poll/futex/sigmask/mmap stubs, sequential meaning of the primitives; helpers and workers are the environment acting inside poll(). Not decided: absence of hangs for every fork instant and helper schedule (schedule quantifier) - wait loops are shown to wait for flags the paired thread sets (partial correctness), not to terminate; more than 2 helpers.',
  'technique': 'contract-based deductive verification (CBMC loop contracts and ghost-state contracts on the real handlers); bounded harnesses with environment-in-poll for the list-walking handlers',
 },
 'C15': {
  'category': 'other',
  'text': 'Contracts on the real registration code, proved for all inputs: the cds_list primitives are position independent (add/del/move/splice relink exactly the neighbours; del needs no list head, so it removes the node from whichever list - registry, cur_snap_readers, qsreaders - currently holds it; splice keeps what the destination already held); rcu_register_thread / rcu_unregister_thread of memb, mb and qsbr are exactly one insertion / removal of the own node inside one rcu_registry_lock critical section, other readers untouched, qsbr goes offline before taking the lock and online after releasing it; bp expand_arena never moves or rewrites an existing chunk or slot (mremap never MAYMOVE; in-place doubling or a new chunk of twice the capacity, exactly the new byte range cleared). Bounded, reported apart: bp arena_alloc over every occupancy of an 8-slot chunk (first free slot reused, full => exactly one expansion, no allocated slot handed out), bp lazy registration / thread-exit unregistration (all signals blocked and registry lock held around slot allocation and list insertion, mask and lock restored, already-registered => no-op), and the real synchronize_rcu + wait_for_readers of memb/mb with a thread registering while the grace period has dropped the registry lock (afterwards the registry holds the scanned reader and the new one, each once).',
  'note': 'Assumed: sequential meaning of the primitives, pthread/mmap/mremap/sigmask stubs with ghost state (mmap returns fresh zeroed memory, mremap without MAYMOVE fails or grows in place; memset is logged and its byte range checked instead of performed). Not decided: that each grace period waits for exactly the registered threads over all interleavings of (un)registration with both scan phases (schedule quantifier) - only the per-function premises and one bounded registering-thread scenario are checked; arenas of more than two chunks.',
  'technique': 'contract-based deductive verification (CBMC contracts on symbolic list neighbourhoods, ghost lock/signal-mask state) of per-function premises; bounded harnesses for arena scans and registration during a grace period',
 },
 'C14': {
  'category': 'proof',
  'text': 'Monitor-invariant proof over the real start_poll/poll_state/worker-callback code of all four flavor TUs, for all 2^64 counter values incl. wrap-around and an arbitrary witness handle: poll_state returns true only after a callback queued at/after the handle\'s issue has completed, false only while a callback is pending, and once true stays true. Unbounded (loop-free, full-domain symbolic inputs).',
  'note': 'call_rcu is replaced by its assumed contract (= C03: runs once after a grace period following the call); pthread mutex stubs with ghost state; handles are polled within 2^62 grace periods of their issue; liveness is reduced to "a callback is pending", not proved to run.',
 },
 'C13': {
  'category': 'proof',
  'text': 'Contracts on the real _defer_rcu / rcu_defer_barrier_queue / barrier / (un)register code: encoder writes exactly the documented 1/2/3-slot form for all 2^192 (fct, p, last_fct) patterns and positions; decoder (loop contract + ghost entry table, unbounded entry count up to the ring size, any wrap position, termination variant) invokes exactly the queued (fct,p) pairs in order, each once; decode(encode(x)) = x; full queue flushes first; head snapshots precede synchronize_rcu and only entries below them run after it; unregister drains and re-establishes the precondition of register. One list-walking obligation (rcu_defer_barrier over 2 queues) is bounded and reported apart.',
  'note': 'Assumed: synchronize_rcu contract (C01), sequential meaning of uatomic/cmm primitives, pthread/futex stubs; scratch rewrites (DQ_FCT_MARK widening, fct(p)->recorder, loop marker) are must-fire and value-preserving. Not decided: reclaimer-thread scheduling, sleep/wake liveness.',
 },
 'C09': {
  'category': 'proof',
  'text': 'Modular chain of function and loop contracts on the real resize code: the stored target is a power of two in [1,max] for every request; on a quiescent table the do-while of _do_cds_lfht_resize exits after one pass for EVERY requested size (termination by a passing unwinding assertion under the grow/shrink contracts) with size == target; grow/shrink/init_table/fini_table compute exactly the documented sizes for all orders <= 63 (loop invariants + variants), allocate < populate < release-publish on grow, publish < GP < unlink < GP < free (each order once) on shrink, size always a power of two within [1,max]; stops under in_progress_destroy.',
  'note': 'Assumed: bsr-based fls (inline asm) instruction contract; sequential primitives; quiescent table (no concurrent re-targeting); leaves (alloc/populate/remove/free of bucket tables) are ghost-event contracts - their bodies belong to C05/C08; partition and work-queue threads not modelled.',
 },
 'C20': {
  'category': 'proof',
  'text': 'For every object type (u8..i64, pointer), six operand types and ALL operand/old values: set/read/load/store/xchg/cmpxchg/add_return/sub_return/add/sub/inc/dec/and/or of the real macro stack store and return the C expression wrapped to the width, with the sign of the object type, and leave the neighbouring bytes untouched - on the default x86 path (x86.h + generic.h with the 32 asm statements mechanically replaced by assumed instruction contracts) and on the CONFIG_RCU_USE_ATOMIC_BUILTINS path. Loop-free, full-domain symbolic inputs: complete. Static fact: every RMW asm is lock-prefixed or xchg with a memory clobber.',
  'note': 'Assumed: Intel instruction semantics of cmpxchg/xchg/xadd/and/or/add/inc/dec (verif/x86_insn.h), CBMC models of __atomic builtins. NOT decided: atomicity / lost-update freedom under concurrency and the full-fence effect of locked instructions (hardware).',
 },
 'C10': {
  'category': 'proof',
  'text': 'Sequential FIFO contracts of the real wfcqueue/wfqueue code on quiescent queues of unbounded symbolic length (pool layout + witness): enqueue appends, dequeue (all four variants) removes position 0 and never WOULDBLOCKs, first/next are the induction step of the for_each macros, splice = dest ++ src with the source left empty and reusable, empty() <=> n == 0; legacy cds_wfq incl. dummy recycling; event order of enqueue (SEQ_CST tail exchange before the release link store). Apart (bounded): dequeue/first/next with an enqueuer acting between any two of their shared accesses return the first element and lose, duplicate or reorder nothing.',
  'note': 'Assumed: sequential meaning of the primitives, canonical pool layout. Bounded part: 1 concurrent enqueue (2 atomic steps) and busy-wait loops unwound 3x. Not decided: full linearizability over all schedules, termination of blocking waits.',
 },
 'C11': {
  'category': 'proof',
  'text': 'Sequential LIFO contracts of the real wfstack / lfstack / rculfstack code on quiescent stacks of unbounded symbolic depth (push, pop, pop_all, first/next step, empty, LAST state, event order of wfstack push). Unbounded ENV proofs (loop contracts, arbitrary interference budget) for lfstack pop and push: exactly one successful CAS, pop returns the head it replaced and installs that node\'s successor (no-ABA rely stated), push links node.next to the head it replaced; retries only consume interference tokens (lock-freedom). Apart (bounded): wfstack pop under one concurrent pusher incl. the LAST state.',
  'note': 'Assumed: sequential meaning of primitives, pool layout, no-ABA rely provided by the documented synchronisation (mutex / single consumer / RCU + grace period, i.e. C01). END-sentinel pointer arithmetic checks of CBMC are off (idiom). Not decided: linearizability over all schedules.',
 },
 'C12': {
  'category': 'proof',
  'text': 'Contracts of the real rculfqueue code: enqueue on a quiescent queue of unbounded length; dequeue on every quiescent shape (footprint argument: the rest of the chain and the tail are unconstrained pointers): oldest real node, NULL iff none, dummy never returned, dummies retired only through queue_call_rcu (exactly once, with free_dummy_cb), never free()d on the dequeue path, fresh dummy appended before the last node leaves; destroy succeeds iff empty and frees exactly the dummy. Apart (bounded): dequeue racing with a concurrent enqueuer loses, duplicates and reorders nothing.',
  'note': 'Assumed: sequential primitives, CBMC malloc/free model. Bounded part: <= 2 real nodes, 1 concurrent enqueue, loops unwound 4x. Not decided: linearizability over all schedules; no-ABA through grace periods (C01).',
 },
 'C18': {
  'category': 'proof',
  'text': 'Proved for the six real RCU list/hlist update primitives on symbolic neighbourhoods: exactly one store to the reader-visible next field, through a primitive (release for publications), the new node fully linked before that store, a removed/replaced node\'s next left intact, sequential doubly-linked result. Apart (bounded): all five reader macros traverse lists of <= 3 entries while an updater runs up to two real primitives between any two reader loads: termination, only real entries, list order, none twice, entries present throughout exactly once, initialised contents.',
  'note': 'Assumed: sequential meaning of primitives; updater primitives atomic w.r.t. the reader (justified by the one-visible-store obligations). Not decided: freed-after-grace-period safety (C01); unbounded list length under concurrency.',
 },
 'C01': {
  'category': 'other',
  'text': 'Contracts on the real reader and updater code of all four flavors, proved for all inputs: reader-state classification = spec over all (word, gp.ctr) pairs with a single snapshot; rcu_read_lock/unlock (memb, mb, bp) and quiescent_state/offline/online (qsbr) word arithmetic (nesting +-1, phase kept, snapshot on outermost lock) and the fences x86-TSO formally needs around the reader-word store; protocol skeleton automaton of each synchronize_rcu (locks, mb_master, scan, exactly one phase toggle / counter increment, scan, splice, mb_master, unlock order, leader takes the waiters before examining readers and wakes them last, bp signal masking, qsbr offline/online of the caller). Bounded: the registry scan wait_for_readers under arbitrary reader words never retires a reader observed OLD. The step from these premises to the grace-period theorem is a pencil-and-paper argument.',
  'note': 'Assumed: sequential meaning/event kinds of the primitives, x86-TSO (only store->load pairs need a full barrier), pthread/futex stubs; scan bounded to <= 2 readers, <= 3 passes with the spin constant reduced by a scratch rewrite. Not decided: the grace-period guarantee over all interleavings.',
  'technique': 'contract-based deductive verification (CBMC function contracts, ghost event automata) of per-function premises; bounded scan harness',
 },
 'C02': {
  'category': 'other',
  'text': 'Liveness cannot be decided by contracts; decided instead, for all inputs, are the per-function obligations of the sleep/wake handshake: reader side (C01 obligations: store -> full barrier -> futex/waiting test, wake iff -1), updater side (bounded scan: sleeps only after arm -> mb_master -> full re-scan with a reader still OLD; futex reset), futex-wait loops (wait_gp of urcu.c and urcu-qsbr.c, urcu_adaptative_busy_wait) under an adversarial futex (spurious 0, EINTR, EAGAIN, ENOSYS, other errno) and an arbitrary waker: return only after the word changed, FUTEX_WAIT only on the sleep value right after loading it, unexpected errno fatal, lock dropped while sleeping; ENOSYS fallback never sleeps on the compat condition variable.',
  'note': 'Partial correctness only: termination under fair schedules is not decided. Busy-wait loops unwound (longer spins repeat the same states); spin constant reduced in the quick tier. Futex/poll/condvar behaviour as in the stubs.',
  'technique': 'contract-based deductive verification of the handshake obligations (CBMC, ENV-mode harnesses with adversarial futex stub)',
 },
 'C19': {
  'category': 'proof',
  'text': 'For memb, mb and bp: (A) the contract of a signal handler doing rcu_read_lock(); rcu_read_unlock() on the interrupted thread - nesting and, inside a critical section, the whole reader word restored, rcu_read_ongoing() unchanged - is proved with further handlers (same contract, --enforce-contract-rec: any nesting depth) and the updater (phase flips, futex armed) running before each of its shared accesses; (B) rcu_read_lock/rcu_read_unlock interrupted before every shared access - including between the plain read of the reader word and the store derived from it - by handlers satisfying that contract keep their postcondition for every reader word.',
  'note': 'Assumed: atomicity of single aligned word accesses (granularity = one C-level access), sequential meaning of the primitives, futex wrapper contract, nesting below the documented limit. Not covered here: handlers inside synchronize_rcu/call_rcu (they only touch the reader word and gp.futex; stated, not proved), bp registration under blocked signals (C15). The handler\'s own section gets the C01 guarantee only as far as C01 is decided.',
 },
 'C05': {
  'category': 'other',
  'text': 'Linearizability over all histories is not decidable by contracts. Proved instead on chains of unbounded length (loop contracts with variants, pool encoding): every write site of the table is an insert / unlink-of-REMOVED / flag-only mark / single-CAS replace of exactly the shape the lock-free list argument needs (also with a stale iterator), and lookup / next / next_duplicate / first return the first qualifying node under arbitrary REMOVED and BUCKET flags, skipping no live node - so a node that stays on its chain is found; grow publishes size after populate (release), shrink: publish, grace period, unlink, grace period, free.',
  'note': 'Assumed: sequential primitives, pool layout, tag-helper rewrite, bucket_at/fls contracts. The composition into linearizability and into "never missed while the table is resized concurrently" is the accepted pencil-and-paper argument.',
  'technique': 'contract-based deductive verification (CBMC loop/function contracts on the real rculfhash.c) of the per-write-site guarantee and traversal contracts',
 },
 'C06': {
  'category': 'proof',
  'text': 'On chains of unbounded length: add_unique returns the FIRST live duplicate of the equal-hash run and writes nothing, otherwise inserts at the head of that run (so a forward traversal never meets an older equal key behind a newer one); next_duplicate contract; replace commits with ONE compare-and-swap installing pointer-to-new | REMOVED | REMOVAL_OWNER over an un-REMOVED word with new.next already equal to the successor it takes over - also after a retry caused by a stale iterator; replace of a removed node and del of a removed node fail with -ENOENT without writing; cds_lfht_replace validates hash and key first.',
  'note': 'Assumed as for C05/C08. The last step from the per-write-site facts (flags only grow, OWNER set atomically with REMOVED by replace, del wins iff OWNER was clear) to "exactly one caller obtains the node" and to "no transient duplicate for concurrent traversals" is not machine-checked. Quick tier includes the 11-minute add_unique proof.',
 },
 'C07': {
  'category': 'proof',
  'text': 'On chains of unbounded length: del marks with one release-ordered or, gc_bucket performs exactly one unlink CAS (only of a node observed REMOVED, predecessor keeps its BUCKET bit), the exchange setting REMOVAL_OWNER returns ownership iff OWNER was clear, the pointer part of the victim is frozen and flags only grow, the victim is unreachable from its bucket before del/replace return; a second del/replace gets -ENOENT; shrink frees a bucket order only after its unlink and a later grace period, each order once; destroy/delete_bucket/is_empty succeed iff every node is a bucket and then free every order exactly once.',
  'note': 'Assumed as for C05/C08. Not decided: that no OTHER thread accesses the node after the grace period (needs C01 and the chain-only reachability rely).',
 },
 'C08': {
  'category': 'proof',
  'text': 'Sequential refinement obligations of the real rculfhash code for all hashes (all 2^64, colliding or not) on chains of unbounded length: bit reversal, tag helpers, count orders; bucket_at in bounds and injective for the order / chunk / mmap allocators incl. parameter normalisation; lookup / next / next_duplicate / first / count_nodes (ghost prefix count); add (after the whole equal-hash run), bucket add (before it), unique add; del + gc; replace; destroy iff empty; resize target/termination. Each contract is stated over the abstract chain view with an arbitrary witness position (frame included).',
  'note': 'Assumed: sequential primitives, pool layout and forall-elimination at access, tag rewrite, fls contract, allocation succeeds. Not under contract yet: cds_lfht_new/create_bucket shape, split-counter accounting, add_replace wrapper loop. The induction over operation sequences that turns the per-operation contracts into equality with a reference multimap is not re-run as one proof. add_unique (11 min) runs in the thorough tier only.',
 },
 'C03': {
  'category': 'other',
  'text': 'Per-function obligations of the real call_rcu code (memb TU): _call_rcu = one FIFO enqueue on the chosen helper with the enqueue -> barrier -> futex-test handshake (proved for all queue states 0..2); one helper iteration (bounded batch <= 3) = splice everything, one grace period, each spliced callback exactly once in FIFO order with its own rcu_head and only after a grace period that began after it was queued, never a callback enqueued during that grace period, next pointer read before a callback frees its node; _call_rcu_data_free hands leftovers to the default helper once, in order, behind its own callbacks, and a helper leaves the helper list only with an empty queue inside the critical section that moved them; NULL/default refused.',
  'note': 'Assumed: synchronize_rcu contract (C01), queue contracts (C10; the real wfcqueue code is included), futex/pthread stubs; the indirect call rhp->func(rhp) is rewritten (must-fire) to a checked direct call; free() logged. Bounded batches. Not decided: schedules, wake-up liveness, helper selection per CPU.',
  'technique': 'contract-based deductive verification (CBMC) of per-function obligations with ghost event logs; bounded batches',
 },
 'C04': {
  'category': 'other',
  'text': 'Per-function obligations of rcu_barrier: exactly one completion marker per listed helper, queued under call_rcu_mutex with its own rcu_head, none when called inside a read-side critical section; sleeps only after futex decrement -> barrier -> non-zero count and with the mutex released; _rcu_barrier_complete decrements once, wakes iff last and the waiter sleeps, frees the work item once and the completion by exactly the last reference put (all count/reference states); plus the C03 obligations it relies on (helpers run callbacks FIFO; a helper being freed stays listed while it has callbacks).',
  'note': 'List walks bounded to <= 2 helpers. Assumed: _call_rcu contract, futex/pthread stubs. Not decided: termination of the wait, schedules.',
  'technique': 'contract-based deductive verification (CBMC) of per-function obligations; bounded helper list',
 },
}
for i in range(1, 21):
    k = 'C%02d' % i
    CLAIMS.setdefault(k, {'not_applicable': NOT_BUILT})
