"""Texts for MANIFEST.json, one entry per claimed property (others are listed as not_applicable)."""
NOT_BUILT = 'check not built yet in this session (see DESIGN.md section 9 for the build order)'
CLAIMS = {
 'C14': {
  'category': 'proof',
  'text': 'Monitor-invariant proof over the real start_poll/poll_state/worker-callback code of all four flavor TUs, for all 2^64 counter values incl. wrap-around and an arbitrary witness handle: poll_state returns true only after a callback queued at/after the handle\'s issue has completed, false only while a callback is pending, and once true stays true. Unbounded (loop-free, full-domain symbolic inputs).',
  'note': 'call_rcu is replaced by its assumed contract (= C03: runs once after a grace period following the call); pthread mutex stubs with ghost state; handles are polled within 2^62 grace periods of their issue; liveness is reduced to "a callback is pending", not proved to run.',
 },
}
for i in range(1, 21):
    k = 'C%02d' % i
    CLAIMS.setdefault(k, {'not_applicable': NOT_BUILT})
