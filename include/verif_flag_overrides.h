/* inserted (must-fire rule lfht_tags) after the definition of is_end() in the scratch copy of rculfhash.c:
 * later uses of the tag helpers go through object-preserving pointer arithmetic instead of integer masks. */
#ifdef VERIF_LFHT_TAG_OVERRIDES
#define clear_flag(p)		VLF_clear_flag(p)
#define is_removed(p)		VLF_is_removed(p)
#define is_bucket(p)		VLF_is_bucket(p)
#define is_removal_owner(p)	VLF_is_removal_owner(p)
#define flag_bucket(p)		VLF_flag_bucket(p)
#define flag_removed(p)		VLF_flag_removed(p)
#define flag_removal_owner(p)	VLF_flag_removal_owner(p)
#define flag_removed_or_removal_owner(p) VLF_flag_removed_or_removal_owner(p)
#define is_end(p)		VLF_is_end(p)
#endif
