/* Contract stubs for the OS / libc interface (DESIGN.md 2.3): assumed behaviour, ghost state.
 * Include BEFORE the real source file.  Every stub is part of the trusted base. */
#ifndef VERIF_OS_STUBS_H
#define VERIF_OS_STUBS_H
#include <pthread.h>
#include <verif/verif.h>

/* ---- mutexes: ghost "held" flag kept in the first byte of the mutex object ------------------ */
#define OS_HELD(m)	(*(signed char *)(m))
static unsigned long G_os_lock_events;		/* number of lock/unlock calls so far */
static unsigned long G_os_locks_held;		/* number of mutexes currently held by this thread */

/* optional hooks: the harness may let the environment act while the lock is not held (rely/guarantee) */
#ifdef OS_LOCK_HOOKS
static void os_lock_hook(pthread_mutex_t *m);	/* called right after acquisition */
static void os_unlock_hook(pthread_mutex_t *m);	/* called right before release */
#else
#define os_lock_hook(m)		do { } while (0)
#define os_unlock_hook(m)	do { } while (0)
#endif

int pthread_mutex_lock(pthread_mutex_t *m)
{
	VERIF_ASSERT(OS_HELD(m) == 0, "pthread_mutex_lock: mutex not already held by this thread (self-deadlock)");
	OS_HELD(m) = 1;
	G_os_lock_events++;
	G_os_locks_held++;
	os_lock_hook(m);
	return 0;
}

int pthread_mutex_unlock(pthread_mutex_t *m)
{
	VERIF_ASSERT(OS_HELD(m) == 1, "pthread_mutex_unlock: mutex is held by this thread");
	os_unlock_hook(m);
	OS_HELD(m) = 0;
	G_os_lock_events++;
	G_os_locks_held--;
	return 0;
}
#endif
