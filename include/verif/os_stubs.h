/* Contract stubs for the OS / libc interface (DESIGN.md 2.3): assumed behaviour, ghost state.
 * Include BEFORE the real source file.  Every stub is part of the trusted base. */
#ifndef VERIF_OS_STUBS_H
#define VERIF_OS_STUBS_H
#include <pthread.h>
#include <verif/verif.h>

/* ---- mutexes: ghost "held" flag kept in the first byte of the mutex object ------------------ */
#define OS_HELD(m)	(*(signed char *)(m))
static unsigned long G_os_lock_events;		/* number of lock/unlock calls so far */
static unsigned long G_os_locks_held;		/* number of mutexes currently held by this thread */

/* optional hooks: the harness may let the environment act while the lock is not held (rely/guarantee) */
#ifdef OS_LOCK_HOOKS
static void os_lock_hook(pthread_mutex_t *m);	/* called right after acquisition */
static void os_unlock_hook(pthread_mutex_t *m);	/* called right before release */
#else
#define os_lock_hook(m)		do { } while (0)
#define os_unlock_hook(m)	do { } while (0)
#endif

int pthread_mutex_lock(pthread_mutex_t *m)
{
	VERIF_ASSERT(OS_HELD(m) == 0, "pthread_mutex_lock: mutex not already held by this thread (self-deadlock)");
	OS_HELD(m) = 1;
	G_os_lock_events++;
	G_os_locks_held++;
	os_lock_hook(m);
	return 0;
}

int pthread_mutex_unlock(pthread_mutex_t *m)
{
	VERIF_ASSERT(OS_HELD(m) == 1, "pthread_mutex_unlock: mutex is held by this thread");
	os_unlock_hook(m);
	OS_HELD(m) = 0;
	G_os_lock_events++;
	G_os_locks_held--;
	return 0;
}

/* ---- threads, signals, futex, poll: contract stubs with ghost counters ------------------------ */
#include <signal.h>
#include <errno.h>
#include <stdarg.h>
#include <sys/syscall.h>
#include <poll.h>
static unsigned long G_os_thread_created, G_os_thread_joined, G_os_sigmask_calls, G_os_sig_blocked;
static unsigned long G_os_futex_wake, G_os_futex_wait, G_os_poll_calls, G_os_membarrier;
static int G_os_futex_ret;		/* harness-chosen result of the next futex call: 0, or -1 with errno */
static int G_os_futex_errno;
#ifdef OS_FUTEX_HOOK
static void os_futex_hook(int *uaddr, int op, int val);
#else
#define os_futex_hook(u, o, v) ((void) 0)
#endif
/* order of a wake-up: every waiter of liburcu re-tests its futex word after FUTEX_WAIT returns and goes back to sleep while the
 * word still holds the sleep value (that is how spurious returns are absorbed).  A waker must therefore CHANGE the word first and
 * call FUTEX_WAKE second; the other order lets the woken waiter re-read the sleep value and sleep for ever (nobody wakes twice). */
#ifndef OS_FUTEX_SLEEP_VALUE
#define OS_FUTEX_SLEEP_VALUE (-1)
#endif
#ifdef OS_FUTEX_NO_ORDER_CHECK
#define os_futex_wake_check(u) ((void) 0)
#else
#define os_futex_wake_check(u) VERIF_ASSERT(*(volatile int *) (u) != OS_FUTEX_SLEEP_VALUE, "FUTEX_WAKE is issued only AFTER the futex word was changed away from the value the waiter sleeps on (store, then wake): a waiter woken first re-reads the sleep value and goes back to sleep for ever - lost wake-up")
#endif
#ifdef OS_JOIN_HOOK
static void os_join_hook(void);
#else
#define os_join_hook() ((void) 0)
#endif

#ifdef OS_CREATE_HOOK
static void os_create_hook(void *(*fn)(void *), void *arg);
#else
#define os_create_hook(fn, arg) ((void) 0)
#endif
#ifdef OS_CREATE_FAIL_HOOK
static int os_create_fail_hook(void);	/* non-zero: pthread_create fails with that error code, nothing is created */
#else
#define os_create_fail_hook() 0
#endif
static pthread_t G_os_self = (pthread_t) 77;
pthread_t pthread_self(void) { return G_os_self; }
int pthread_create(pthread_t *t, const pthread_attr_t *a, void *(*fn)(void *), void *arg)
{
	(void) a; (void) fn; (void) arg;
	{ int e = os_create_fail_hook(); if (e) return e; }
	os_create_hook(fn, arg);
	*t = (pthread_t) (++G_os_thread_created);
	return 0;
}
int pthread_join(pthread_t t, void **ret)
{
	(void) t;
	if (ret) *ret = 0;
	G_os_thread_joined++;
	os_join_hook();
	return 0;
}
#ifdef OS_SIGMASK_HOOK
static void os_sigmask_hook(int how, const sigset_t *set);
#else
#define os_sigmask_hook(h, s) ((void) 0)
#endif
int pthread_sigmask(int how, const sigset_t *set, sigset_t *old)
{
	G_os_sigmask_calls++;
	os_sigmask_hook(how, set);
	if (old) *(unsigned long *) old = G_os_sig_blocked;
	if (set) {
		if (how == SIG_BLOCK) G_os_sig_blocked |= *(const unsigned long *) set;
		else if (how == SIG_SETMASK) G_os_sig_blocked = *(const unsigned long *) set;
		else G_os_sig_blocked &= ~*(const unsigned long *) set;
	}
	return 0;
}
int sigfillset(sigset_t *s) { *(unsigned long *) s = ~0UL; return 0; }
int sigemptyset(sigset_t *s) { *(unsigned long *) s = 0; return 0; }
#ifdef OS_POLL_HOOK
static int os_poll_hook(void);
#else
#define os_poll_hook() 0
#endif
int poll(struct pollfd *f, nfds_t n, int t) { (void) f; (void) n; (void) t; G_os_poll_calls++; return os_poll_hook(); }
#ifdef OS_MEMBARRIER_HOOK
static long os_membarrier_hook(long nr, int cmd, int flags);
#endif
long syscall(long nr, ...)
{
	va_list ap;
	va_start(ap, nr);
	if (nr == SYS_futex) {
		int *uaddr = va_arg(ap, int *);
		int op = va_arg(ap, int);
		int val = va_arg(ap, int);
		va_end(ap);
		if (op == 1 /* FUTEX_WAKE */) { G_os_futex_wake++; os_futex_wake_check(uaddr); } else G_os_futex_wait++;
		os_futex_hook(uaddr, op, val);
		if (G_os_futex_ret < 0) errno = G_os_futex_errno;
		return G_os_futex_ret;
	}
#ifdef OS_MEMBARRIER_HOOK
	{
		int cmd = va_arg(ap, int);
		int fl = va_arg(ap, int);
		va_end(ap);
		G_os_membarrier++;
		return os_membarrier_hook(nr, cmd, fl);
	}
#else
	va_end(ap);
	G_os_membarrier++;
	return 0;
#endif
}

#ifdef OS_SYSCALL_MACRO
#include <unistd.h>
/* goto-instrument --apply-loop-contracts (legacy pipeline) loses the variadic arguments of syscall(): TUs whose only
 * system call is futex route it through a fixed-arity twin of the stub above */
static long verif_futex_call(int *uaddr, int op, int val)
{
	if (op == 1 /* FUTEX_WAKE */) { G_os_futex_wake++; os_futex_wake_check(uaddr); } else G_os_futex_wait++;
	os_futex_hook(uaddr, op, val);
	if (G_os_futex_ret < 0) errno = G_os_futex_errno;
	return G_os_futex_ret;
}
#define syscall(nr, uaddr, op, val, ...) verif_futex_call((int *) (uaddr), (op), (val))
#endif

/* ---- abort (urcu_die), condition variables ------------------------------------------------------- */
#include <stdlib.h>
static unsigned long G_os_die_expected;		/* harness: reaching urcu_die()/abort() is the specified outcome */
static unsigned long G_os_cond_waits, G_os_cond_broadcasts;
void abort(void)
{
	VERIF_ASSERT(G_os_die_expected, "abort()/urcu_die() reached although the situation is not a fatal one");
	__CPROVER_assume(0); /*A:os-contract*/
}
#ifdef OS_COND_HOOK
static void os_cond_wait_hook(void);
#else
#define os_cond_wait_hook() ((void) 0)
#endif
int pthread_cond_wait(pthread_cond_t *c, pthread_mutex_t *m)
{
	(void) c;
	VERIF_ASSERT(OS_HELD(m) == 1, "pthread_cond_wait: mutex held");
	G_os_cond_waits++;
	os_cond_wait_hook();
	return 0;
}
int pthread_cond_broadcast(pthread_cond_t *c) { (void) c; G_os_cond_broadcasts++; return 0; }
#ifdef VERIF_NATIVE
/* native link helper: the ENOSYS fallback of <urcu/futex.h> lives in liburcu-common; harnesses that do not include
 * src/compat_futex.c get inert weak definitions (never reached: the futex stub above does not return ENOSYS unless asked) */
#include <time.h>
__attribute__((weak)) int compat_futex_async(int32_t *uaddr, int op, int32_t val, const struct timespec *timeout, int32_t *uaddr2, int32_t val3)
{ (void) uaddr; (void) op; (void) val; (void) timeout; (void) uaddr2; (void) val3; return 0; }
__attribute__((weak)) int compat_futex_noasync(int32_t *uaddr, int op, int32_t val, const struct timespec *timeout, int32_t *uaddr2, int32_t val3)
{ (void) uaddr; (void) op; (void) val; (void) timeout; (void) uaddr2; (void) val3; return 0; }
#endif
#endif
