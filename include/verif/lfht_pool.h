/*
 * Pool encoding of one hash-table chain of unbounded length for src/rculfhash.c (DESIGN.md 3.3).
 *
 *   G_pool[0..G_n)  chain nodes in canonical layout: position k IS G_pool[k]; G_pool[0] is bucket 0.
 *   wf(k):  clear_flag(G_pool[k].next) == (k+1 < G_n ? &G_pool[k+1] : END)
 *           G_pool[k].reverse_hash <= G_pool[k+1].reverse_hash
 *           flags(G_pool[k].next) subset of {REMOVED, BUCKET, REMOVAL_OWNER}, OWNER implies REMOVED
 *   The invariant forall k. wf(k) is a PRECONDITION.  It is instantiated at the node being read by the load
 *   primitive (VERIF_LOAD_RESULT): the memory of never-written cells is unconstrained, the hook assumes wf(k) for
 *   the cell it reads and RETURNS THE CANONICAL POINTER EXPRESSION (a pointer loaded from unconstrained heap has
 *   an empty value set in CBMC).  Cells written by the function under proof are "dirty" and are not instantiated.
 *   Include after <verif/atomics_seq.h> hooks are declared but before the real source.
 */
#ifndef VERIF_LFHT_POOL_H
#define VERIF_LFHT_POOL_H
#include <stdlib.h>

struct cds_lfht_node;
extern struct cds_lfht_node *G_pool;
extern unsigned long G_n;
extern unsigned long *G_key;		/* ghost key of the node at position k (for the match callback) */
extern unsigned long G_dirty1, G_dirty2;/* positions written by the function under proof (no instantiation) */
extern unsigned long G_noflags;		/* 1: sequential state: no REMOVED / REMOVAL_OWNER flag on the chain */

#define LF_NODE_SZ		16UL	/* sizeof(struct cds_lfht_node): next + reverse_hash */
#define LF_IS_POOL(p)		(__CPROVER_same_object((p), G_pool))
#define LF_IDX(p)		(__CPROVER_POINTER_OFFSET(p) / LF_NODE_SZ)
#define LF_FLAGS(p)		(__CPROVER_POINTER_OFFSET(p) & 7UL)	/* tag bits of a (canonical) tagged pointer */
#define LF_AT(k)		((k) < G_n ? (struct cds_lfht_node *) &G_pool[k] : (struct cds_lfht_node *) 0)
#define LF_TAG(p, f)		((struct cds_lfht_node *) ((char *) (p) + (f)))
#ifdef LF_SMALL
#define LF_MAXN			6UL	/* bounded stand-in: chains of at most 6 nodes, loops unwound */
#else
#define LF_MAXN			(1UL << 20)
#endif

/* pointer-arithmetic forms of the nine tag helpers (integer-level equivalence: obligation C08.O1.tags) */
#define VLF_clear_flag(p)	((struct cds_lfht_node *) ((char *) (p) - (__CPROVER_POINTER_OFFSET(p) & 7UL)))
#define VLF_is_removed(p)	((int) (__CPROVER_POINTER_OFFSET(p) & 1UL))
#define VLF_is_bucket(p)	((int) (__CPROVER_POINTER_OFFSET(p) & 2UL))
#define VLF_is_removal_owner(p)	((int) (__CPROVER_POINTER_OFFSET(p) & 4UL))
#define VLF_flag(p, f)		((struct cds_lfht_node *) ((char *) (p) + ((~__CPROVER_POINTER_OFFSET(p)) & (f))))
#define VLF_flag_bucket(p)	VLF_flag((p), 2UL)
#define VLF_flag_removed(p)	VLF_flag((p), 1UL)
#define VLF_flag_removal_owner(p) VLF_flag((p), 4UL)
#define VLF_flag_removed_or_removal_owner(p) VLF_flag(VLF_flag((p), 1UL), 4UL)
#define VLF_is_end(p)		(VLF_clear_flag(p) == (struct cds_lfht_node *) 0)
#endif
