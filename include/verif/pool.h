/*
 * Unbounded singly linked chains without quantifiers (DESIGN.md 3.3).
 *
 * All nodes of a chain are the cells of ONE heap object `pool[0..n)` with symbolic n, the node at chain
 * position k is pool[k] (canonical layout; the verified functions use node pointers only through field
 * access, equality and tagging, so every reachable state is isomorphic to one in canonical layout).
 * Cells hold unconstrained (nondet) contents except at the finitely many positions INSTANTIATED by the
 * harness: the representation invariant  forall k. wf(k)  is a precondition, and assuming only some of its
 * instances UNDER-constrains the pre-state, i.e. the function is verified against a superset of the real
 * states - sound for universally quantified postconditions; a missing instance can only make a proof fail.
 * Instances are established by ASSIGNMENT (not assume) so that CBMC's value sets know the targets.
 * "forall w" in postconditions = one arbitrary witness index chosen before the call.
 */
#ifndef VERIF_POOL_H
#define VERIF_POOL_H
#include <stdlib.h>
#include <verif/verif.h>

#define POOL_MAXN (1UL << 20)

/* declare a pool of NODE_T cells named P with length variable P##_n */
#define POOL_DECL(P, NODE_T)	NODE_T *P; unsigned long P##_n
#define POOL_ALLOC(P, NODE_T)									\
	do {											\
		P##_n = nondet_ulong();								\
		VERIF_REQUIRE(P##_n <= POOL_MAXN);						\
		P = malloc((P##_n + 1) * sizeof(NODE_T));	/* +1: never a zero-size object */	\
		VERIF_REQUIRE(P != 0);								\
	} while (0)
#define IN_POOL(P, p)	(__CPROVER_same_object((p), P) && __CPROVER_POINTER_OFFSET(p) / sizeof(*P) < P##_n \
			 && __CPROVER_POINTER_OFFSET(p) % sizeof(*P) == 0)
#define POOL_IDX(P, p)	(__CPROVER_POINTER_OFFSET(p) / sizeof(*P))
#endif
