/* Part 1 of the shared rculfhash harness plumbing: hook declarations and primitive overrides.
 * Usage:  #include <verif/lfht_harness_pre.h>;  define the loop-contract macros;  #include "rculfhash.c";
 *         #include <verif/lfht_harness_post.h>. */
#ifndef VERIF_LFHT_HARNESS_PRE_H
#define VERIF_LFHT_HARNESS_PRE_H
#include <verif/verif.h>
#include <verif/os_stubs.h>
#include <verif/lfht_pre.h>
#include <urcu/rculfhash.h>
#include <stdio.h>
/* dbg_printf() expands to `if (0) printf(...)`: the dead variadic call crashes goto-instrument's dfcc inliner */
#define printf(...) (0)
struct cds_lfht_node *lf_load_next(struct cds_lfht_node **addr);
struct cds_lfht_node **lf_canon_addr(struct cds_lfht_node **addr);
#define LF_IS_NODEPTR(addr) __builtin_types_compatible_p(__typeof__(*(addr)), struct cds_lfht_node *)
#define VERIF_LOAD_RESULT(addr)										\
	(LF_IS_NODEPTR(addr) ? (__typeof__(*(addr))) (unsigned long) lf_load_next((struct cds_lfht_node **) (addr)) : *(addr))
/* sequential compare-and-swap on a quiescent structure: it cannot fail (asserted), so the retry branch folds away;
 * the write target is canonicalised (a store through a loop-havoc'd pointer would expand over every object) */
#define VERIF_CMPXCHG_OVERRIDE
unsigned long G_cas_count;
#ifdef LF_CAS_FAIL_ONCE
unsigned long G_cas_fail_budget, G_cas_failed;
#define LF_CAS_MAY_FAIL() (G_cas_fail_budget && nondet_bool() ? (G_cas_fail_budget--, G_cas_failed++, 1) : 0)
#else
#define LF_CAS_MAY_FAIL() 0
#endif
void lf_cas_event(void *addr, void *oldv, void *newv);
#include <verif/atomics_seq.h>
#define uatomic_cmpxchg_mo(addr, old, _new, mos, mof)							\
	__extension__ ({										\
		__typeof__(addr) _va = (addr);								\
		__typeof__(*_va) _vold = (__typeof__(*_va)) (old);					\
		__typeof__(*_va) _vnew = (__typeof__(*_va)) (_new);					\
		if (LF_IS_NODEPTR(_va)) {								\
			struct cds_lfht_node **_ca = lf_canon_addr((struct cds_lfht_node **) _va);	\
			struct cds_lfht_node *_cur = lf_load_next(_ca);					\
			if (LF_CAS_MAY_FAIL()) {							\
				/* transient interference: another thread changed the word and changed it back (e.g. inserted a node	\
				 * in front and removed it again) between the load and this compare-and-swap: it FAILS, memory is	\
				 * as before.  The caller must cope (retry / help), never assume the update happened. */		\
				_vold = (__typeof__(*_va)) ((unsigned long) _vold ^ 8UL);		\
			} else {									\
			VERIF_ASSERT(_cur == (struct cds_lfht_node *) (unsigned long) _vold, "SEQ: a compare-and-swap on a quiescent table finds the expected value (no retry)");	\
			__CPROVER_assume(_cur == (struct cds_lfht_node *) (unsigned long) _vold); /*A:harness-precondition*/	\
			lf_cas_event((void *) _ca, (void *) (unsigned long) _vold, (void *) (unsigned long) _vnew);		\
			*_ca = (struct cds_lfht_node *) (unsigned long) _vnew;				\
			}										\
		} else {										\
			if (*_va == _vold) *_va = _vnew; else _vold = *_va;				\
		}											\
		_vold;											\
	})
#include <verif/lfht_pool.h>
#define VERIF_LFHT_TAG_OVERRIDES

struct cds_lfht_node *G_pool; unsigned long G_n; unsigned long *G_key; unsigned long G_dirty1, G_dirty2, G_noflags;
unsigned char *G_fl;			/* flags of the node at position k (= tag bits of its next word) */
unsigned long G_s;			/* start position of the traversal */
unsigned long G_b;			/* chain position of the bucket node returned by bucket_at */
unsigned long G_w;			/* arbitrary witness position */
unsigned long G_w2;			/* second position for transitive-sortedness instances (e.g. the victim of a del) */
unsigned long G_R, G_K;			/* requested reverse hash / key */
struct cds_lfht_node *G_x;		/* the node being added / replaced in (not in the pool) */

/* one chain node may have been physically unlinked (garbage-collected) by the function under proof */
unsigned long G_unl;
unsigned long G_flags_except;	/* with G_noflags: the one position that may carry REMOVED / REMOVAL_OWNER */
#ifdef LF_WITH_UNLINK
#define LF_SUCC(k)	(((k) + 1 == G_unl) ? (k) + 2 : (k) + 1)
#else
#define LF_SUCC(k)	((k) + 1)
#endif
#define CUR(node)	((node) ? LF_IDX(node) : G_n)
#define CANON(node)	((node) == 0 || (LF_IS_POOL(node) && __CPROVER_POINTER_OFFSET(node) % LF_NODE_SZ == 0 && LF_IDX(node) < G_n))
#define CANONP(node)	((node) != 0 && LF_IS_POOL(node) && __CPROVER_POINTER_OFFSET(node) % LF_NODE_SZ == 0 && LF_IDX(node) < G_n)
#define LIVE(k)		(!(G_fl[k] & 3))
#define RES_POS(n)	((n) ? LF_IDX(n) : G_n)
#endif
