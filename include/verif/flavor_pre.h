/* Prelude of a flavor translation unit (urcu.c / urcu-qsbr.c / urcu-bp.c): same feature macros and
 * headers as the top of the real file, so that the include guards are set and the primitives can be
 * re-defined (atomics_seq.h) before the real text is included. */
#ifndef VERIF_FLAVOR_PRE_H
#define VERIF_FLAVOR_PRE_H
#define URCU_NO_COMPAT_IDENTIFIERS
#define _BSD_SOURCE
#ifndef _LGPL_SOURCE
#define _LGPL_SOURCE
#endif
#define _DEFAULT_SOURCE
#include <stdio.h>
#include <pthread.h>
#include <signal.h>
#include <stdlib.h>
#include <stdint.h>
#include <string.h>
#include <errno.h>
#include <stdbool.h>
#include <poll.h>
#include <urcu/config.h>
#include <urcu/compiler.h>
#include <urcu/arch.h>
#include <urcu/system.h>
#include <urcu/uatomic.h>
#endif
