/* Prelude of the rculfhash.c translation unit: same feature macros / headers as the real file so the
 * primitives can be re-defined before the real text is included. */
#ifndef VERIF_LFHT_PRE_H
#define VERIF_LFHT_PRE_H
#ifndef _LGPL_SOURCE
#define _LGPL_SOURCE
#endif
#define _GNU_SOURCE
#include <stdlib.h>
#include <errno.h>
#include <stdio.h>
#include <stdint.h>
#include <string.h>
#include <sched.h>
#include <unistd.h>
#include <stdlib.h>
#include <urcu/config.h>
#include <urcu/compiler.h>
#include <urcu/arch.h>
#include <urcu/system.h>
#include <urcu/uatomic.h>
#include <urcu/pointer.h>
#endif
