/*
 * ASSUMED instruction contracts (Intel SDM) for the inline-asm statements of include/urcu/uatomic/x86.h.
 * engine/rewrites.py (rule group 'x86asm', must-fire for all 32 statements, aborts on an unknown
 * mnemonic or operand shape) replaces each `__asm__ __volatile__("<insn>" : outs : ins : "memory");`
 * by VERIF_X86_<mnemonic>(W, locked, %0, %1[, %2]) with the operand expressions of the statement.
 * Atomicity and the fencing effect of the lock prefix are hardware facts and NOT modelled.
 */
#ifndef VERIF_X86_INSN_H
#define VERIF_X86_INSN_H
#include <stdint.h>
/* "lock; cmpxchgX %2, %1" : "+a"(acc), "+m"(mem) : "r"(src) */
#define VERIF_X86_cmpxchg(W, locked, acc, mem, src)				\
	do { W *_m = (W *) &(mem); W _s = (W) (src);				\
	     if (*_m == (W) (acc)) *_m = _s; else (acc) = *_m; } while (0)
/* "xchgX %0, %1" : "=r"(reg), "+m"(mem) : "0"(val)   (val is tied to %0) */
#define VERIF_X86_xchg(W, locked, reg, mem, val)				\
	do { W *_m = (W *) &(mem); W _t = *_m; *_m = (W) (val); (reg) = _t; } while (0)
/* "lock; xaddX %1, %0" : "+m"(mem), "+r"(reg) */
#define VERIF_X86_xadd(W, locked, mem, reg)					\
	do { W *_m = (W *) &(mem); W _t = *_m; *_m = (W) (_t + (W) (reg)); (reg) = _t; } while (0)
/* "lock; andX %1, %0" : "=m"(mem) : "ir"(src)  (likewise or, add) */
#define VERIF_X86_and(W, locked, mem, src) do { W *_m = (W *) &(mem); *_m = (W) (*_m & (W) (src)); } while (0)
#define VERIF_X86_or(W, locked, mem, src)  do { W *_m = (W *) &(mem); *_m = (W) (*_m | (W) (src)); } while (0)
#define VERIF_X86_add(W, locked, mem, src) do { W *_m = (W *) &(mem); *_m = (W) (*_m + (W) (src)); } while (0)
/* "lock; incX %0" : "=m"(mem) */
#define VERIF_X86_inc(W, locked, mem) do { W *_m = (W *) &(mem); *_m = (W) (*_m + 1); } while (0)
#define VERIF_X86_dec(W, locked, mem) do { W *_m = (W *) &(mem); *_m = (W) (*_m - 1); } while (0)
#endif
