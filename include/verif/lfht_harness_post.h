/* Part 2 of the shared rculfhash harness plumbing (after the real source): hook bodies, callbacks, set-up. */
#ifndef VERIF_LFHT_HARNESS_POST_H
#define VERIF_LFHT_HARNESS_POST_H
/* forall-elimination of wf(k) at the node whose next word is read */
struct cds_lfht_node *lf_load_next(struct cds_lfht_node **addr)
{
	if (LF_IS_POOL(addr) && __CPROVER_POINTER_OFFSET(addr) % LF_NODE_SZ == 0) {
		unsigned long k = LF_IDX(addr);
		if (k < G_n && k != G_dirty1 && k != G_dirty2) {
			__CPROVER_assume(*addr == LF_TAG(LF_AT(LF_SUCC(k)), G_fl[k])); /*A:precondition-instantiation*/
			__CPROVER_assume(G_fl[k] <= 7 && (!(G_fl[k] & 4) || (G_fl[k] & 1)) && (!G_noflags || k == G_flags_except || !(G_fl[k] & 5))); /*A:precondition-instantiation*/
			__CPROVER_assume(LF_SUCC(k) >= G_n || G_pool[k].reverse_hash <= G_pool[LF_SUCC(k)].reverse_hash); /*A:precondition-instantiation*/
			/* sortedness in transitive form, instance (k+1, witness) */
			__CPROVER_assume(k + 1 >= G_n || G_w <= k + 1 || G_w >= G_n || G_pool[k + 1].reverse_hash <= G_pool[G_w].reverse_hash); /*A:precondition-instantiation*/
#ifdef LF_PREFIX_COUNT
			__CPROVER_assume(G_cnt[k + 1] == G_cnt[k] + (LIVE(k) ? 1UL : 0UL) && G_cnt[k] <= k); /*A:precondition-instantiation*/
#endif
			__CPROVER_assume(LF_SUCC(k) >= G_n || G_w2 <= LF_SUCC(k) || G_w2 >= G_n || G_pool[LF_SUCC(k)].reverse_hash <= G_pool[G_w2].reverse_hash); /*A:precondition-instantiation*/
			VERIF_COVER(k > 3);
			return LF_TAG(LF_AT(LF_SUCC(k)), G_fl[k]);
		}
	}
	return *addr;
}
/* canonical form of the address of a next word that is about to be written */
struct cds_lfht_node **lf_canon_addr(struct cds_lfht_node **addr)
{
	if (LF_IS_POOL(addr)) {
		VERIF_ASSERT(__CPROVER_POINTER_OFFSET(addr) % LF_NODE_SZ == 0 && LF_IDX(addr) < G_n, "write footprint: a shared write targets the next word of a chain node");
		return &G_pool[LF_IDX(addr)].next;
	}
	VERIF_ASSERT(G_x != 0 && addr == &G_x->next, "write footprint: a shared write targets a chain node or the operation's own node");
	__CPROVER_assume(G_x != 0 && addr == &G_x->next); /*A:harness-precondition*/
	return &G_x->next;
}
static int h_match(struct cds_lfht_node *node, const void *key)
{
	VERIF_ASSERT(CANONP(node), "match callback only invoked on chain nodes");
	return G_key[LF_IDX(node)] == *(const unsigned long *) key;
}
static struct cds_lfht_node *h_bucket_at(struct cds_lfht *ht, unsigned long index)
{
	(void) ht; (void) index;
	return &G_pool[G_b];		/* contract of bucket_at (C08.O3): the bucket node of that index; its chain position is G_b */
}
static struct cds_lfht G_ht;
static void lf_mk(void)
{
	G_n = nondet_ulong(); VERIF_REQUIRE(G_n >= 1 && G_n <= LF_MAXN);
#ifdef LF_SMALL
	G_pool = malloc((LF_MAXN + 2) * sizeof(*G_pool)); G_key = malloc((LF_MAXN + 2) * sizeof(*G_key)); G_fl = malloc(LF_MAXN + 2);
#else
	G_pool = malloc((G_n + 1) * sizeof(*G_pool)); G_key = malloc((G_n + 1) * sizeof(*G_key)); G_fl = malloc(G_n + 1);
#endif
	VERIF_REQUIRE(G_pool && G_key && G_fl);
	G_dirty1 = G_dirty2 = ~0UL; G_noflags = 0; G_x = 0; G_cas_count = 0; G_unl = ~0UL; G_flags_except = ~0UL; G_w2 = ~0UL;
	G_s = nondet_ulong(); G_w = nondet_ulong(); G_b = 0;
	VERIF_REQUIRE(G_s <= G_n && G_w < G_n);
	G_ht.bucket_at = h_bucket_at;
}
#endif
