/* Common harness vocabulary (CBMC and native replay builds). */
#ifndef VERIF_VERIF_H
#define VERIF_VERIF_H
#include <stddef.h>
#include <stdint.h>

#ifdef VERIF_NATIVE
#include <stdio.h>
#include <stdlib.h>
#include <string.h>
static inline unsigned long verif_in(const char *name)
{
	char buf[128];
	const char *v;
	snprintf(buf, sizeof(buf), "VERIF_IN_%s", name);
	v = getenv(buf);
	if (!v) { fprintf(stderr, "REPLAY: missing input %s\n", name); exit(4); }
	return strtoul(v, NULL, 0);
}
#define VIN(type, name)		name = (type) verif_in(#name)
#define VERIF_ASSERT(c, msg)	do { if (!(c)) { printf("REPLAY-FAIL: %s\n", msg); exit(1); } } while (0)
#define VERIF_REQUIRE(c)	do { if (!(c)) { printf("REPLAY-SKIP: precondition %s does not hold for these inputs\n", #c); exit(3); } } while (0)
#define VERIF_COVER(c)		do { } while (0)
#define __CPROVER_assert(c, msg) VERIF_ASSERT(c, msg)
/* native replay: unconstrained ghost values become a recognisable poison pattern */
static inline unsigned long nondet_ulong(void) { return 0xdeadbeefcafe0001UL; }
static inline long nondet_long(void) { return (long) 0xdeadbeefcafe0001UL; }
static inline unsigned int nondet_uint(void) { return 0xdeadbeefU; }
static inline int nondet_int(void) { return (int) 0xdeadbeefU; }
static inline unsigned char nondet_uchar(void) { return 0xa5; }
static inline _Bool nondet_bool(void) { return 1; }
static inline void *nondet_ptr(void) { return (void *) 0xdeadbeefcafe0000UL; }
/* contract clauses are verifier-only text */
#define __CPROVER_requires(...)
#define __CPROVER_ensures(...)
#define __CPROVER_assigns(...)
#define __CPROVER_loop_invariant(...)
#define __CPROVER_decreases(...)
#else
unsigned long nondet_ulong(void);
long nondet_long(void);
unsigned int nondet_uint(void);
int nondet_int(void);
unsigned char nondet_uchar(void);
_Bool nondet_bool(void);
void *nondet_ptr(void);
#define VIN(type, name)		name = (type) nondet_ulong()
#ifdef VERIF_COVER_PASS
/* the cover pass decides reachability witnesses only: the postconditions were decided by the main pass of the same obligation
 * (assertions do not constrain paths in CBMC, so dropping them changes no witness; it keeps the incremental solver from
 * re-proving them after each satisfied witness) */
#define VERIF_ASSERT(c, msg)	((void) 0)
#else
#define VERIF_ASSERT(c, msg)	__CPROVER_assert(c, msg)
#endif
/* harness-level precondition on the symbolic inputs (part of the stated contract, not an added assumption) */
#define VERIF_REQUIRE(c)	__CPROVER_assume(c) /*A:harness-precondition*/
#ifdef VERIF_COVER_PASS
/* reachability/vacuity witness: in the cover pass this assertion MUST FAIL (works under every instrumentation mode) */
#define VERIF_COVER(c)		__CPROVER_assert(!(c), "COVER " #c)
#else
#define VERIF_COVER(c)		((void) 0)
#endif
#endif

#endif
