/*
 * SEQ / EVT interpretation of the shared-memory primitives (DESIGN.md 3.4).
 *
 * Include AFTER <urcu/uatomic.h>, <urcu/arch.h>, <urcu/system.h>, <urcu/compiler.h> and BEFORE the real
 * source text.  All inter-thread communication of liburcu bottoms out in the *_mo family and the cmm_*
 * barrier macros re-defined here; the function bodies using them are untouched.
 *
 * Every primitive evaluates its address argument exactly once, then
 *   VERIF_EVT(kind, addr, mo, val)   ghost event (EVT mode; default: nothing)
 *   VERIF_LOAD_HOOK(addr) / VERIF_STORE_HOOK(addr, val)   precondition instantiation / footprint hooks
 * and performs the plain sequential access.  The sequential meaning given here is an ASSUMED contract of
 * the primitives (trusted base); C20 verifies the primitives themselves and does not include this file.
 */
#ifndef VERIF_ATOMICS_SEQ_H
#define VERIF_ATOMICS_SEQ_H

enum verif_evt_kind { EV_LOAD = 1, EV_STORE, EV_XCHG, EV_CMPXCHG, EV_ADDRET, EV_ADD, EV_AND, EV_OR,
		      EV_MB, EV_RMB, EV_WMB, EV_BARRIER, EV_RELAX, EV_MB_MASTER, EV_MB_SLAVE };

#ifndef VERIF_EVT
#define VERIF_EVT(kind, addr, mo, val)	((void) 0)
#endif
#ifndef VERIF_LOAD_HOOK
#define VERIF_LOAD_HOOK(addr)		((void) 0)
#endif
#ifndef VERIF_STORE_HOOK
#define VERIF_STORE_HOOK(addr, val)	((void) 0)
#endif
/* ENV mode: an environment step (other threads, rely) may run before every primitive */
#ifndef VERIF_ENV
#define VERIF_ENV()			((void) 0)
#endif
/* called after every compare-and-swap with the observed value (ghost bookkeeping of retry variants) */
#ifndef VERIF_CAS_RESULT
#define VERIF_CAS_RESULT(addr, expected, observed)	((void) 0)
#endif
#ifndef VERIF_LOAD_RESULT
#define VERIF_LOAD_RESULT(addr)		(*(addr))
#endif

#undef uatomic_load_mo
#undef uatomic_store_mo
#undef uatomic_xchg_mo
#undef uatomic_cmpxchg_mo
#undef uatomic_add_return_mo
#undef uatomic_sub_return_mo
#undef uatomic_add_mo
#undef uatomic_sub_mo
#undef uatomic_inc_mo
#undef uatomic_dec_mo
#undef uatomic_and_mo
#undef uatomic_or_mo

#define uatomic_load_mo(addr, mo)						\
	__extension__ ({							\
		__typeof__(addr) _va = (addr);					\
		VERIF_ENV();							\
		VERIF_EVT(EV_LOAD, _va, mo, 0);					\
		VERIF_LOAD_HOOK(_va);						\
		(__typeof__(*_va)) VERIF_LOAD_RESULT(_va);			\
	})
#define uatomic_store_mo(addr, v, mo)						\
	__extension__ ({							\
		__typeof__(addr) _va = (addr);					\
		VERIF_ENV();							\
		__typeof__(*_va) _vv = (__typeof__(*_va)) (v);			\
		VERIF_EVT(EV_STORE, _va, mo, _vv);				\
		VERIF_STORE_HOOK(_va, _vv);					\
		*_va = _vv;							\
		(void) 0;							\
	})
#define uatomic_xchg_mo(addr, v, mo)						\
	__extension__ ({							\
		__typeof__(addr) _va = (addr);					\
		VERIF_ENV();							\
		__typeof__(*_va) _vv = (__typeof__(*_va)) (v);			\
		__typeof__(*_va) _vo;						\
		VERIF_EVT(EV_XCHG, _va, mo, _vv);				\
		VERIF_LOAD_HOOK(_va);						\
		_vo = (__typeof__(*_va)) VERIF_LOAD_RESULT(_va);		\
		VERIF_STORE_HOOK(_va, _vv);					\
		*_va = _vv;							\
		_vo;								\
	})
#ifndef VERIF_CMPXCHG_OVERRIDE
#define uatomic_cmpxchg_mo(addr, old, _new, mos, mof)				\
	__extension__ ({							\
		__typeof__(addr) _va = (addr);					\
		VERIF_ENV();							\
		__typeof__(*_va) _vold = (__typeof__(*_va)) (old);		\
		__typeof__(*_va) _vnew = (__typeof__(*_va)) (_new);		\
		__typeof__(*_va) _vo;						\
		VERIF_EVT(EV_CMPXCHG, _va, mos, _vnew);				\
		VERIF_LOAD_HOOK(_va);						\
		_vo = (__typeof__(*_va)) VERIF_LOAD_RESULT(_va);		\
		if (_vo == _vold) {						\
			VERIF_STORE_HOOK(_va, _vnew);				\
			*_va = _vnew;						\
		}								\
		VERIF_CAS_RESULT(_va, _vold, _vo);				\
		_vo;								\
	})
#endif
#define uatomic_add_return_mo(addr, v, mo)					\
	__extension__ ({							\
		__typeof__(addr) _va = (addr);					\
		VERIF_ENV();							\
		__typeof__(*_va) _vn;						\
		VERIF_EVT(EV_ADDRET, _va, mo, (v));				\
		VERIF_LOAD_HOOK(_va);						\
		_vn = (__typeof__(*_va)) ((unsigned long) VERIF_LOAD_RESULT(_va) + (unsigned long) (v));	\
		VERIF_STORE_HOOK(_va, _vn);					\
		*_va = _vn;							\
		_vn;								\
	})
#define uatomic_sub_return_mo(addr, v, mo)	uatomic_add_return_mo((addr), -(unsigned long) (v), mo)
#define uatomic_add_mo(addr, v, mo)						\
	__extension__ ({							\
		__typeof__(addr) _va = (addr);					\
		VERIF_ENV();							\
		__typeof__(*_va) _vn;						\
		VERIF_EVT(EV_ADD, _va, mo, (v));				\
		VERIF_LOAD_HOOK(_va);						\
		_vn = (__typeof__(*_va)) ((unsigned long) VERIF_LOAD_RESULT(_va) + (unsigned long) (v));	\
		VERIF_STORE_HOOK(_va, _vn);					\
		*_va = _vn;							\
		(void) 0;							\
	})
#define uatomic_sub_mo(addr, v, mo)	uatomic_add_mo((addr), -(unsigned long) (v), mo)
#define uatomic_inc_mo(addr, mo)	uatomic_add_mo((addr), 1, mo)
#define uatomic_dec_mo(addr, mo)	uatomic_add_mo((addr), -1UL, mo)
#define uatomic_and_mo(addr, v, mo)						\
	__extension__ ({							\
		__typeof__(addr) _va = (addr);					\
		VERIF_ENV();							\
		__typeof__(*_va) _vn;						\
		VERIF_EVT(EV_AND, _va, mo, (v));				\
		VERIF_LOAD_HOOK(_va);						\
		_vn = (__typeof__(*_va)) ((unsigned long) VERIF_LOAD_RESULT(_va) & (unsigned long) (v));	\
		VERIF_STORE_HOOK(_va, _vn);					\
		*_va = _vn;							\
		(void) 0;							\
	})
#define uatomic_or_mo(addr, v, mo)						\
	__extension__ ({							\
		__typeof__(addr) _va = (addr);					\
		VERIF_ENV();							\
		__typeof__(*_va) _vn;						\
		VERIF_EVT(EV_OR, _va, mo, (v));					\
		VERIF_LOAD_HOOK(_va);						\
		_vn = (__typeof__(*_va)) ((unsigned long) VERIF_LOAD_RESULT(_va) | (unsigned long) (v));	\
		VERIF_STORE_HOOK(_va, _vn);					\
		*_va = _vn;							\
		(void) 0;							\
	})

#undef cmm_smp_mb
#undef cmm_smp_rmb
#undef cmm_smp_wmb
#undef cmm_mb
#undef cmm_rmb
#undef cmm_wmb
#undef cmm_barrier
#undef caa_cpu_relax
#undef cmm_smp_mb__before_uatomic_and
#undef cmm_smp_mb__after_uatomic_and
#undef cmm_smp_mb__before_uatomic_or
#undef cmm_smp_mb__after_uatomic_or
#undef cmm_smp_mb__before_uatomic_add
#undef cmm_smp_mb__after_uatomic_add
#undef cmm_smp_mb__before_uatomic_inc
#undef cmm_smp_mb__after_uatomic_inc
#undef cmm_smp_mb__before_uatomic_dec
#undef cmm_smp_mb__after_uatomic_dec
#define cmm_smp_mb()	VERIF_EVT(EV_MB, (void *) 0, 0, 0)
#define cmm_mb()	VERIF_EVT(EV_MB, (void *) 0, 0, 0)
#define cmm_smp_rmb()	VERIF_EVT(EV_RMB, (void *) 0, 0, 0)
#define cmm_rmb()	VERIF_EVT(EV_RMB, (void *) 0, 0, 0)
#define cmm_smp_wmb()	VERIF_EVT(EV_WMB, (void *) 0, 0, 0)
#define cmm_wmb()	VERIF_EVT(EV_WMB, (void *) 0, 0, 0)
#define cmm_barrier()	VERIF_EVT(EV_BARRIER, (void *) 0, 0, 0)
#define caa_cpu_relax()	VERIF_EVT(EV_RELAX, (void *) 0, 0, 0)
#define cmm_smp_mb__before_uatomic_and()	cmm_barrier()
#define cmm_smp_mb__after_uatomic_and()		cmm_barrier()
#define cmm_smp_mb__before_uatomic_or()		cmm_barrier()
#define cmm_smp_mb__after_uatomic_or()		cmm_barrier()
#define cmm_smp_mb__before_uatomic_add()	cmm_barrier()
#define cmm_smp_mb__after_uatomic_add()		cmm_barrier()
#define cmm_smp_mb__before_uatomic_inc()	cmm_barrier()
#define cmm_smp_mb__after_uatomic_inc()		cmm_barrier()
#define cmm_smp_mb__before_uatomic_dec()	cmm_barrier()
#define cmm_smp_mb__after_uatomic_dec()		cmm_barrier()

#endif
