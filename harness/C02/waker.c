/*
 * C02.O5 - the WAKER half of the merged-waiter handshake (src/urcu-wait.h): urcu_adaptative_wake_up and
 * urcu_wake_all_waiters, as run by the grace-period leader after its grace period (src/urcu.c, urcu-qsbr.c).
 * The waiter (environment, acting before every shared access of the waker) may set RUNNING once it has seen WAKEUP,
 * and frees its wait node (it lives on the waiter's stack) as soon as it has seen TEARDOWN.
 *   wake_up : precondition WAITING; store WAKEUP (release) first; FUTEX_WAKE unless the waiter was already seen RUNNING
 *             after that store (a sleeping waiter is never left asleep); TEARDOWN or-ed in with release ordering as the
 *             waker's VERY LAST access to the node;
 *   wake_all: every node of the taken stack that is not RUNNING is woken exactly once, the leader's own (RUNNING) node
 *             is skipped untouched, and the successor of a node is read BEFORE that node is woken (its memory may be gone
 *             afterwards - the environment poisons it on TEARDOWN).
 */
#include <verif/verif.h>
#define OS_FUTEX_SLEEP_VALUE 0	/* wait nodes sleep on URCU_WAIT_WAITING == 0 */
#include <verif/os_stubs.h>
#define RCU_MEMBARRIER
#include <verif/flavor_pre.h>
static void evt(int kind, void *addr, int mo, unsigned long val);
static void env_step(void);
#define VERIF_EVT(kind, addr, mo, val) evt((kind), (void *)(addr), (int)(mo), (unsigned long)(val))
#define VERIF_ENV() env_step()
#include <verif/atomics_seq.h>
#include "urcu.c"

#define NW 3
struct urcu_wait_node WN[NW];
unsigned long G_env_on, G_wakeup_stores[NW], G_teardown[NW], G_after_teardown[NW], G_running_seen_at_load[NW], G_loads_after_wakeup[NW], G_order_bad, G_futex_wakes_on[NW];
static int idx_of(void *addr)
{
	unsigned long k;
	for (k = 0; k < NW; k++) if ((char *) addr >= (char *) &WN[k] && (char *) addr < (char *) (&WN[k] + 1)) return (int) k;
	return -1;
}
/* the waiter of node k: sees WAKEUP -> may announce RUNNING; sees TEARDOWN -> returns, its stack frame (the node) dies */
static void env_step(void)
{
	unsigned long k;
	if (!G_env_on) return;
	for (k = 0; k < NW; k++) {
		if ((WN[k].state & URCU_WAIT_WAKEUP) && !(WN[k].state & URCU_WAIT_RUNNING) && nondet_bool()) WN[k].state |= URCU_WAIT_RUNNING;
		if ((WN[k].state & URCU_WAIT_TEARDOWN) && !G_teardown[k]) { G_teardown[k] = 1; WN[k].node.next = (struct cds_wfs_node *) 0xdead0000UL; }
	}
}
static void evt(int kind, void *addr, int mo, unsigned long val)
{
	int k = idx_of(addr);
	if (k < 0) return;
	if (G_teardown[k]) G_after_teardown[k] = 1;				/* access to freed memory */
	if (addr == (void *) &WN[k].state) {
		if (kind == EV_STORE && val == URCU_WAIT_WAKEUP) { G_wakeup_stores[k]++; if (mo < CMM_RELEASE) G_order_bad = 1; }
		if (kind == EV_LOAD && G_wakeup_stores[k]) { G_loads_after_wakeup[k]++; G_running_seen_at_load[k] = !!(WN[k].state & URCU_WAIT_RUNNING); }
		if (kind == EV_OR && (val & URCU_WAIT_TEARDOWN)) { if (mo < CMM_RELEASE || !G_wakeup_stores[k]) G_order_bad = 1; }
	}
}
#define OS_FUTEX_TARGET(k) ((int *) &WN[k].state)

unsigned long in_n, in_self;
void h_wake_up(void)
{
	G_env_on = 1; G_os_futex_wake = 0; G_os_futex_ret = 0;
	WN[0].state = URCU_WAIT_WAITING; WN[0].node.next = 0;
	urcu_adaptative_wake_up(&WN[0]);
	G_env_on = 0;
	VERIF_ASSERT(G_wakeup_stores[0] == 1 && !G_order_bad, "wake_up: WAKEUP stored once with release ordering, before TEARDOWN");
	VERIF_ASSERT((WN[0].state & URCU_WAIT_WAKEUP) && (WN[0].state & URCU_WAIT_TEARDOWN), "wake_up: the waiter ends up with WAKEUP and TEARDOWN");
	VERIF_ASSERT(G_loads_after_wakeup[0] >= 1 && (G_running_seen_at_load[0] ? G_os_futex_wake == 0 : G_os_futex_wake == 1), "wake_up: FUTEX_WAKE unless the waiter was observed RUNNING after the WAKEUP store - a sleeping waiter is never left asleep");
	VERIF_ASSERT(!G_after_teardown[0], "wake_up: the TEARDOWN or is the waker's LAST access to the node (the waiter frees it right away)");
	VERIF_COVER(G_os_futex_wake == 1); VERIF_COVER(G_os_futex_wake == 0);
}
void h_wake_all(void)
{
	struct urcu_waiters w; unsigned long n, k, self;
	VIN(unsigned long, in_n); VIN(unsigned long, in_self);
	n = in_n % (NW + 1); self = in_self % NW;			/* stack of n nodes; node `self` (if present) is the leader's own, RUNNING */
	for (k = 0; k < NW; k++) { WN[k].state = (k == self) ? URCU_WAIT_RUNNING : URCU_WAIT_WAITING; WN[k].node.next = (k + 1 < n) ? &WN[k + 1].node : (struct cds_wfs_node *) CDS_WFS_END; }
	w.head = n ? (struct cds_wfs_head *) &WN[0].node : (struct cds_wfs_head *) 0;
	G_env_on = 1; G_os_futex_wake = 0; G_os_futex_ret = 0;
	urcu_wake_all_waiters(&w);
	G_env_on = 0;
	for (k = 0; k < NW; k++) {
		if (k < n && k != self) {
			VERIF_ASSERT(G_wakeup_stores[k] == 1 && (WN[k].state & URCU_WAIT_TEARDOWN), "wake_all: every waiting node of the stack is woken exactly once and released (TEARDOWN)");
			VERIF_ASSERT(!G_after_teardown[k], "wake_all: nothing of a node is read after its TEARDOWN - the successor was fetched before waking it");
		} else
			VERIF_ASSERT(G_wakeup_stores[k] == 0 && !(WN[k].state & URCU_WAIT_TEARDOWN) && WN[k].state == ((k == self) ? URCU_WAIT_RUNNING : URCU_WAIT_WAITING), "wake_all: the leader's own (RUNNING) node and nodes outside the stack are left alone");
	}
	VERIF_ASSERT(!G_order_bad, "wake_all: WAKEUP before TEARDOWN, both release");
	VERIF_COVER(n == 3 && self == 1); VERIF_COVER(n == 0); VERIF_COVER(n == 2 && self == 2);
}
