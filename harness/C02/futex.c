/*
 * C02.O3/O4 - futex wrappers and the compatibility fallback (include/urcu/futex.h, src/compat_futex.c), and the
 * futex-wait loops of the grace-period machinery (wait_gp of src/urcu.c and src/urcu-qsbr.c,
 * urcu_adaptative_busy_wait of src/urcu-wait.h).
 *
 * The futex system call is a stub returning whatever the harness chose: 0 (woken - possibly SPURIOUSLY),
 * -1/EAGAIN, -1/EINTR, -1/ENOSYS, -1/other.  The environment (the waker) may change the futex word before every
 * load of it.  Partial correctness of the loops: every terminating execution satisfies the contract (busy-wait
 * loops are unwound; executions that spin longer only repeat the same states).
 */
#include <verif/verif.h>
#define OS_FUTEX_HOOK
#define OS_POLL_HOOK
#define OS_COND_HOOK
#define OS_FUTEX_NO_ORDER_CHECK	/* this harness calls the futex wrappers themselves, on an arbitrary word */
#include <verif/os_stubs.h>
#if defined(WHICH_QSBR)
# define SRC "urcu-qsbr.c"
#else
# define RCU_MEMBARRIER
# define SRC "urcu.c"
#endif
#include <verif/flavor_pre.h>
static void evt(int kind, void *addr, int mo, unsigned long val);
static void env_step(void);
#define VERIF_EVT(kind, addr, mo, val) evt((kind), (void *)(addr), (int)(mo), (unsigned long)(val))
#define VERIF_ENV() env_step()
#include <verif/atomics_seq.h>
#include SRC
#include "compat_futex.c"

int32_t *G_word;			/* the futex word under observation */
int32_t G_wait_val;			/* value the waiter sleeps on */
unsigned long G_env_on, G_changed;	/* the waker changed the word */
unsigned long G_last_load_val_valid; int32_t G_last_load_val;
unsigned long G_wait_calls, G_wait_bad;	/* FUTEX_WAIT issued / issued not right after observing the sleep value, or with another expected value */
unsigned long G_sys_mode;		/* result of the futex system call chosen by the harness per call */
unsigned long G_unexpected_errno;

static void evt(int kind, void *addr, int mo, unsigned long val)
{
	(void) mo; (void) val;
	if (kind == EV_LOAD && addr == (void *) G_word) { G_last_load_val = *G_word; G_last_load_val_valid = 1; }
	else if (kind != EV_BARRIER && kind != EV_MB && kind != EV_RMB && kind != EV_WMB && kind != EV_RELAX) G_last_load_val_valid = G_last_load_val_valid;
}
/* the waker: may set the word to "not waiting any more" at any time */
unsigned long G_teardown;
static void env_step(void)
{
	if (G_env_on && !G_changed && nondet_bool()) { *G_word = G_wait_val + 1; G_changed = 1; return; }
	/* urcu_adaptative_wake_up(): WAKEUP first, TEARDOWN (or-ed in) as its very last access to the node */
	if (G_env_on == 2 && G_changed && !G_teardown && nondet_bool()) { *G_word |= URCU_WAIT_TEARDOWN; G_teardown = 1; }
}
static void os_futex_hook(int *uaddr, int op, int val)
{
	unsigned m = nondet_uint();
	if (op == FUTEX_WAIT) {
		G_wait_calls++;
		if (uaddr != G_word || val != G_wait_val || !G_last_load_val_valid || G_last_load_val != G_wait_val) G_wait_bad = 1;
	}
	if (G_sys_mode == 1) { G_os_futex_ret = -1; G_os_futex_errno = ENOSYS; return; }
	switch (m % 4) {
	case 0: G_os_futex_ret = 0; break;						/* woken, possibly spuriously */
	case 1: G_os_futex_ret = -1; G_os_futex_errno = EAGAIN; VERIF_REQUIRE(*G_word != G_wait_val || op != FUTEX_WAIT); break;	/* kernel: value differs */
	case 2: G_os_futex_ret = -1; G_os_futex_errno = EINTR; break;
	default:
		if (G_sys_mode == 2) { G_os_futex_ret = -1; G_os_futex_errno = EFAULT; G_unexpected_errno = 1; G_os_die_expected = 1; }
		else G_os_futex_ret = 0;
	}
}
static int os_poll_hook(void) { env_step(); return 0; }
static void os_cond_wait_hook(void) { }

unsigned long in_sysmode;
static void mk(int32_t *w, int32_t sleepval)
{
	G_word = w; G_wait_val = sleepval; *w = sleepval;
	G_env_on = 1; G_changed = 0; G_wait_calls = 0; G_wait_bad = 0; G_last_load_val_valid = 0; G_unexpected_errno = 0; G_os_die_expected = 0;
	VIN(unsigned long, in_sysmode); G_sys_mode = in_sysmode % 3;
}
#define COMMON_POST(who)											\
	VERIF_ASSERT(G_changed && *G_word != G_wait_val, who ": returns only after the futex word left the sleep value (no return on a spurious or interrupted wait)");	\
	VERIF_ASSERT(!G_wait_bad, who ": FUTEX_WAIT is only issued with the sleep value as expected value, right after a load that returned it");	\
	VERIF_ASSERT(!G_unexpected_errno, who ": an unexpected errno is fatal (urcu_die)")

#if !defined(WHICH_QSBR)
/* wait_gp of urcu.c: called with the registry lock held, must release it while sleeping and re-acquire it */
static void smp_mb_master(void) __CPROVER_requires(1) __CPROVER_assigns() __CPROVER_ensures(1);
void h_wait_gp(void)
{
	mk(&rcu_gp.futex, -1);
	OS_HELD(&rcu_registry_lock) = 1; G_os_locks_held = 1;
	wait_gp();
	COMMON_POST("wait_gp");
	VERIF_ASSERT(OS_HELD(&rcu_registry_lock) == 1, "wait_gp: registry lock held again on return");
	VERIF_COVER(G_wait_calls >= 2); VERIF_COVER(G_wait_calls == 0);
}
/* waiting on the caller's own wait node (merged synchronize_rcu callers) */
void h_busy_wait(void)
{
	struct urcu_wait_node w;
	w.state = URCU_WAIT_WAITING;
	mk(&w.state, URCU_WAIT_WAITING);
	G_env_on = 2; G_teardown = 0;
	urcu_adaptative_busy_wait(&w);
	VERIF_ASSERT(G_changed && G_teardown, "busy_wait: returns only after the waker changed the state and finished with the node (TEARDOWN)");
	VERIF_ASSERT(!G_wait_bad, "busy_wait: FUTEX_WAIT only with WAITING as expected value right after observing it");
	VERIF_ASSERT((w.state & URCU_WAIT_RUNNING) && (w.state & URCU_WAIT_TEARDOWN), "busy_wait: marks itself RUNNING and returns only after TEARDOWN (the waker no longer touches the node)");
	VERIF_ASSERT(!G_unexpected_errno, "busy_wait: an unexpected errno is fatal");
	VERIF_COVER(G_wait_calls >= 1);
}
/* the futex-wait loops of the call_rcu machinery: helper thread (call_rcu_wait) and rcu_barrier (call_rcu_completion_wait) */
void h_call_rcu_wait(void)
{
	struct call_rcu_data c;
	memset(&c, 0, sizeof(c));
	mk(&c.futex, -1);
	call_rcu_wait(&c);
	COMMON_POST("call_rcu_wait");
	VERIF_COVER(G_wait_calls >= 2); VERIF_COVER(G_wait_calls == 0);
}
void h_completion_wait(void)
{
	struct call_rcu_completion cm;
	memset(&cm, 0, sizeof(cm));
	mk(&cm.futex, -1);
	call_rcu_completion_wait(&cm);
	COMMON_POST("call_rcu_completion_wait");
	VERIF_COVER(G_wait_calls >= 2); VERIF_COVER(G_wait_calls == 0);
}
#else
void h_wait_gp(void)
{
	mk(&urcu_qsbr_gp.futex, -1);
	wait_gp();
	COMMON_POST("qsbr wait_gp");
	VERIF_COVER(G_wait_calls >= 2); VERIF_COVER(G_wait_calls == 0);
}
#endif

/* ---- O4: wrappers and fallback ------------------------------------------------------------------- */
int32_t W;
unsigned long in_op, in_async;
void h_fallback(void)
{
	int r;
	VIN(unsigned long, in_op); VIN(unsigned long, in_async);
	mk(&W, -1); G_sys_mode = 1;		/* the system call is unavailable: ENOSYS */
	G_os_cond_waits = 0; G_os_cond_broadcasts = 0;
	if (in_op & 1) {	/* WAIT */
		r = (in_async & 1) ? futex_async(&W, FUTEX_WAIT, -1, NULL, NULL, 0) : futex_noasync(&W, FUTEX_WAIT, -1, NULL, NULL, 0);
		VERIF_ASSERT(r == 0 && G_changed && W != -1, "ENOSYS fallback WAIT: returns 0 only after observing a value different from the expected one");
		/* the matching waker may have reached the real futex(FUTEX_WAKE): nobody will signal a condition variable */
		VERIF_ASSERT(G_os_cond_waits == 0, "ENOSYS fallback WAIT: never sleeps on the compat condition variable (it polls), so a wake-up that went to the kernel cannot be lost");
	} else {
		G_env_on = 0;
		r = (in_async & 1) ? futex_async(&W, FUTEX_WAKE, 1, NULL, NULL, 0) : futex_noasync(&W, FUTEX_WAKE, 1, NULL, NULL, 0);
		VERIF_ASSERT(r == 0, "ENOSYS fallback WAKE: succeeds (waiters poll)");
	}
	VERIF_COVER((in_op & 1) && !(in_async & 1)); VERIF_COVER(!(in_op & 1));
}
void h_compat_noasync(void)
{
	int r;
	VIN(unsigned long, in_op);
	mk(&W, 5); G_os_cond_waits = 0; G_os_cond_broadcasts = 0;
	if (in_op & 1) {
		r = compat_futex_noasync(&W, FUTEX_WAIT, 5, NULL, NULL, 0);
		VERIF_ASSERT(r == 0 && W != 5, "compat noasync WAIT: returns only once the value differs");
	} else {
		r = compat_futex_noasync(&W, FUTEX_WAKE, 1, NULL, NULL, 0);
		VERIF_ASSERT(r == 0 && G_os_cond_broadcasts == 1, "compat noasync WAKE: broadcasts to all waiters");
	}
	VERIF_ASSERT(G_os_locks_held == 0, "compat noasync: compat lock released");
	VERIF_COVER(G_os_cond_waits >= 1);
}
