/*
 * C16.O7 - hash-table side of the fork handlers (src/rculfhash.c): cds_lfht_before_fork / after_fork_parent /
 * after_fork_child with their nesting counter (one call per RCU flavor that registered the handlers).
 * The work-queue operations are the contracts proved in C16.O6 (wq_fork.c), here as checked stubs with ghost state.
 */
#include <verif/verif.h>
#define OS_LOCK_HOOKS
#include <verif/os_stubs.h>
#include <verif/lfht_pre.h>
#include <verif/atomics_seq.h>
#include "rculfhash.c"

/* ghost state of the resize worker: 0 running, 1 parked (PAUSE+PAUSED), 2 = parent's worker resumed, 3 = child's new worker */
unsigned long G_wq_state, G_pause_calls, G_resume_calls, G_create_calls, G_bad, G_lock_seq, G_unlock_seq, G_seq, G_op_seq;
static void os_lock_hook(pthread_mutex_t *m) { if (m == &cds_lfht_fork_mutex) G_lock_seq = ++G_seq; }
static void os_unlock_hook(pthread_mutex_t *m) { if (m == &cds_lfht_fork_mutex) G_unlock_seq = ++G_seq; }
void urcu_workqueue_pause_worker(struct urcu_workqueue *wq)
{
	VERIF_ASSERT(wq == cds_lfht_workqueue && wq != 0, "lfht fork: operates on the hash-table work queue");
	VERIF_ASSERT(G_wq_state == 0, "pause_worker precondition: the worker is running (no PAUSE pending, no stale PAUSED)");
	VERIF_ASSERT(OS_HELD(&cds_lfht_fork_mutex) == 1, "lfht fork: worker paused under cds_lfht_fork_mutex (excludes a concurrent work-queue creation/destruction)");
	G_wq_state = 1; G_pause_calls++; G_op_seq = ++G_seq;
}
void urcu_workqueue_resume_worker(struct urcu_workqueue *wq)
{
	VERIF_ASSERT(wq == cds_lfht_workqueue && wq != 0 && G_wq_state == 1 && OS_HELD(&cds_lfht_fork_mutex) == 1, "resume_worker precondition: the worker is parked; called under the fork mutex");
	G_wq_state = 2; G_resume_calls++; G_op_seq = ++G_seq;
}
void urcu_workqueue_create_worker(struct urcu_workqueue *wq)
{
	VERIF_ASSERT(wq == cds_lfht_workqueue && wq != 0 && G_wq_state == 1 && OS_HELD(&cds_lfht_fork_mutex) == 1, "create_worker precondition: inherited state is 'parked'; called under the fork mutex");
	G_wq_state = 3; G_create_calls++; G_op_seq = ++G_seq;
}
/* not reached by the fork handlers */
struct urcu_workqueue *urcu_workqueue_create(unsigned long flags, int cpu_affinity, void *priv,
		void (*a)(struct urcu_workqueue *, void *), void (*b)(struct urcu_workqueue *, void *), void (*c)(struct urcu_workqueue *, void *),
		void (*d)(struct urcu_workqueue *, void *), void (*e)(struct urcu_workqueue *, void *), void (*f)(struct urcu_workqueue *, void *), void (*g)(struct urcu_workqueue *, void *))
{ (void) flags; (void) cpu_affinity; (void) priv; (void) a; (void) b; (void) c; (void) d; (void) e; (void) f; (void) g; G_bad = 1; return 0; }

unsigned long in_k, in_child, in_wq;
void h_lfht_fork(void)
{
	unsigned long k, i; char wq_obj[8];
	VIN(unsigned long, in_k); VIN(unsigned long, in_child); VIN(unsigned long, in_wq);
	k = in_k % 3 + 1;					/* 1..3 flavors have registered the handlers */
	cds_lfht_workqueue = (in_wq & 1) ? (struct urcu_workqueue *) wq_obj : 0;	/* no table created yet => no work queue */
	cds_lfht_workqueue_atfork_nesting = 0;
	for (i = 0; i < 3; i++) if (i < k) {
		cds_lfht_before_fork(0);
		VERIF_ASSERT(OS_HELD(&cds_lfht_fork_mutex) == 1 && G_lock_seq == 1, "lfht before_fork: the FIRST nested call takes cds_lfht_fork_mutex, later ones only count");
		VERIF_ASSERT(G_pause_calls == ((in_wq & 1) ? 1UL : 0UL) && G_wq_state == ((in_wq & 1) ? 1UL : 0UL), "lfht before_fork: the resize worker is paused exactly once (by the first call), and stays parked for the nested calls");
	}
	VERIF_ASSERT(cds_lfht_workqueue_atfork_nesting == (int) k, "lfht before_fork: nesting counted");
	for (i = 0; i < 3; i++) if (i < k) {
		if (i + 1 < k) {
			if (in_child & 1) cds_lfht_after_fork_child(0); else cds_lfht_after_fork_parent(0);
			VERIF_ASSERT(OS_HELD(&cds_lfht_fork_mutex) == 1 && G_resume_calls == 0 && G_create_calls == 0 && G_wq_state == ((in_wq & 1) ? 1UL : 0UL), "lfht after_fork: inner nested calls change nothing (worker still parked, mutex still held)");
		} else {
			if (in_child & 1) cds_lfht_after_fork_child(0); else cds_lfht_after_fork_parent(0);
		}
	}
	VERIF_ASSERT(cds_lfht_workqueue_atfork_nesting == 0, "lfht after_fork: nesting back to 0");
	VERIF_ASSERT(OS_HELD(&cds_lfht_fork_mutex) == 0 && G_os_locks_held == 0 && G_unlock_seq == G_seq, "lfht after_fork: the LAST nested call releases cds_lfht_fork_mutex, as its last step");
	if (in_wq & 1) {
		if (in_child & 1) VERIF_ASSERT(G_create_calls == 1 && G_resume_calls == 0 && G_wq_state == 3, "lfht after_fork_child: exactly one new resize worker (the parent's thread does not exist in the child)");
		else VERIF_ASSERT(G_resume_calls == 1 && G_create_calls == 0 && G_wq_state == 2, "lfht after_fork_parent: the worker is resumed exactly once");
	} else
		VERIF_ASSERT(G_pause_calls + G_resume_calls + G_create_calls == 0, "lfht fork handlers without a work queue: nothing to pause");
	VERIF_ASSERT(!G_bad, "lfht fork handlers never create a work queue");
	VERIF_COVER(k == 3 && (in_child & 1) && (in_wq & 1)); VERIF_COVER(k == 1 && !(in_child & 1) && (in_wq & 1)); VERIF_COVER(!(in_wq & 1) && k == 2);
}
