/* whole-library reproducer of the defect fixed by 5036dcf (see known_findings.txt): build against a built tree,
 *   gcc -O1 -I$R/include native_wq_spin.c $R/src/.libs/liburcu-cds.a $R/src/.libs/liburcu-memb.a $R/src/.libs/liburcu-common.a -lpthread
 * exit 1 = the child's resize worker spins instead of sleeping. Documentation only: not run by any registered check. */
#define _GNU_SOURCE
#include <stdio.h>
#include <stdlib.h>
#include <unistd.h>
#include <time.h>
#include <sys/wait.h>
#include <urcu/urcu-memb.h>
#include <urcu/rculfhash.h>
struct n { struct cds_lfht_node node; };
static double cpu(void){ struct timespec t; clock_gettime(CLOCK_PROCESS_CPUTIME_ID,&t); return t.tv_sec + t.tv_nsec/1e9; }
int main(void)
{
	struct cds_lfht *ht; int i; pid_t p; int st;
	urcu_memb_register_thread();
	ht = cds_lfht_new_flavor(1, 1, 0, CDS_LFHT_AUTO_RESIZE, &urcu_memb_flavor, NULL);
	for (i = 0; i < 5000; i++) { struct n *x = calloc(1, sizeof *x); cds_lfht_node_init(&x->node); urcu_memb_read_lock(); cds_lfht_add(ht, i * 2654435761u, &x->node); urcu_memb_read_unlock(); }
	usleep(300000);	/* let the worker finish its resizes and go to sleep */
	urcu_memb_call_rcu_before_fork();
	p = fork();
	if (p == 0) {
		double a, b;
		urcu_memb_call_rcu_after_fork_child();
		usleep(100000);
		a = cpu(); usleep(1000000); b = cpu();
		printf("child: process CPU time consumed during 1 s of idling: %.3f s\n", b - a);
		fflush(stdout); _exit((b - a) > 0.5);
	}
	urcu_memb_call_rcu_after_fork_parent();
	{ double a = cpu(), b; usleep(1000000); b = cpu(); printf("parent: %.3f s\n", b - a); }
	waitpid(p, &st, 0);
	return WEXITSTATUS(st);
}
