/*
 * C16.O6 - work-queue side of the hash-table fork handlers (src/workqueue.c):
 *   urcu_workqueue_pause_worker / resume_worker (loop contracts: ANY number of polls), create_worker,
 *   and the pause branch of workqueue_thread.
 * The worker (resp. the forking thread) is the environment acting inside poll().
 */
#include <verif/verif.h>
#define OS_POLL_HOOK
#define OS_CREATE_HOOK
#define OS_SYSCALL_MACRO
#include <verif/os_stubs.h>
#include <urcu/compiler.h>
#include <urcu/arch.h>
#include <urcu/system.h>
#include <urcu/uatomic.h>
static void evt(int kind, void *addr, int mo, unsigned long val);
#define VERIF_EVT(kind, addr, mo, val) evt((kind), (void *)(addr), (int)(mo), (unsigned long)(val))
#include <verif/atomics_seq.h>

struct urcu_workqueue;
extern struct urcu_workqueue W;
unsigned long G_mode, G_polls, G_parked, G_resumed, G_f0, G_bad;

#define WF (*(unsigned long *) &W_flags_alias)
#ifdef LOOPS
#undef URCU_VERIF_LOOP_wq_pause
#define URCU_VERIF_LOOP_wq_pause								\
	__CPROVER_assigns(workqueue->flags, G_polls, G_parked, G_os_poll_calls)					\
	__CPROVER_loop_invariant((workqueue->flags & ~(unsigned long) URCU_WORKQUEUE_PAUSED) == (G_f0 | URCU_WORKQUEUE_PAUSE))	\
	__CPROVER_loop_invariant(G_parked == ((workqueue->flags & URCU_WORKQUEUE_PAUSED) ? 1UL : 0UL))
#undef URCU_VERIF_LOOP_wq_resume
#define URCU_VERIF_LOOP_wq_resume								\
	__CPROVER_assigns(workqueue->flags, G_polls, G_resumed, G_os_poll_calls)					\
	__CPROVER_loop_invariant((workqueue->flags & ~(unsigned long) URCU_WORKQUEUE_PAUSED) == (G_f0 & ~(unsigned long) (URCU_WORKQUEUE_PAUSE | URCU_WORKQUEUE_PAUSED)))	\
	__CPROVER_loop_invariant(G_resumed == ((workqueue->flags & URCU_WORKQUEUE_PAUSED) ? 0UL : 1UL))
#endif

/* the worker's indirect calls (must-fire rewrites): checked to be the installed function, then called directly */
struct urcu_work;
static void work_fn(struct urcu_work *w);
static void verif_wqcb(void *fn, struct urcu_workqueue *wq);
#undef URCU_VERIF_WORK
#define URCU_VERIF_WORK(w) do { VERIF_ASSERT((w)->func == work_fn, "worker invokes the function stored in the work item"); work_fn(w); } while (0)
#undef URCU_VERIF_WQCB
#define URCU_VERIF_WQCB(f, wq) verif_wqcb((void *) (wq)->f, (wq))
#include "workqueue.c"

struct urcu_workqueue W;
extern unsigned long E_xchg_tail, E_mb_after_enq, E_futex_loads, E_futex_load_fenced;
void *G_created_fn, *G_created_arg; unsigned long G_created_sigmask;
static void os_create_hook(void *(*fn)(void *), void *arg) { G_created_fn = (void *) fn; G_created_arg = arg; G_created_sigmask = G_os_sig_blocked; }

/* work items and worker callbacks */
struct urcu_work IT[2];
unsigned long G_calls; struct urcu_work *G_called[2];
unsigned long G_before_pause, G_after_resume, G_gp, G_quiescent, G_paused_set_quiescent = 2, G_paused_clr_pause = 2;
struct cds_wfcq_node *G_q_first, *G_q_tail; unsigned long G_delay;
static void work_fn(struct urcu_work *w) { if (G_calls < 2) G_called[G_calls] = w; G_calls++; w->next.next = (struct cds_wfcq_node *) 0xdead0000UL; }
static void cb_before_pause(struct urcu_workqueue *wq, void *priv) { (void) priv; VERIF_ASSERT(wq == &W && !(W.flags & URCU_WORKQUEUE_PAUSED), "worker: before_pause callback (unregisters the worker as an RCU reader) runs BEFORE PAUSED is announced"); G_before_pause++; G_quiescent = 1; }
static void cb_after_resume(struct urcu_workqueue *wq, void *priv) { (void) priv; VERIF_ASSERT(wq == &W && !(W.flags & (URCU_WORKQUEUE_PAUSED | URCU_WORKQUEUE_PAUSE)), "worker: after_resume callback runs after PAUSED was dropped"); G_after_resume++; G_quiescent = 0; }
static void cb_gp(struct urcu_workqueue *wq, void *priv) { (void) wq; (void) priv; VERIF_ASSERT(!G_quiescent, "worker: grace period only while registered"); G_gp++; }

static void verif_wqcb(void *fn, struct urcu_workqueue *wq)
{
	if (fn == (void *) cb_before_pause) cb_before_pause(wq, wq->priv);
	else if (fn == (void *) cb_after_resume) cb_after_resume(wq, wq->priv);
	else if (fn == (void *) cb_gp) cb_gp(wq, wq->priv);
	else VERIF_ASSERT(0, "worker calls only callbacks installed in the work queue");
}
static int os_poll_hook(void)
{
	G_polls++;
	if (G_mode == 1) {		/* the worker sees PAUSE at some point and parks */
		if ((W.flags & URCU_WORKQUEUE_PAUSE) && !(W.flags & URCU_WORKQUEUE_PAUSED) && nondet_bool()) { W.flags |= URCU_WORKQUEUE_PAUSED; G_parked = 1; }
	} else if (G_mode == 2) {	/* the parked worker sees PAUSE cleared at some point and leaves */
		if (!(W.flags & URCU_WORKQUEUE_PAUSE) && (W.flags & URCU_WORKQUEUE_PAUSED) && nondet_bool()) { W.flags &= ~URCU_WORKQUEUE_PAUSED; G_resumed = 1; }
	} else if (G_mode == 3 && (W.flags & URCU_WORKQUEUE_PAUSE)) {
		/* worker under test is parked: fork() may happen now */
		if (!(W.flags & URCU_WORKQUEUE_PAUSED)) G_bad |= 2;
		if (!G_quiescent) G_bad |= 4;
		if (G_calls || W.cbs_head.node.next != G_q_first || W.cbs_tail.p != G_q_tail) G_bad |= 8;
		if (G_delay) G_delay--; else W.flags &= ~URCU_WORKQUEUE_PAUSE;
	}
	return 0;
}
static void evt(int kind, void *addr, int mo, unsigned long val)
{
	(void) mo;
	if (G_mode == 5) {
		if (kind == EV_XCHG && addr == (void *) &W.cbs_tail.p) { E_xchg_tail++; E_mb_after_enq = 1; }
		if (kind == EV_MB && E_xchg_tail) E_mb_after_enq = 1;
		if (kind == EV_LOAD && addr == (void *) &W.futex) { E_futex_loads++; E_futex_load_fenced = E_mb_after_enq; }
	}
	if (G_mode == 3 && addr == (void *) &W.flags) {
		if (kind == EV_OR && (val & URCU_WORKQUEUE_PAUSED)) G_paused_set_quiescent = G_quiescent;
		if (kind == EV_AND && !(val & URCU_WORKQUEUE_PAUSED)) G_paused_clr_pause = !!(W.flags & URCU_WORKQUEUE_PAUSE);
	}
}
static void q_put(struct urcu_work *w) { cds_wfcq_node_init(&w->next); w->func = work_fn; cds_wfcq_enqueue(&W.cbs_head, &W.cbs_tail, &w->next); W.qlen++; }

unsigned long in_rt, in_futex, in_n, in_flags, in_delay;
static void mk(void)
{
	VIN(unsigned long, in_rt); VIN(unsigned long, in_futex); VIN(unsigned long, in_n); VIN(unsigned long, in_flags); VIN(unsigned long, in_delay);
	memset(&W, 0, sizeof(W)); cds_wfcq_init(&W.cbs_head, &W.cbs_tail);
	if (in_n % 3 >= 1) q_put(&IT[0]);
	if (in_n % 3 >= 2) q_put(&IT[1]);
	G_q_first = W.cbs_head.node.next; G_q_tail = W.cbs_tail.p;
	W.futex = (in_futex & 1) ? -1 : 0; W.tid = (pthread_t) 999;
	G_polls = G_parked = G_resumed = G_bad = G_calls = 0; G_os_futex_wake = 0; G_os_futex_ret = 0;
}
#define Q_INTACT (W.cbs_head.node.next == G_q_first && W.cbs_tail.p == G_q_tail && W.qlen == in_n % 3 && G_calls == 0)

void h_wq_pause(void)
{
	mk(); G_mode = 1;
	/* precondition (established by create / create_worker / resume_worker): neither PAUSE nor a stale PAUSED */
	W.flags = G_f0 = (in_rt & 1) ? URCU_WORKQUEUE_RT : 0;
	urcu_workqueue_pause_worker(&W);
	VERIF_ASSERT(W.flags == (G_f0 | URCU_WORKQUEUE_PAUSE | URCU_WORKQUEUE_PAUSED), "pause_worker: PAUSE requested, returns only with PAUSED announced, other flags kept");
	VERIF_ASSERT(G_parked == 1, "pause_worker: returns only after the WORKER itself parked (given no stale PAUSED on entry) - however many polls that takes");
	VERIF_ASSERT(((in_futex & 1) && !(in_rt & 1)) ? (W.futex == 0 && G_os_futex_wake == 1) : G_os_futex_wake == 0, "pause_worker: a sleeping (non real-time) worker is woken so that it sees the request");
	VERIF_ASSERT(Q_INTACT, "pause_worker: queued work untouched");
	VERIF_COVER(G_polls >= 1 && (in_futex & 1)); VERIF_COVER(in_rt & 1);
}
void h_wq_resume(void)
{
	mk(); G_mode = 2;
	W.flags = G_f0 = ((in_rt & 1) ? URCU_WORKQUEUE_RT : 0) | URCU_WORKQUEUE_PAUSE | URCU_WORKQUEUE_PAUSED;
	urcu_workqueue_resume_worker(&W);
	VERIF_ASSERT(W.flags == ((in_rt & 1) ? URCU_WORKQUEUE_RT : 0UL), "resume_worker: clears exactly PAUSE and returns only once the worker dropped PAUSED (so the next pause cannot see a stale PAUSED)");
	VERIF_ASSERT(G_resumed == 1 && Q_INTACT, "resume_worker: the worker itself left the parked state; queued work untouched");
	VERIF_COVER(G_polls >= 1);
}
void h_wq_create_worker(void)
{
	mk(); G_mode = 0;
	/* in the child: flags are whatever the parent had at fork time */
	W.flags = G_f0 = in_flags & (URCU_WORKQUEUE_RT | URCU_WORKQUEUE_PAUSE | URCU_WORKQUEUE_PAUSED);
	G_os_sig_blocked = 0x20; G_os_thread_created = 0;
	urcu_workqueue_create_worker(&W);
	VERIF_ASSERT(W.flags == (G_f0 & URCU_WORKQUEUE_RT), "create_worker (child after fork): the inherited PAUSE and PAUSED are both cleared - the new worker runs, and a later fork waits for THIS worker to park");
	VERIF_ASSERT(G_os_thread_created == 1 && G_created_fn == (void *) workqueue_thread && G_created_arg == (void *) &W && W.tid == (pthread_t) 1, "create_worker: exactly one new worker thread on this work queue, tid recorded");
	VERIF_ASSERT(G_created_sigmask == ~0UL && G_os_sig_blocked == 0x20, "create_worker: thread created with all signals blocked, mask restored");
	VERIF_ASSERT(Q_INTACT, "create_worker: work queued at fork time stays queued (it runs once, in the child's worker)");
	/* the departed worker's sleep word is inherited as -1 (it parked after its decrement) or 0; the new worker starts with its own decrement: only from 0 does
	 * that give -1, the one value futex_wait() sleeps on and wake_worker_thread() recognises.  From -1 it gives -2: the child's worker never sleeps again */
	VERIF_ASSERT((G_f0 & URCU_WORKQUEUE_RT) || W.futex == 0, "create_worker: the sleep/wake-up word of a non real-time work queue is re-initialised to 0 for the new worker (an inherited -1 becomes -2 at the worker's first decrement: futex_wait never sleeps, the child's worker spins for the rest of its life)");
	VERIF_COVER((in_futex & 1) && !(G_f0 & URCU_WORKQUEUE_RT));
	VERIF_COVER((G_f0 & URCU_WORKQUEUE_PAUSED) && (G_f0 & URCU_WORKQUEUE_PAUSE)); VERIF_COVER(G_f0 == URCU_WORKQUEUE_RT);
}
void h_wq_worker_pause(void)
{
	unsigned long n;
	mk(); G_mode = 3; n = in_n % 3;
	G_delay = in_delay % 3; G_quiescent = 0; G_gp = 0; G_before_pause = G_after_resume = 0;
	W.worker_before_pause_fct = cb_before_pause; W.worker_after_resume_fct = cb_after_resume; W.grace_period_fct = cb_gp;
	W.cpu_affinity = -1;
	W.flags = URCU_WORKQUEUE_STOP | URCU_WORKQUEUE_PAUSE | ((in_rt & 1) ? URCU_WORKQUEUE_RT : 0);	/* STOP: exactly one pass */
	(void) workqueue_thread(&W);
	VERIF_ASSERT(G_polls >= 1 && !G_bad, "worker pause: while PAUSE is set the worker has announced PAUSED, has run its before_pause callback, and touches neither the queue nor any work item");
	VERIF_ASSERT(G_before_pause == 1 && G_after_resume == 1 && G_paused_set_quiescent == 1, "worker pause: before_pause once before PAUSED, after_resume once");
	VERIF_ASSERT(G_paused_clr_pause == 0 && !(W.flags & (URCU_WORKQUEUE_PAUSE | URCU_WORKQUEUE_PAUSED)), "worker pause: drops PAUSED only after PAUSE was cleared");
	VERIF_ASSERT(G_calls == n && (n < 1 || G_called[0] == &IT[0]) && (n < 2 || G_called[1] == &IT[1]) && G_gp == (n ? 1 : 0) && W.qlen == 0, "worker pause: after resuming, the work queued at fork time runs exactly once each, in order");
	VERIF_COVER(n == 2 && G_polls == 3); VERIF_COVER(n == 0);
}

/* ---- C09.O7: the work queue as used by lazy resize / destroy (no fork involved) --------------------------------------- */
unsigned long E_xchg_tail, E_mb_after_enq, E_futex_loads, E_futex_load_fenced;
void h_wq_queue_work(void)
{
	struct urcu_work NW; unsigned long n;
	mk(); G_mode = 5; n = in_n % 3;
	W.flags = (in_rt & 1) ? URCU_WORKQUEUE_RT : 0;
	E_xchg_tail = E_mb_after_enq = E_futex_loads = E_futex_load_fenced = 0;
	NW.next.next = (struct cds_wfcq_node *) 0x1234; NW.func = 0;
	urcu_workqueue_queue_work(&W, &NW, work_fn);
	VERIF_ASSERT(NW.func == work_fn && NW.next.next == 0 && W.cbs_tail.p == &NW.next && W.qlen == n + 1, "queue_work: item initialised, ONE enqueue at the tail (FIFO: destroy work queued after a resize runs after it), qlen + 1");
	VERIF_ASSERT(n == 0 ? W.cbs_head.node.next == &NW.next : (n == 1 ? IT[0].next.next == &NW.next : IT[1].next.next == &NW.next), "queue_work: linked behind the previously last item");
	if (in_rt & 1) VERIF_ASSERT(G_os_futex_wake == 0, "queue_work: a real-time worker polls, no wake-up");
	else {
		VERIF_ASSERT(E_futex_loads == 1 && E_futex_load_fenced, "queue_work: enqueue -> full barrier -> test of the worker's futex (no lost wake-up)");
		VERIF_ASSERT((in_futex & 1) ? (W.futex == 0 && G_os_futex_wake == 1) : G_os_futex_wake == 0, "queue_work: FUTEX_WAKE iff the worker sleeps");
	}
	VERIF_COVER(n == 2 && (in_futex & 1) && !(in_rt & 1)); VERIF_COVER(n == 0);
}
void h_wq_iteration(void)
{
	unsigned long n;
	mk(); G_mode = 6; n = in_n % 3; G_gp = 0; G_quiescent = 0;
	W.grace_period_fct = cb_gp; W.cpu_affinity = -1;
	W.flags = URCU_WORKQUEUE_STOP | ((in_rt & 1) ? URCU_WORKQUEUE_RT : 0);		/* STOP: exactly one pass */
	(void) workqueue_thread(&W);
	VERIF_ASSERT(G_calls == n && (n < 1 || G_called[0] == &IT[0]) && (n < 2 || G_called[1] == &IT[1]), "worker: every queued work item runs exactly once, in FIFO order");
	VERIF_ASSERT(G_gp == (n ? 1UL : 0UL) && W.qlen == 0, "worker: one grace-period callback per non-empty batch; qlen adjusted");
	VERIF_ASSERT(W.cbs_head.node.next == 0 && W.cbs_tail.p == &W.cbs_head.node && ((in_rt & 1) || W.futex == 0), "worker: queue left empty; a non real-time worker resets its futex when it stops");
	VERIF_COVER(n == 2); VERIF_COVER(n == 0);
}
