/*
 * C16 - call_rcu fork handlers of src/urcu-call-rcu-impl.h (memb flavor TU src/urcu.c) and the helper's pause branch.
 *  O2 call_rcu_before_fork : call_rcu_mutex first and kept; registered hash-table atfork hook called once under it;
 *     every helper gets PAUSE + a wake-up (if asleep and not RT); returns only after EVERY helper showed PAUSED;
 *     no queue is touched.
 *  O3 call_rcu_after_fork_parent : clears exactly PAUSE on every helper, waits until every helper dropped PAUSED,
 *     then the hash-table hook, then the mutex is released.
 *  O4 helper (call_rcu_thread) pause branch: unregisters as a reader BEFORE announcing PAUSED, touches neither its
 *     queue nor any callback while paused, drops PAUSED only after PAUSE was cleared, re-registers afterwards; the
 *     callbacks that were queued at fork time are then run exactly once.
 *  O5 call_rcu_after_fork_child : releases the mutex; hash-table hook once; a NEW default helper with a thread of
 *     its own; per-CPU table and the thread's helper pointer dropped; every inherited helper is marked STOPPED
 *     (never waited for, never joined - its thread does not exist), its callbacks moved to the new default helper
 *     exactly once, then unlinked and freed once; nothing invoked by the handler itself; call_rcu never used => no-op.
 */
#include <verif/verif.h>
#define OS_LOCK_HOOKS
#define OS_POLL_HOOK
#define OS_CREATE_HOOK
#include <verif/os_stubs.h>
#define RCU_MEMBARRIER
#define HAVE_SYSCONF 1
#define HAVE_SCHED_GETCPU 1
#include <verif/flavor_pre.h>
static void evt(int kind, void *addr, int mo, unsigned long val);
#define VERIF_EVT(kind, addr, mo, val) evt((kind), (void *)(addr), (int)(mo), (unsigned long)(val))
#include <verif/atomics_seq.h>
unsigned long G_free_calls; void *G_free_ptr[4];
static inline void verif_free(void *p) { if (G_free_calls < 4) G_free_ptr[G_free_calls] = p; G_free_calls++; }
struct rcu_head;
static void user_cb(struct rcu_head *h);
#undef URCU_VERIF_CB
#define URCU_VERIF_CB(r) do { VERIF_ASSERT((r)->func == user_cb, "helper invokes the function stored in the callback's own rcu_head"); user_cb(r); } while (0)
#define free(p) verif_free(p)		/* frees are logged, not performed */
#include "urcu.c"
#undef free

/* ---- ghost ---------------------------------------------------------------------------------------- */
#define NH 2
struct call_rcu_data *H[NH];			/* inherited helpers */
unsigned long G_n;				/* how many of them are on call_rcu_data_list */
unsigned long G_mode;				/* 1 before_fork, 2 after_fork_parent, 3 helper pause, 4 child */
unsigned long G_bad, G_polls, G_gp, G_registered, G_seq;
unsigned long G_af_before, G_af_parent, G_af_child, G_af_locked, G_af_seq, G_unlock_seq, G_lock_seq, G_flagop_seq_first, G_flagop_seq_last;
void *G_af_priv;
static void af_before(void *priv) { G_af_before++; G_af_priv = priv; G_af_locked = OS_HELD(&call_rcu_mutex); G_af_seq = ++G_seq; }
static void af_parent(void *priv) { G_af_parent++; G_af_priv = priv; G_af_locked = OS_HELD(&call_rcu_mutex); G_af_seq = ++G_seq; }
static void af_child(void *priv) { G_af_child++; G_af_priv = priv; G_af_locked = OS_HELD(&call_rcu_mutex); G_af_seq = ++G_seq; }
static struct urcu_atfork AF = { .before_fork = af_before, .after_fork_parent = af_parent, .after_fork_child = af_child, .priv = (void *) 0x5150 };

static void os_lock_hook(pthread_mutex_t *m) { if (m == &call_rcu_mutex) G_lock_seq = ++G_seq; }
static void os_unlock_hook(pthread_mutex_t *m) { if (m == &call_rcu_mutex) G_unlock_seq = ++G_seq; }
void *G_created_fn, *G_created_arg; unsigned long G_created_sigmask;
static void os_create_hook(void *(*fn)(void *), void *arg) { G_created_fn = (void *) fn; G_created_arg = arg; G_created_sigmask = G_os_sig_blocked; }

/* user callbacks */
struct item { struct rcu_head head; };
struct item IT[4];
unsigned long G_calls; struct rcu_head *G_called[4];
static void user_cb(struct rcu_head *h) { if (G_calls < 4) G_called[G_calls] = h; G_calls++; h->next.next = (struct cds_wfcq_node *) 0xdead0000UL; h->func = 0; }
static void q_init(struct call_rcu_data *c) { memset(c, 0, sizeof(*c)); cds_wfcq_init(&c->cbs_head, &c->cbs_tail); }
static void q_put(struct call_rcu_data *c, struct item *it)
{
	cds_wfcq_node_init(&it->head.next); it->head.func = user_cb;
	cds_wfcq_enqueue(&c->cbs_head, &c->cbs_tail, &it->head.next); c->qlen++;
}

/* the helper threads (environment of the fork handlers), acting while the handler polls:
 * a helper that sees PAUSE parks and announces PAUSED; one that sees PAUSE cleared drops PAUSED.
 * Each may take up to two polls to react (harness choice). */
unsigned long G_delay[NH];
static void helper_react(unsigned long k)
{
	struct call_rcu_data *c = H[k];
	if (G_delay[k]) { G_delay[k]--; return; }
	if (G_mode == 1 && (c->flags & URCU_CALL_RCU_PAUSE)) c->flags |= URCU_CALL_RCU_PAUSED;
	if (G_mode == 2 && !(c->flags & URCU_CALL_RCU_PAUSE)) c->flags &= ~URCU_CALL_RCU_PAUSED;
}
/* helper under test (mode 3): the forking thread clears PAUSE after a few polls */
struct call_rcu_data *G_crdp; struct cds_wfcq_node *G_q_first, *G_q_tail;
static int os_poll_hook(void)
{
	unsigned long k;
	G_polls++;
	if (G_mode == 1 || G_mode == 2) { for (k = 0; k < NH; k++) if (k < G_n) helper_react(k); }
	if (G_mode == 4) G_bad |= 1;		/* the child never waits for a thread that does not exist */
	if (G_mode == 3 && (G_crdp->flags & URCU_CALL_RCU_PAUSE)) {
		/* parked: the fork happens now - the helper must be quiescent */
		if (!(G_crdp->flags & URCU_CALL_RCU_PAUSED)) G_bad |= 2;
		if (G_registered) G_bad |= 4;
		if (G_calls || G_crdp->cbs_head.node.next != G_q_first || G_crdp->cbs_tail.p != G_q_tail) G_bad |= 8;
		if (G_delay[0]) G_delay[0]--; else G_crdp->flags &= ~URCU_CALL_RCU_PAUSE;
	}
	return 0;
}
unsigned long G_paused_set_registered = 2, G_paused_clr_pause = 2;
static void evt(int kind, void *addr, int mo, unsigned long val)
{
	(void) mo;
	if (G_mode == 3 && addr == (void *) &G_crdp->flags) {
		if (kind == EV_OR && (val & URCU_CALL_RCU_PAUSED)) G_paused_set_registered = G_registered;
		if (kind == EV_AND && !(val & URCU_CALL_RCU_PAUSED)) G_paused_clr_pause = !!(G_crdp->flags & URCU_CALL_RCU_PAUSE);
	}
	if ((G_mode == 1 || G_mode == 2) && (kind == EV_OR || kind == EV_AND)) {
		if (!G_flagop_seq_first) G_flagop_seq_first = ++G_seq;
		G_flagop_seq_last = ++G_seq;
		if (!OS_HELD(&call_rcu_mutex)) G_bad |= 16;	/* helper flags are only changed under call_rcu_mutex */
	}
}

void urcu_memb_synchronize_rcu(void)
__CPROVER_requires(G_registered == 1)
__CPROVER_assigns(G_gp)
__CPROVER_ensures(G_gp == __CPROVER_old(G_gp) + 1)
;
static int set_thread_cpu_affinity(struct call_rcu_data *crdp) __CPROVER_requires(1) __CPROVER_assigns() __CPROVER_ensures(__CPROVER_return_value == 0);
void urcu_memb_register_thread(void)
__CPROVER_requires(G_registered == 0 && !(G_crdp->flags & URCU_CALL_RCU_PAUSED))
__CPROVER_assigns(G_registered) __CPROVER_ensures(G_registered == 1);
void urcu_memb_unregister_thread(void)
__CPROVER_requires(G_registered == 1)
__CPROVER_assigns(G_registered) __CPROVER_ensures(G_registered == 0);

unsigned long in_n, in_rt, in_futex, in_af, in_delay, in_q;
static struct call_rcu_data HS[NH];
static void mk_helpers(unsigned long flags)
{
	unsigned long k;
	VIN(unsigned long, in_n); VIN(unsigned long, in_rt); VIN(unsigned long, in_futex); VIN(unsigned long, in_af); VIN(unsigned long, in_delay); VIN(unsigned long, in_q);
	G_n = in_n % (NH + 1);
	CDS_INIT_LIST_HEAD(&call_rcu_data_list);
	for (k = 0; k < NH; k++) {
		H[k] = &HS[k]; q_init(H[k]);
		H[k]->flags = flags | (((in_rt >> k) & 1) ? URCU_CALL_RCU_RT : 0);
		H[k]->futex = ((in_futex >> k) & 1) ? -1 : 0;
		G_delay[k] = (in_delay >> (2 * k)) & 1 ? 1 : ((in_delay >> (2 * k + 1)) & 1 ? 2 : 0);
		if ((in_q >> k) & 1) q_put(H[k], &IT[k]);
		if (k < G_n) cds_list_add_tail(&H[k]->list, &call_rcu_data_list);
	}
	registered_rculfhash_atfork = (in_af & 1) ? &AF : 0;
	G_seq = 0; G_bad = 0; G_polls = 0; G_os_futex_wake = 0; G_os_futex_ret = 0;
}
#define QUEUE_INTACT(k) (((in_q >> (k)) & 1) ? (H[k]->cbs_head.node.next == &IT[k].head.next && H[k]->cbs_tail.p == &IT[k].head.next && IT[k].head.func == user_cb) \
					      : (H[k]->cbs_head.node.next == 0 && H[k]->cbs_tail.p == &H[k]->cbs_head.node))

void h_before_fork(void)
{
	unsigned long k, wakes = 0;
	mk_helpers(0); G_mode = 1;
	call_rcu_before_fork();
	VERIF_ASSERT(OS_HELD(&call_rcu_mutex) == 1 && G_os_locks_held == 1 && G_lock_seq == 1, "call_rcu_before_fork: takes call_rcu_mutex first and keeps it across fork()");
	VERIF_ASSERT((in_af & 1) ? (G_af_before == 1 && G_af_priv == (void *) 0x5150 && G_af_locked == 1 && G_af_parent == 0 && G_af_child == 0) : G_af_before == 0, "call_rcu_before_fork: the registered hash-table atfork hook runs exactly once, under the mutex");
	for (k = 0; k < NH; k++) {
		if (k < G_n) {
			VERIF_ASSERT((H[k]->flags & URCU_CALL_RCU_PAUSE) && (H[k]->flags & URCU_CALL_RCU_PAUSED), "call_rcu_before_fork: returns only after EVERY helper was asked to pause and announced PAUSED");
			VERIF_ASSERT(H[k]->futex == 0 || (H[k]->flags & URCU_CALL_RCU_RT), "call_rcu_before_fork: a sleeping (non real-time) helper is woken so that it sees the request");
			if (((in_futex >> k) & 1) && !((in_rt >> k) & 1)) wakes++;
		} else
			VERIF_ASSERT(!(H[k]->flags & URCU_CALL_RCU_PAUSE), "call_rcu_before_fork: helpers not on the list are not touched");
		VERIF_ASSERT(QUEUE_INTACT(k) && H[k]->qlen == ((in_q >> k) & 1), "call_rcu_before_fork: callbacks queued at fork time stay queued, untouched");
	}
	VERIF_ASSERT(G_os_futex_wake == wakes, "call_rcu_before_fork: one FUTEX_WAKE per sleeping helper");
	VERIF_ASSERT(!G_bad && G_calls == 0, "call_rcu_before_fork: flags changed only under the mutex; no callback invoked");
	VERIF_COVER(G_n == 2 && G_polls >= 3); VERIF_COVER(G_n == 0); VERIF_COVER(G_n == 2 && (in_af & 1) && wakes == 2); VERIF_COVER(G_n == 1 && G_polls == 1);
}

void h_after_fork_parent(void)
{
	unsigned long k;
	mk_helpers(URCU_CALL_RCU_PAUSE | URCU_CALL_RCU_PAUSED); G_mode = 2;
	call_rcu_lock(&call_rcu_mutex); G_seq = 0;	/* state left by call_rcu_before_fork */
	call_rcu_after_fork_parent();
	for (k = 0; k < NH; k++) {
		if (k < G_n)
			VERIF_ASSERT(H[k]->flags == (((in_rt >> k) & 1) ? URCU_CALL_RCU_RT : 0UL), "call_rcu_after_fork_parent: clears exactly PAUSE and returns only after EVERY helper dropped PAUSED; other flags kept");
		VERIF_ASSERT(QUEUE_INTACT(k) && H[k]->qlen == ((in_q >> k) & 1), "call_rcu_after_fork_parent: queued callbacks untouched (they run once, in the helper)");
	}
	VERIF_ASSERT((in_af & 1) ? (G_af_parent == 1 && G_af_locked == 1 && G_af_before == 0 && G_af_child == 0 && (!G_flagop_seq_last || G_af_seq > G_flagop_seq_last)) : G_af_parent == 0, "call_rcu_after_fork_parent: hash-table hook once, under the mutex, after the helpers were resumed");
	VERIF_ASSERT(G_os_locks_held == 0 && OS_HELD(&call_rcu_mutex) == 0 && G_unlock_seq == G_seq, "call_rcu_after_fork_parent: call_rcu_mutex released, as the last step");
	VERIF_ASSERT(!G_bad && G_calls == 0, "call_rcu_after_fork_parent: flags changed only under the mutex; no callback invoked");
	VERIF_COVER(G_n == 2 && G_polls >= 3); VERIF_COVER(G_n == 0); VERIF_COVER(G_n == 1 && (in_af & 1));
}

/* helper side: one pass of call_rcu_thread with a pause request pending */
void h_helper_pause(void)
{
	struct call_rcu_data c; unsigned long n, k;
	VIN(unsigned long, in_n); VIN(unsigned long, in_rt); VIN(unsigned long, in_delay);
	n = in_n % 3;
	q_init(&c); G_crdp = &c; G_mode = 3; G_gp = 0; G_calls = 0; G_bad = 0; G_registered = 0; G_polls = 0;
	for (k = 0; k < 2; k++) if (k < n) q_put(&c, &IT[k]);
	G_q_first = c.cbs_head.node.next; G_q_tail = c.cbs_tail.p;
	G_delay[0] = in_delay % 3;
	c.flags = URCU_CALL_RCU_STOP | URCU_CALL_RCU_PAUSE | ((in_rt & 1) ? URCU_CALL_RCU_RT : 0);	/* STOP: exactly one pass */
	(void) call_rcu_thread(&c);
	VERIF_ASSERT(G_polls >= 1 && !G_bad, "helper pause: while PAUSE is set the helper has announced PAUSED, is NOT a registered reader, and has touched neither its queue nor any callback (fork may copy the address space at any such instant)");
	VERIF_ASSERT(G_paused_set_registered == 0, "helper pause: unregisters as a reader BEFORE announcing PAUSED");
	VERIF_ASSERT(G_paused_clr_pause == 0 && !(c.flags & (URCU_CALL_RCU_PAUSE | URCU_CALL_RCU_PAUSED)), "helper pause: drops PAUSED only after PAUSE was cleared");
	VERIF_ASSERT(G_calls == n && (n < 1 || G_called[0] == &IT[0].head) && (n < 2 || G_called[1] == &IT[1].head) && G_gp == (n ? 1 : 0), "helper pause: after resuming, the callbacks queued at fork time run exactly once each, in order, after a grace period");
	VERIF_ASSERT(G_registered == 0 && (c.flags & URCU_CALL_RCU_STOPPED), "helper: unregistered again at exit");
	VERIF_COVER(n == 2 && G_polls == 3); VERIF_COVER(n == 0);
}

/* child side */
unsigned long in_percpu, in_used;
void h_after_fork_child(void)
{
	struct call_rcu_data *nd; struct cds_wfcq_node *p; unsigned long k, cnt = 0, seen[2] = { 0, 0 }, expect = 0; struct call_rcu_data **pc = 0;
	mk_helpers(URCU_CALL_RCU_PAUSE | URCU_CALL_RCU_PAUSED); G_mode = 4;
	VIN(unsigned long, in_percpu);
	/* H[0] is the inherited default helper, H[1] e.g. a per-thread one - or the process only ever used per-thread / per-CPU
	 * helpers and never created the default one */
	default_call_rcu_data = (G_n && !(in_percpu & 2)) ? H[0] : 0;
	if (in_percpu & 1) { pc = malloc(2 * sizeof(*pc)); VERIF_REQUIRE(pc != 0); pc[0] = H[1]; pc[1] = 0; }
	per_cpu_call_rcu_data = pc; cpus_array_len = (in_percpu & 1) ? 2 : 0;
	URCU_TLS(thread_call_rcu_data) = G_n == 2 ? H[1] : 0;
	call_rcu_lock(&call_rcu_mutex); G_seq = 0; G_free_calls = 0; G_os_thread_created = 0; G_os_thread_joined = 0; G_os_sig_blocked = 0x20;
	call_rcu_after_fork_child();
	VERIF_ASSERT(G_os_locks_held == 0 && OS_HELD(&call_rcu_mutex) == 0, "call_rcu_after_fork_child: call_rcu_mutex released");
	VERIF_ASSERT((in_af & 1) ? (G_af_child == 1 && G_af_before == 0 && G_af_parent == 0) : G_af_child == 0, "call_rcu_after_fork_child: hash-table hook exactly once");
	VERIF_ASSERT(!G_bad && G_polls == 0 && G_os_thread_joined == 0, "call_rcu_after_fork_child: never waits for nor joins an inherited helper thread (it does not exist in the child)");
	VERIF_ASSERT(G_calls == 0, "call_rcu_after_fork_child: the handler itself invokes no callback");
	if (G_n == 0) {
		VERIF_ASSERT(G_os_thread_created == 0 && default_call_rcu_data == 0 && G_free_calls == 0 && cds_list_empty(&call_rcu_data_list), "call_rcu_after_fork_child: call_rcu never used => nothing created, nothing freed");
	} else {
		nd = default_call_rcu_data;
		VERIF_ASSERT(nd != 0 && nd != H[0] && nd != H[1], "call_rcu_after_fork_child: a NEW default helper structure");
		VERIF_ASSERT(G_os_thread_created == 1 && G_created_fn == (void *) call_rcu_thread && G_created_arg == (void *) nd && G_created_sigmask == ~0UL && G_os_sig_blocked == 0x20, "call_rcu_after_fork_child: exactly one new helper thread, running call_rcu_thread on the new default helper, created with all signals blocked; mask restored");
		VERIF_ASSERT(!(nd->flags & (URCU_CALL_RCU_PAUSE | URCU_CALL_RCU_PAUSED | URCU_CALL_RCU_STOP | URCU_CALL_RCU_STOPPED)), "call_rcu_after_fork_child: the new helper starts unpaused");
		VERIF_ASSERT(call_rcu_data_list.next == &nd->list && nd->list.next == &call_rcu_data_list && call_rcu_data_list.prev == &nd->list, "call_rcu_after_fork_child: the list of helpers holds the new default helper only");
		VERIF_ASSERT(per_cpu_call_rcu_data == 0 && URCU_TLS(thread_call_rcu_data) == 0 && cpus_array_len == 0, "call_rcu_after_fork_child: per-CPU table and the thread's helper pointer dropped (they named threads that no longer exist)");
		for (k = 0; k < NH; k++) if (k < G_n) {
			VERIF_ASSERT(H[k]->flags == URCU_CALL_RCU_STOPPED, "call_rcu_after_fork_child: every inherited helper is marked STOPPED");
			VERIF_ASSERT(H[k]->cbs_head.node.next == 0 && H[k]->cbs_tail.p == &H[k]->cbs_head.node, "call_rcu_after_fork_child: its queue was emptied");
			if ((in_q >> k) & 1) expect++;
		}
		/* callbacks inherited at fork time: on the new default helper, each exactly once */
		for (p = nd->cbs_head.node.next; p != 0 && cnt < 4; p = p->next) {
			if (p == &IT[0].head.next) seen[0]++;
			else if (p == &IT[1].head.next) seen[1]++;
			else G_bad |= 32;
			cnt++;
		}
		VERIF_ASSERT(!G_bad && cnt == expect && nd->qlen == expect, "call_rcu_after_fork_child: the new default helper's queue holds only inherited callbacks, qlen matches");
		for (k = 0; k < NH; k++) if (k < G_n)
			VERIF_ASSERT(seen[k] == ((in_q >> k) & 1), "call_rcu_after_fork_child: every callback queued at fork time is queued exactly once in the child (it runs once there)");
		VERIF_ASSERT(G_free_calls == G_n + 1, "call_rcu_after_fork_child: the per-CPU table and each inherited helper freed exactly once");
		VERIF_ASSERT(G_free_ptr[0] == (void *) pc && (G_free_ptr[1] == (void *) H[0] || G_free_ptr[1] == (void *) H[1]) && (G_n < 2 || (G_free_ptr[2] != G_free_ptr[1] && (G_free_ptr[2] == (void *) H[0] || G_free_ptr[2] == (void *) H[1]))), "call_rcu_after_fork_child: frees are the table and the inherited helpers, no double free");
	}
	VERIF_COVER(G_n == 2 && (in_q & 3) == 3 && (in_percpu & 1)); VERIF_COVER(G_n == 0); VERIF_COVER(G_n == 1 && (in_q & 1) == 0); VERIF_COVER(G_n == 1 && (in_percpu & 2) && (in_q & 1));
}
