/* native replay of C13.O6 against the real sources of the working tree:
 * register, queue one call, barrier, unregister, register again. */
#define RCU_MEMBARRIER
#include "urcu.c"
#include <unistd.h>
static int ran;
static void cb(void *p) { (void) p; ran++; }
int main(void)
{
	alarm(20);
	urcu_memb_register_thread();
	if (urcu_memb_defer_register_thread()) return 3;
	urcu_memb_defer_rcu(cb, (void *) 0x10);
	urcu_memb_defer_barrier();
	urcu_memb_defer_unregister_thread();
	printf("unregistered, callback ran %d time(s); registering again...\n", ran);
	fflush(stdout);
	if (urcu_memb_defer_register_thread()) return 3;	/* aborts on the defective tree */
	urcu_memb_defer_rcu(cb, (void *) 0x20);
	urcu_memb_defer_unregister_thread();
	urcu_memb_unregister_thread();
	printf("REPLAY-PASS ran=%d\n", ran);
	return ran == 2 ? 0 : 1;
}
