/*
 * C13 - flush, grace period before invocation, barrier over all queues, unregister / re-register.
 * rcu_defer_barrier_queue is used through its contract (proved in C13.O2.decode).
 */
#include <verif/verif.h>
#define OS_JOIN_HOOK
#include <verif/os_stubs.h>

#define RCU_MEMBARRIER
#define SRC "urcu.c"
#define SYNC urcu_memb_synchronize_rcu
#define BARRIER_THREAD urcu_memb_defer_barrier_thread
#define BARRIER urcu_memb_defer_barrier
#define REGISTER urcu_memb_defer_register_thread
#define UNREGISTER urcu_memb_defer_unregister_thread

#include <verif/flavor_pre.h>
#include <verif/atomics_seq.h>
#include SRC

#define QSZ 4096UL
#define QMASK (QSZ - 1)
#define MARK ((void *) ~1UL)

unsigned long G_gp;
/* ghost log of rcu_defer_barrier_queue calls (contract) */
unsigned long G_bq_calls;
struct defer_queue *G_bq_queue[3];
unsigned long G_bq_head[3], G_bq_gp[3];
/* queues whose head other threads may advance while we wait for the grace period */
struct defer_queue *G_envq;
unsigned long G_env_head_before;

/* contract of rcu_defer_barrier_queue, proved by C13.O2.decode: invokes exactly the entries in [tail, head) */
static void rcu_defer_barrier_queue(struct defer_queue *queue, unsigned long head)
__CPROVER_requires(head - queue->tail <= QSZ && G_bq_calls < 3)
__CPROVER_assigns(queue->tail, queue->last_fct_out, G_bq_calls, G_bq_queue[G_bq_calls], G_bq_head[G_bq_calls], G_bq_gp[G_bq_calls])
__CPROVER_ensures(queue->tail == head)
__CPROVER_ensures(G_bq_calls == __CPROVER_old(G_bq_calls) + 1)
__CPROVER_ensures(G_bq_queue[__CPROVER_old(G_bq_calls)] == queue && G_bq_head[__CPROVER_old(G_bq_calls)] == head && G_bq_gp[__CPROVER_old(G_bq_calls)] == G_gp)
;

/* assumed contract of synchronize_rcu (C01); meanwhile the owner of G_envq may queue more calls */
void SYNC(void)
__CPROVER_assigns(G_gp, G_envq->head)
__CPROVER_ensures(G_gp == __CPROVER_old(G_gp) + 1)
__CPROVER_ensures(G_envq->head - __CPROVER_old(G_envq->head) <= QSZ - (__CPROVER_old(G_envq->head) - G_envq->tail))
;

/* contract of rcu_defer_barrier_thread for its use inside _defer_rcu (proved below: h_barrier_thread) */
void BARRIER_THREAD(void)
__CPROVER_assigns(defer_queue.tail, defer_queue.last_fct_out, G_gp, G_bq_calls)
__CPROVER_ensures(defer_queue.tail == defer_queue.head)
;

static void os_join_hook(void)
{
	/* the joined reclaimer thread has exited: wait_defer() resets the futex before pthread_exit() */
	defer_thread_futex = 0;
}

unsigned long in_head, in_tail, in_fct, in_p, in_last, in_last_head, in_other;
static struct defer_queue other_q;
static struct defer_queue dummy_q;

static void own_queue(void)
{
	VIN(unsigned long, in_head); VIN(unsigned long, in_tail); VIN(unsigned long, in_last_head);
	defer_queue.head = in_head; defer_queue.tail = in_tail; defer_queue.last_head = in_last_head;
	defer_queue.last_fct_in = nondet_ptr(); defer_queue.last_fct_out = nondet_ptr();
	defer_queue.q = malloc(QSZ * sizeof(void *));
	VERIF_REQUIRE(defer_queue.q != 0);
	VERIF_REQUIRE(in_head - in_tail <= QSZ);
	G_gp = 1; G_bq_calls = 0; G_envq = &dummy_q;
	defer_thread_futex = 0; defer_thread_stop = 0;
}

/* ---- O4: a full queue is flushed first, capacity never exceeded ---------------------------- */
void h_flush(void)
{
	unsigned long k;
	own_queue();
	VIN(unsigned long, in_fct); VIN(unsigned long, in_p);
	VERIF_REQUIRE(in_head - in_tail >= QSZ - 2);
	_defer_rcu((void (*)(void *)) in_fct, (void *) in_p);
	k = defer_queue.head - in_head;
	VERIF_ASSERT(k >= 1 && k <= 3, "flush: the new entry is queued");
	VERIF_ASSERT(defer_queue.tail == in_head, "flush: everything queued before was drained first");
	VERIF_ASSERT(defer_queue.head - defer_queue.tail <= QSZ, "flush: capacity never exceeded");
	VERIF_COVER(in_head - in_tail == QSZ - 2); VERIF_COVER(in_head - in_tail == QSZ);
}

/* threshold: with fewer than SIZE-2 slots in use nothing is flushed and the entry still fits */
void h_noflush(void)
{
	own_queue();
	VIN(unsigned long, in_fct); VIN(unsigned long, in_p);
	VERIF_REQUIRE(in_head - in_tail < QSZ - 2);
	_defer_rcu((void (*)(void *)) in_fct, (void *) in_p);
	VERIF_ASSERT(defer_queue.tail == in_tail, "no flush below the threshold");
	VERIF_ASSERT(defer_queue.head - defer_queue.tail <= QSZ, "capacity never exceeded");
	VERIF_COVER(in_head - in_tail == QSZ - 3 && defer_queue.head - in_head == 3);
}

/* ---- O5a: rcu_defer_barrier_thread ------------------------------------------------------- */
void h_barrier_thread(void)
{
	own_queue();
	BARRIER_THREAD();
	if (in_head == in_tail) {
		VERIF_ASSERT(G_gp == 1 && G_bq_calls == 0, "barrier_thread: nothing queued => no grace period, no call");
	} else {
		VERIF_ASSERT(G_bq_calls == 1 && G_bq_queue[0] == &defer_queue, "barrier_thread: own queue drained once");
		VERIF_ASSERT(G_bq_head[0] == in_head, "barrier_thread: drains up to the head snapshot taken BEFORE the grace period");
		VERIF_ASSERT(G_bq_gp[0] == 2, "barrier_thread: a grace period lies between the snapshot and the invocations");
	}
	VERIF_ASSERT(defer_queue.tail == defer_queue.head, "barrier_thread: queue empty afterwards");
	VERIF_ASSERT(G_os_locks_held == 0, "barrier_thread: rcu_defer_mutex released");
	VERIF_COVER(in_head != in_tail); VERIF_COVER(in_head == in_tail);
}

/* ---- O5b/O6: rcu_defer_barrier over the registry (own queue + one other thread's queue) ---- */
void h_barrier_all(void)
{
	unsigned long oh, ot;
	own_queue();
	oh = nondet_ulong(); ot = nondet_ulong();
	VERIF_REQUIRE(oh - ot <= QSZ);
	other_q.head = oh; other_q.tail = ot; other_q.q = malloc(QSZ * sizeof(void *));
	other_q.last_head = nondet_ulong();
	CDS_INIT_LIST_HEAD(&registry_defer);
	cds_list_add(&defer_queue.list, &registry_defer);
	cds_list_add(&other_q.list, &registry_defer);
	G_envq = &other_q;	/* the other thread keeps queueing during the grace period */

	BARRIER();

	if (in_head == in_tail && oh == ot) {
		VERIF_ASSERT(G_gp == 1 && G_bq_calls == 0, "barrier: nothing queued anywhere => no grace period, no call");
	} else {
		VERIF_ASSERT(G_gp == 2, "barrier: exactly one grace period");
		VERIF_ASSERT(G_bq_calls == 2, "barrier: every registered queue is drained");
		VERIF_ASSERT(G_bq_queue[0] == &other_q && G_bq_queue[1] == &defer_queue, "barrier: each registered queue exactly once");
		VERIF_ASSERT(G_bq_head[0] == oh && G_bq_head[1] == in_head, "barrier: each queue is drained up to its head snapshot taken BEFORE the grace period (later entries wait for the next one)");
		VERIF_ASSERT(G_bq_gp[0] == 2 && G_bq_gp[1] == 2, "barrier: invocations only after the grace period");
	}
	VERIF_ASSERT(G_os_locks_held == 0, "barrier: rcu_defer_mutex released");
	VERIF_COVER(oh != ot && in_head == in_tail); VERIF_COVER(other_q.head != oh);
}

/* ---- O6: unregister drains and leaves a state from which register works again ------------- */
void h_unregister_register(void)
{
	int r;
	own_queue();
	VIN(unsigned long, in_other);
	CDS_INIT_LIST_HEAD(&registry_defer);
	if (in_other & 1) {
		other_q.head = other_q.tail = 0;
		cds_list_add(&other_q.list, &registry_defer);
	}
	cds_list_add(&defer_queue.list, &registry_defer);
	G_os_thread_created = 1; G_os_thread_joined = 0;

	UNREGISTER();

	VERIF_ASSERT(defer_queue.tail == defer_queue.head, "unregister: returns only after every queued call has run");
	VERIF_ASSERT(in_head == in_tail || (G_bq_calls == 1 && G_bq_gp[0] == 2 && G_bq_head[0] == in_head), "unregister: queued calls run after a grace period");
	VERIF_ASSERT(defer_queue.q == 0, "unregister: ring released");
	VERIF_ASSERT(G_os_thread_joined == ((in_other & 1) ? 0 : 1), "unregister: reclaimer stopped iff the registry became empty");
	VERIF_ASSERT(G_os_locks_held == 0, "unregister: locks released");

	r = REGISTER();		/* the real function's own entry assertions (last_head == 0, q == NULL) are obligations */

	VERIF_ASSERT(r == 0 || r == -ENOMEM, "register: 0 or -ENOMEM");
	if (r == 0) {
		VERIF_ASSERT(defer_queue.q != 0, "re-register: ring allocated");
		VERIF_ASSERT(registry_defer.next == &defer_queue.list, "re-register: queue is on the registry again");
		VERIF_ASSERT(defer_queue.head == defer_queue.tail, "re-register: queue starts empty");
		VERIF_ASSERT(G_os_thread_created == ((in_other & 1) ? 1 : 2), "re-register: reclaimer restarted iff the registry was empty");
	}
	VERIF_ASSERT(G_os_locks_held == 0, "register: locks released");
	VERIF_COVER(r == 0 && (in_other & 1) && in_last_head != 0); VERIF_COVER(r == 0 && !(in_other & 1) && in_head != in_tail);
}
