/*
 * C13 - defer_rcu(): encode / decode / round trip / flush / grace period / registration.
 * Real text: src/urcu-defer-impl.h as included by src/urcu.c (memb flavor TU by default).
 * Scratch-mirror rewrites (must-fire, engine/rewrites.py group 'defer'): DQ_FCT_MARK widening,
 * `fct(p)` -> URCU_VERIF_CALL(fct, p), loop-contract marker on the decode loop.
 */
#include <verif/verif.h>
#include <verif/os_stubs.h>

#if defined(FLAVOR_QSBR)
# define SRC "urcu-qsbr.c"
# define SYNC urcu_qsbr_synchronize_rcu
# define DEFER_RCU urcu_qsbr_defer_rcu
#elif defined(FLAVOR_BP)
# define SRC "urcu-bp.c"
# define SYNC urcu_bp_synchronize_rcu
# define DEFER_RCU urcu_bp_defer_rcu
#elif defined(FLAVOR_MB)
# define RCU_MB
# define SRC "urcu.c"
# define SYNC urcu_mb_synchronize_rcu
# define DEFER_RCU urcu_mb_defer_rcu
#else
# define RCU_MEMBARRIER
# define SRC "urcu.c"
# define SYNC urcu_memb_synchronize_rcu
# define DEFER_RCU urcu_memb_defer_rcu
#endif

#include <verif/flavor_pre.h>

/* ---------------- ghost state ------------------------------------------------------------- */
#define QSZ 4096UL
#define QMASK (QSZ - 1)
#define MARK ((void *) ~1UL)

unsigned long G_N;		/* number of entries in the ghost table                      */
unsigned long *G_off;		/* G_off[j]: slot offset of entry j relative to G_tail0; [N] = end */
unsigned char *G_kind;		/* 1, 2 or 3 slots                                           */
void **G_fct, **G_p;		/* the (function, argument) pair of entry j                  */
void **G_q;			/* the ring                                                  */
unsigned long G_tail0;		/* queue->tail at entry                                      */
void *G_L0;			/* queue->last_fct_out at entry                              */
unsigned long G_j;		/* number of calls performed so far (= index of next entry)   */
unsigned long G_gp;		/* number of synchronize_rcu() so far                        */
unsigned long G_gp_at_call;	/* G_gp when the first callback was invoked                  */
unsigned long G_mb_since_qload;	/* a full barrier was executed after the last load of a slot  */
unsigned long G_tail_store_ok;	/* the store to tail was preceded by such a barrier          */
unsigned long G_wmb_since_qstore, G_head_store_ok, G_mb_after_head;
void *G_head_addr, *G_tail_addr;

#define Q(x) (G_q[(x) & QMASK])

/* mono(j): every later entry needs at least one slot (derived fact of a well-formed table) */
static inline _Bool mono(unsigned long j)
{
	return G_off[j] + (G_N - j) <= G_off[G_N];
}

/* enc_inv(j): entry j of the table is encoded at its offset exactly as _defer_rcu() documents */
static inline _Bool enc_inv(unsigned long j)
{
	unsigned long o = G_tail0 + G_off[j];
	void *f = G_fct[j], *p = G_p[j];
	void *prev = j == 0 ? G_L0 : G_fct[j - 1];
	unsigned k = G_kind[j];

	if (G_off[j + 1] != G_off[j] + k) return 0;
	if (k == 1)
		return f == prev && !((unsigned long) p & 1) && p != MARK && Q(o) == p;
	if (k == 2)
		return !((unsigned long) f & 1) && Q(o) == (void *) ((unsigned long) f | 1) && Q(o + 1) == p;
	if (k == 3)
		return Q(o) == MARK && Q(o + 1) == f && Q(o + 2) == p;
	return 0;
}

#ifdef DECODE_MODE
/* forall-elimination of the table invariant at the entry being decoded (memory the decoder never writes) */
static inline void inst_hook(void)
{
	if (G_j < G_N) {
		__CPROVER_assume(enc_inv(G_j)); /*A:precondition-instantiation*/
		__CPROVER_assume(mono(G_j + 1)); /*A:precondition-instantiation*/
	}
}
static inline void load_hook(void *a) { if (a != G_head_addr && a != G_tail_addr) { inst_hook(); G_mb_since_qload = 0; } }
#define VERIF_LOAD_HOOK(a)	load_hook((void *)(a))
#endif

#define VERIF_EVT(kind, addr, mo, val) verif_evt((kind), (void *)(addr))
static inline void verif_evt(int kind, void *addr);
#include <verif/atomics_seq.h>
static inline void verif_evt(int kind, void *addr)
{
	if (kind == EV_MB) { G_mb_since_qload = 1; if (G_head_store_ok) G_mb_after_head = 1; }
	if (kind == EV_WMB || kind == EV_MB) G_wmb_since_qstore = 1;
	if (kind == EV_STORE && addr == G_tail_addr) G_tail_store_ok = G_mb_since_qload;
	if (kind == EV_STORE && addr == G_head_addr) G_head_store_ok = G_wmb_since_qstore;
	if (kind == EV_STORE && addr != G_head_addr && addr != G_tail_addr) G_wmb_since_qstore = 0;
}

#undef URCU_VERIF_CALL
#define URCU_VERIF_CALL(f, a) verif_call((void *)(f), (void *)(a))
static void verif_call(void *f, void *a);

#ifdef DECODE_MODE
#undef URCU_VERIF_LOOP_defer_decode
#define URCU_VERIF_LOOP_defer_decode							\
	__CPROVER_assigns(i, p, fct, G_j, queue->last_fct_out, G_mb_since_qload, G_gp_at_call)	\
	__CPROVER_loop_invariant(G_j <= G_N && i == G_tail0 + G_off[G_j])		\
	__CPROVER_loop_invariant(G_off[G_j] + (G_N - G_j) <= G_off[G_N])		\
	__CPROVER_loop_invariant(queue->last_fct_out == (G_j == 0 ? G_L0 : G_fct[G_j - 1]))	\
	__CPROVER_loop_invariant(G_j == 0 || G_gp_at_call == G_gp)			\
	__CPROVER_decreases(G_N - G_j)
#endif

#include SRC

static void verif_call(void *f, void *a)
{
	VERIF_ASSERT(G_j < G_N, "decode: no call beyond the queued entries");
	VERIF_ASSERT(f == G_fct[G_j], "decode: function of the j-th call is the j-th queued function");
	VERIF_ASSERT(a == G_p[G_j], "decode: argument of the j-th call is exactly the j-th queued argument");
	if (G_j == 0) G_gp_at_call = G_gp;
#ifdef DECODE_MODE
	VERIF_COVER(G_j == 2 && G_kind[0] == 3 && G_kind[1] == 1 && G_kind[2] == 2);
	VERIF_COVER(G_j >= 1 && ((G_tail0 + G_off[G_j]) & QMASK) == QMASK && G_kind[G_j] == 3);	/* straddles the wrap */
	VERIF_COVER(((unsigned long) a & 1) && a != MARK);
	VERIF_COVER(a == MARK);
	VERIF_COVER(f == MARK);
#endif
	G_j++;
}

/* assumed contract of synchronize_rcu (C01): a grace period elapses */
void SYNC(void)
__CPROVER_assigns(G_gp)
__CPROVER_ensures(G_gp == __CPROVER_old(G_gp) + 1)
;

static void table_alloc(void)
{
	G_N = nondet_ulong();
	VERIF_REQUIRE(G_N <= QSZ);
	G_off = malloc((QSZ + 2) * sizeof(*G_off));
	G_kind = malloc((QSZ + 1) * sizeof(*G_kind));
	G_fct = malloc((QSZ + 1) * sizeof(*G_fct));
	G_p = malloc((QSZ + 1) * sizeof(*G_p));
	G_q = malloc(QSZ * sizeof(*G_q));
	VERIF_REQUIRE(G_off && G_kind && G_fct && G_p && G_q);
	/* global facts of a well-formed table */
	VERIF_REQUIRE(G_off[0] == 0 && G_off[G_N] <= QSZ);
	VERIF_REQUIRE(mono(0));
}

/* ---- O2: decode -------------------------------------------------------------------------- */
#ifdef DECODE_MODE
void h_decode(void)
{
	struct defer_queue dq;
	unsigned long head, w;
	void *wv;

	table_alloc();
	G_tail0 = nondet_ulong();
	G_L0 = nondet_ptr();
	head = G_tail0 + G_off[G_N];
	dq.head = nondet_ulong(); dq.tail = G_tail0; dq.last_fct_in = nondet_ptr(); dq.last_fct_out = G_L0;
	dq.q = G_q; dq.last_head = nondet_ulong();
	G_head_addr = &dq.head; G_tail_addr = &dq.tail;
	G_j = 0; G_gp = 1; G_mb_since_qload = 0; G_tail_store_ok = 0;
	w = nondet_ulong(); VERIF_REQUIRE(w < QSZ); wv = G_q[w];

	rcu_defer_barrier_queue(&dq, head);

	VERIF_ASSERT(G_j == G_N, "decode: every queued entry was invoked (each once, in order)");
	VERIF_ASSERT(dq.tail == head, "decode: tail advanced to the snapshot of head");
	VERIF_ASSERT(dq.last_fct_out == (G_N == 0 ? G_L0 : G_fct[G_N - 1]), "decode: last_fct_out is the last function");
	VERIF_ASSERT(G_q[w] == wv, "decode: ring slots are not modified");
	VERIF_ASSERT(G_tail_store_ok, "decode: tail is published after a full barrier that follows the last slot read");
	VERIF_COVER(G_N > 5);
}
#endif

/* ---- O1/O3: encode + round trip ------------------------------------------------------------ */
unsigned long in_head, in_tail, in_fct, in_p, in_last, in_w, in_qw0, in_qw1, in_qw2;

#ifdef ENCODE_MODE
void h_encode(void)
{
	unsigned long head0, used, k, w;
	void *fct, *p, *last, *wv;
	struct defer_queue *dq = &defer_queue;

	VIN(unsigned long, in_head); VIN(unsigned long, in_tail); VIN(unsigned long, in_fct);
	VIN(unsigned long, in_p); VIN(unsigned long, in_last); VIN(unsigned long, in_w);
	head0 = in_head; fct = (void *) in_fct; p = (void *) in_p; last = (void *) in_last;
	G_q = malloc(QSZ * sizeof(*G_q));
	VERIF_REQUIRE(G_q != 0);
	used = head0 - in_tail;
	VERIF_REQUIRE(used < QSZ - 2);			/* no flush needed (flush: h_flush) */
	dq->head = head0; dq->tail = in_tail; dq->last_fct_in = last; dq->last_fct_out = nondet_ptr();
	dq->q = G_q; dq->last_head = nondet_ulong();
	G_head_addr = &dq->head; G_tail_addr = &dq->tail;
	defer_thread_futex = 0;
	w = in_w; VERIF_REQUIRE(w < QSZ); wv = G_q[w];
	G_wmb_since_qstore = 0; G_head_store_ok = 0; G_mb_after_head = 0;

	_defer_rcu((void (*)(void *)) fct, p);

	k = dq->head - head0;
	VERIF_ASSERT(k >= 1 && k <= 3, "encode: 1, 2 or 3 slots consumed");
	VERIF_ASSERT(dq->head - dq->tail <= QSZ, "encode: capacity never exceeded");
	VERIF_ASSERT(dq->last_fct_in == fct, "encode: last_fct_in is the queued function");
	VERIF_ASSERT(dq->tail == in_tail, "encode: tail untouched");
	/* the slots written are a valid encoding (the decoder's table invariant for a new last entry) */
	if (k == 1)
		VERIF_ASSERT(fct == last && !(in_p & 1) && p != MARK && Q(head0) == p, "encode: 1-slot form only when function unchanged, argument even and not the marker");
	else if (k == 2)
		VERIF_ASSERT(!(in_fct & 1) && fct != MARK && Q(head0) == (void *) (in_fct | 1) && Q(head0 + 1) == p, "encode: 2-slot form = function|FCT_BIT, argument");
	else
		VERIF_ASSERT(Q(head0) == MARK && Q(head0 + 1) == fct && Q(head0 + 2) == p, "encode: 3-slot form = marker, function, argument");
	VERIF_ASSERT(((w - head0) & QMASK) < k || G_q[w] == wv, "encode: no other slot is written");
	VERIF_ASSERT(G_head_store_ok, "encode: slots are written before head is published (write barrier in between)");
	VERIF_ASSERT(G_mb_after_head, "encode: full barrier between publishing head and testing the reclaimer futex");
	VERIF_COVER(k == 1); VERIF_COVER(k == 2); VERIF_COVER(k == 3);
	VERIF_COVER(k == 3 && (head0 & QMASK) == QMASK - 1);
	VERIF_COVER(k == 2 && (in_p & 1));
}

/* round trip: what _defer_rcu() queues on a drained queue is what rcu_defer_barrier_queue() invokes */
void h_roundtrip(void)
{
	void *fct, *p;
	struct defer_queue *dq = &defer_queue;
	unsigned long h0;

	VIN(unsigned long, in_head); VIN(unsigned long, in_fct); VIN(unsigned long, in_p); VIN(unsigned long, in_last);
	fct = (void *) in_fct; p = (void *) in_p;
	G_q = malloc(QSZ * sizeof(*G_q));
	VERIF_REQUIRE(G_q != 0);
	/* drained queue: tail == head, and the decoder's function register equals the encoder's */
	h0 = in_head;
	dq->head = h0; dq->tail = h0; dq->last_fct_in = (void *) in_last; dq->last_fct_out = (void *) in_last;
	dq->q = G_q;
	G_head_addr = &dq->head; G_tail_addr = &dq->tail;
	defer_thread_futex = 0;
	/* one-entry table */
	G_N = 1; G_j = 0; G_gp = 1;
	G_fct = malloc(2 * sizeof(*G_fct)); G_p = malloc(2 * sizeof(*G_p)); G_kind = malloc(2);
	VERIF_REQUIRE(G_fct && G_p && G_kind);
	G_fct[0] = fct; G_p[0] = p;

	_defer_rcu((void (*)(void *)) fct, p);
	rcu_defer_barrier_queue(dq, dq->head);

	VERIF_ASSERT(G_j == 1, "round trip: exactly one call");
	VERIF_ASSERT(dq->tail == dq->head, "round trip: queue drained");
	VERIF_ASSERT(dq->last_fct_out == dq->last_fct_in, "round trip: decoder and encoder function registers agree again");
	VERIF_COVER(in_fct & 1); VERIF_COVER(p == MARK); VERIF_COVER(fct == MARK); VERIF_COVER(in_fct == in_last && !(in_p & 1));
}
#endif

#ifdef VERIF_NATIVE
int main(void) { VERIF_ENTRY(); printf("REPLAY-PASS\n"); return 0; }
#endif
