/*
 * C13.O7 - the background reclaimer of defer_rcu (src/urcu-defer-impl.h, memb TU): sleep / wake handshake between
 * _defer_rcu (producer), wait_defer / thr_defer (reclaimer) and stop_defer_thread.
 *   producer : the queue head is published, then a FULL barrier, then the futex is tested; FUTEX_WAKE iff it was -1;
 *   reclaimer: futex decremented to -1, full barrier, THEN stop flag and queues are examined; it sleeps (FUTEX_WAIT on -1)
 *              only if, after that barrier, stop was clear and every registered queue was empty; callbacks queued =>
 *              futex reset to 0, no sleep; stop => futex reset to 0 before the thread exits; tolerant of spurious
 *              wake-ups / EINTR / EAGAIN;
 *   stop     : stop flag stored, full barrier, then wake-up; joins; flag cleared afterwards;
 *   thr_defer: after every wake-up one rcu_defer_barrier() (so queued calls run without any further API call).
 */
#include <verif/verif.h>
#define OS_JOIN_HOOK
#define OS_FUTEX_HOOK
#define OS_POLL_HOOK
#include <verif/os_stubs.h>
#define RCU_MEMBARRIER
#include <verif/flavor_pre.h>
static void evt(int kind, void *addr, int mo, unsigned long val);
#define VERIF_EVT(kind, addr, mo, val) evt((kind), (void *)(addr), (int)(mo), (unsigned long)(val))
unsigned long G_exited, G_exit_futex;
extern int32_t defer_thread_futex_alias;
static void verif_pthread_exit(void);
#define pthread_exit(r) verif_pthread_exit()
#include <verif/atomics_seq.h>
#include "urcu.c"
#undef pthread_exit

unsigned long E_head_stores, E_mb_after_head, E_futex_loads, E_futex_load_fenced, E_dec, E_mb_after_dec, E_stop_load_ok, E_head_load_ok, E_head_loads, E_stop_stores, E_mb_after_stop, E_wait_calls, E_wait_bad;
unsigned long G_mode, G_q_nonempty_seen, G_stop_seen;
struct defer_queue OQ;				/* another thread's registered queue */
static void verif_pthread_exit(void)
{
	G_exited = 1;
	VERIF_ASSERT(defer_thread_stop == 1 && defer_thread_futex == 0 && E_stop_load_ok, "wait_defer: the reclaimer exits only on the stop flag (read after decrement + barrier) and resets the futex to 0 first (stop_defer_thread relies on it)");
#ifdef E_STOP
	VERIF_COVER(G_exited == 1);
#endif
	__CPROVER_assume(0); /*A:noreturn pthread_exit does not return*/
}
static void evt(int kind, void *addr, int mo, unsigned long val)
{
	(void) mo;
	if (kind == EV_STORE && addr == (void *) &URCU_TLS(defer_queue).head) { E_head_stores++; E_mb_after_head = 0; }
	if (kind == EV_STORE && addr == (void *) &defer_thread_stop && val == 1) { E_stop_stores++; E_mb_after_stop = 0; }
	if (kind == EV_MB) { if (E_head_stores) E_mb_after_head = 1; if (E_dec) E_mb_after_dec = 1; if (E_stop_stores) E_mb_after_stop = 1; }
	if (kind == EV_LOAD && addr == (void *) &defer_thread_futex) {
		E_futex_loads++;
		if (G_mode == 1) E_futex_load_fenced = E_mb_after_head;
		if (G_mode == 3) E_futex_load_fenced = E_mb_after_stop;
	}
	if ((kind == EV_ADD || kind == EV_ADDRET) && addr == (void *) &defer_thread_futex) { E_dec++; E_mb_after_dec = 0; }
	if (kind == EV_LOAD && addr == (void *) &defer_thread_stop) { E_stop_load_ok = E_dec && E_mb_after_dec; G_stop_seen = defer_thread_stop; }
	if (kind == EV_LOAD && (addr == (void *) &OQ.head || addr == (void *) &URCU_TLS(defer_queue).head)) { E_head_loads++; E_head_load_ok = E_dec && E_mb_after_dec; }
}
/* FUTEX_WAIT: legal only on -1, with stop clear and the queues seen empty after the barrier; the producer wakes us */
static void os_futex_hook(int *uaddr, int op, int val)
{
	if (op != 0 /* FUTEX_WAIT */) return;
	E_wait_calls++;
	if (uaddr != (int *) &defer_thread_futex || val != -1 || !(E_dec && E_mb_after_dec && E_stop_load_ok && E_head_load_ok) || G_stop_seen || G_q_nonempty_seen) E_wait_bad = 1;
	if (nondet_bool()) defer_thread_futex = 0;		/* woken for real - or spuriously (value still -1) */
}
unsigned long G_barriers, G_polls_seen;
static int os_poll_hook(void)
{
	G_polls_seen++;
	if (G_mode == 4) {
		VERIF_ASSERT(G_barriers + 1 == G_polls_seen, "thr_defer: every wake-up is followed by exactly one rcu_defer_barrier() before the next wait");
#ifdef E_THR
		VERIF_COVER(G_polls_seen == 2);
#endif
	}
	return 0;
}
static void os_join_hook(void) { defer_thread_futex = 0; }
void urcu_memb_defer_barrier(void) __CPROVER_requires(1) __CPROVER_assigns(G_barriers) __CPROVER_ensures(G_barriers == __CPROVER_old(G_barriers) + 1);
void urcu_memb_defer_barrier_thread(void) __CPROVER_requires(1) __CPROVER_assigns() __CPROVER_ensures(1);

unsigned long in_futex, in_p, in_stop, in_own, in_other, in_ret;
static void fn(void *p) { (void) p; }
static void mk(void)
{
	VIN(unsigned long, in_futex); VIN(unsigned long, in_p); VIN(unsigned long, in_stop); VIN(unsigned long, in_own); VIN(unsigned long, in_other); VIN(unsigned long, in_ret);
	CDS_INIT_LIST_HEAD(&registry_defer);
	URCU_TLS(defer_queue).q = malloc(sizeof(void *) * DEFER_QUEUE_SIZE); VERIF_REQUIRE(URCU_TLS(defer_queue).q != 0);
	URCU_TLS(defer_queue).head = URCU_TLS(defer_queue).tail = 0; URCU_TLS(defer_queue).last_fct_in = 0;
	OQ.head = OQ.tail = 0;
	cds_list_add(&URCU_TLS(defer_queue).list, &registry_defer); cds_list_add(&OQ.list, &registry_defer);
	G_os_futex_wake = 0; G_os_futex_ret = 0;
}
void h_producer_wake(void)
{
	mk(); G_mode = 1;
	defer_thread_futex = (in_futex & 1) ? -1 : 0;
	_defer_rcu(fn, (void *) (in_p & ~1UL));
	VERIF_ASSERT(E_head_stores == 1 && E_futex_loads == 1 && E_futex_load_fenced, "_defer_rcu: head published -> FULL barrier -> test of the reclaimer's futex (no lost wake-up)");
	VERIF_ASSERT((in_futex & 1) ? (G_os_futex_wake == 1 && defer_thread_futex == 0) : G_os_futex_wake == 0, "_defer_rcu: FUTEX_WAKE iff the reclaimer was asleep (-1), futex reset first");
	VERIF_COVER(in_futex & 1); VERIF_COVER(!(in_futex & 1));
}
void h_wait_defer(void)
{
	mk(); G_mode = 2;
	defer_thread_futex = 0; defer_thread_stop = in_stop & 1;
	URCU_TLS(defer_queue).head = (in_own & 1) ? 2 : 0;		/* calls queued by this / another thread, or none */
	OQ.head = (in_other & 1) ? 3 : 0;
	G_q_nonempty_seen = (in_own & 1) || (in_other & 1);
	G_os_futex_ret = (in_ret % 3 == 0) ? 0 : -1; G_os_futex_errno = (in_ret % 3 == 1) ? EAGAIN : EINTR;
	wait_defer();
	/* (pthread_exit path ends in the stub; its checks are below through G_exited on the other paths) */
	VERIF_ASSERT(E_dec == 1 && E_stop_load_ok, "wait_defer: futex decremented, FULL barrier, then the stop flag is read");
	VERIF_ASSERT(!(in_stop & 1), "wait_defer: with stop set the thread exits (never returns to run callbacks)");
	VERIF_ASSERT(E_head_loads >= 2 && E_head_load_ok, "wait_defer: EVERY registered queue is examined after the barrier that follows the futex decrement");
	VERIF_ASSERT(!E_wait_bad, "wait_defer: sleeps only on -1, and only if stop was clear and all queues were empty when examined after the barrier");
	VERIF_ASSERT(G_q_nonempty_seen ? (E_wait_calls == 0 && defer_thread_futex == 0) : 1, "wait_defer: queued calls => futex reset to 0, no sleep");
	VERIF_ASSERT(G_os_locks_held == 0, "wait_defer: rcu_defer_mutex released");
	VERIF_COVER(E_wait_calls >= 1); VERIF_COVER(G_q_nonempty_seen && (in_other & 1) && !(in_own & 1)); VERIF_COVER(E_wait_calls >= 2);
}
void h_wait_defer_stop(void)
{
	mk(); G_mode = 2;
	defer_thread_futex = 0; defer_thread_stop = 1;
	wait_defer();
	VERIF_ASSERT(0, "wait_defer with stop set: unreachable - the thread exits");
}
void h_stop(void)
{
	mk(); G_mode = 3; tid_defer = (pthread_t) 5;
	defer_thread_futex = (in_futex & 1) ? -1 : 0; defer_thread_stop = 0; G_os_thread_joined = 0;
	stop_defer_thread();
	VERIF_ASSERT(E_stop_stores == 1 && E_futex_loads >= 1 && E_futex_load_fenced, "stop_defer_thread: stop flag stored -> FULL barrier -> test of the futex");
	VERIF_ASSERT((in_futex & 1) ? G_os_futex_wake == 1 : G_os_futex_wake == 0, "stop_defer_thread: wakes the reclaimer iff it sleeps");
	VERIF_ASSERT(G_os_thread_joined == 1 && defer_thread_stop == 0, "stop_defer_thread: joins the reclaimer, then clears the stop flag for the next start");
	VERIF_COVER(in_futex & 1);
}
void h_thr_defer(void)
{
	mk(); G_mode = 4;
	defer_thread_futex = 0; defer_thread_stop = 0; OQ.head = 3; G_q_nonempty_seen = 1; G_barriers = 0; G_polls_seen = 0;
	(void) thr_defer(0);		/* infinite loop: unwound twice, no unwinding assertion */
	VERIF_ASSERT(0, "thr_defer never returns");
}
