/*
 * C14 - grace-period polling: monitor invariant of the three lock-protected functions of
 * src/urcu-poll-impl.h (textually included by urcu.c / urcu-qsbr.c / urcu-bp.c).
 *
 * The real translation unit of the flavor is included below; call_rcu() is replaced by its
 * (assumed, = C03) contract, pthread_mutex_* by the ghost-state stubs.
 *
 * Rely/guarantee around the lock: the monitor state the function is verified against is the state AT THE
 * INSTANT IT ACQUIRES poll_worker_gp_state.lock (chosen by the lock hook: any state satisfying INV);
 * before the acquisition and after the release the fields hold unrelated values (other threads may run
 * any number of monitor steps there).  The postconditions are evaluated on a snapshot taken at the
 * release.  A read or write of the monitor state outside the lock therefore sees/produces garbage and
 * fails an obligation.
 *
 * Ghost state
 *   G_now            logical clock, advanced by every API step
 *   G_pending        the worker callback is queued on a call_rcu helper (or dequeued and not yet inside
 *                    its critical section)
 *   G_queued_at      clock value of the call_rcu() that queued it
 *   witness handle   (W_issued, W_id, W_at, W_safe): one arbitrary handle; W_safe becomes true when a
 *                    callback that was QUEUED AT OR AFTER W_at completes - by the call_rcu contract (C03)
 *                    a full grace period then lies after the issue of the handle.
 * Invariant INV (see DESIGN.md section 6, C14).  Since the witness is arbitrary, INV holds for all handles.
 */
#include <verif/verif.h>
#define OS_LOCK_HOOKS
#include <verif/os_stubs.h>
#include <stdbool.h>

#if defined(FLAVOR_MEMB)
# define RCU_MEMBARRIER
# define CALL_RCU urcu_memb_call_rcu
# define SRC "urcu.c"
#elif defined(FLAVOR_MB)
# define RCU_MB
# define CALL_RCU urcu_mb_call_rcu
# define SRC "urcu.c"
#elif defined(FLAVOR_QSBR)
# define CALL_RCU urcu_qsbr_call_rcu
# define SRC "urcu-qsbr.c"
#elif defined(FLAVOR_BP)
# define CALL_RCU urcu_bp_call_rcu
# define SRC "urcu-bp.c"
#endif

unsigned long G_now;
unsigned long G_pending;		/* 0/1 (not bool: contract havoc yields non-canonical bool patterns) */
unsigned long G_queued_at;
void *G_cb_func, *G_cb_head;
unsigned long G_calls;			/* number of call_rcu() calls made by the function under proof */
unsigned long G_role;			/* 1: the function under proof is the worker callback */
unsigned long G_acquired;		/* number of acquisitions of the poll lock */

bool W_issued, W_safe;
unsigned long W_id, W_at;

/* snapshot at the release of the lock */
unsigned long U_cur, U_latest, U_active, U_inv, U_taken, U_calls;

struct rcu_head;
#ifndef VERIF_NATIVE
/* assumed contract of call_rcu (C03): the callback will run exactly once after a grace period that
 * starts after this call; the same rcu_head must not be queued while still pending. */
void CALL_RCU(struct rcu_head *head, void (*func)(struct rcu_head *head))
__CPROVER_requires(G_pending == 0)
__CPROVER_requires(__CPROVER_r_ok(head, 16))
__CPROVER_assigns(G_pending, G_queued_at, G_cb_func, G_cb_head, G_calls)
__CPROVER_ensures(G_pending == 1 && G_queued_at == G_now && G_cb_func == (void *) func && G_cb_head == (void *) head)
__CPROVER_ensures(G_calls == __CPROVER_old(G_calls) + 1)
;
#endif

#ifdef VERIF_NATIVE
/* native replay: the real file with call_rcu/mutex primitives routed to ghost-recording versions */
#include <pthread.h>
#include <urcu/urcu-poll.h>
#include <urcu/call-rcu.h>
static void nat_call_rcu(struct rcu_head *head, void (*func)(struct rcu_head *head))
{
	VERIF_ASSERT(!G_pending, "call_rcu: rcu_head queued while still pending");
	G_pending = 1; G_queued_at = G_now; G_cb_func = (void *) func; G_cb_head = head; G_calls++;
}
static void mutex_lock(pthread_mutex_t *m) { pthread_mutex_lock(m); }
static void mutex_unlock(pthread_mutex_t *m) { pthread_mutex_unlock(m); }
#undef call_rcu
#define call_rcu nat_call_rcu
#define start_poll_synchronize_rcu nat_start_poll
#define poll_state_synchronize_rcu nat_poll_state
#include "urcu-poll-impl.h"
#else
#include SRC
#endif

#define CUR	(poll_worker_gp_state.current_state.grace_period_id)
#define LATEST	(poll_worker_gp_state.latest_target.grace_period_id)
#define ACTIVE	(poll_worker_gp_state.active)
#define SD(a, b) ((long)((a) - (b)))		/* signed distance, wrap-around safe */

static bool INV(void)
{
	if ((ACTIVE ? 1UL : 0UL) != G_pending) return false;			/* active <=> a callback is pending */
	if (ACTIVE && !(SD(LATEST, CUR) == 0 || SD(LATEST, CUR) == 1)) return false;
	if (G_pending && G_queued_at > G_now) return false;
	if (W_issued) {
		if (W_at > G_now) return false;
		if (SD(W_id, CUR) >= 0) {				/* not yet reported complete */
			if (!(W_id == CUR || W_id == CUR + 1)) return false;
			if (!ACTIVE) return false;			/* never stuck: a callback is pending */
			if (W_id == CUR && !(G_queued_at >= W_at)) return false;
			if (W_id == CUR + 1 && LATEST != CUR + 1) return false;	/* worker will re-queue */
		} else {
			if (!W_safe) return false;			/* reported complete => really complete */
		}
	}
	return true;
}

unsigned in_step;
unsigned long in_cur, in_latest, in_active, in_pending, in_now, in_queued_at, in_w_issued, in_w_id, in_w_at, in_w_safe;
unsigned long in_pre_cur, in_pre_latest, in_pre_active;

/* state before the lock is taken: unrelated to the state the function must work on */
static void setup(void)
{
	VIN(unsigned long, in_pre_cur); VIN(unsigned long, in_pre_latest); VIN(unsigned long, in_pre_active);
	CUR = in_pre_cur; LATEST = in_pre_latest; ACTIVE = in_pre_active & 1;
	VIN(unsigned long, in_cur); VIN(unsigned long, in_latest); VIN(unsigned long, in_active);
	VIN(unsigned long, in_pending); VIN(unsigned long, in_now); VIN(unsigned long, in_queued_at);
	VIN(unsigned long, in_w_issued); VIN(unsigned long, in_w_id); VIN(unsigned long, in_w_at);
	VIN(unsigned long, in_w_safe);
	G_calls = 0; G_acquired = 0; U_taken = 0;
}

/* environment + acquisition: the monitor state at the instant the lock is obtained */
static void os_lock_hook(pthread_mutex_t *m)
{
	if (m != &poll_worker_gp_state.lock)
		return;
	G_acquired++;
	CUR = in_cur; LATEST = in_latest; ACTIVE = in_active & 1;
	G_pending = in_pending & 1; G_now = in_now; G_queued_at = in_queued_at;
	W_issued = in_w_issued & 1; W_id = in_w_id; W_at = in_w_at; W_safe = in_w_safe & 1;
	VERIF_REQUIRE(in_now < (1UL << 63));		/* the logical clock itself does not wrap */
	VERIF_REQUIRE(INV());
	/* a handle is only polled within 2^62 grace periods of its issue (window of the signed comparison) */
	VERIF_REQUIRE(!W_issued || SD(W_id, CUR) > -(1L << 62));
	G_now++;
	if (G_role == 1) {
		/* the helper thread dequeued the callback after a grace period following G_queued_at */
		VERIF_REQUIRE(G_pending);
		G_pending = 0;
		if (W_issued && G_queued_at >= W_at)
			W_safe = true;
	}
}

static void os_unlock_hook(pthread_mutex_t *m)
{
	if (m != &poll_worker_gp_state.lock)
		return;
	U_taken++;
	U_cur = CUR; U_latest = LATEST; U_active = ACTIVE; U_calls = G_calls;
	if (G_role == 2) {	/* start_poll issuing the witness handle: it is the value current (+1 if busy) at this instant */
		W_issued = true; W_at = G_now; W_safe = false;
		W_id = in_cur + (in_active & 1);
	}
	U_inv = INV();
	/* other threads run from here on */
	CUR = nondet_ulong(); LATEST = nondet_ulong(); ACTIVE = nondet_bool();
}

#define COMMON_POST(who)										\
	VERIF_ASSERT(G_acquired == 1 && U_taken == 1, who ": takes and releases the poll lock exactly once");	\
	VERIF_ASSERT(G_os_locks_held == 0, who ": lock released");					\
	VERIF_ASSERT(G_calls == U_calls, who ": call_rcu only while holding the lock")

/* O1: start_poll establishes INV for the handle it returns (witness = this handle) */
void h_start_poll_new(void)
{
	struct urcu_gp_poll_state h;
	setup();
	VERIF_REQUIRE(!(in_w_issued & 1));
	G_role = 2;
	h = start_poll_synchronize_rcu();
	COMMON_POST("start_poll");
	VERIF_ASSERT(h.grace_period_id == W_id, "start_poll: handle = current (idle) / current+1 (busy) at the locked instant");
	VERIF_ASSERT(U_inv, "start_poll: invariant holds for the new handle");
	VERIF_ASSERT(SD(W_id, U_cur) >= 0, "start_poll: a fresh handle is not yet complete");
	VERIF_ASSERT(U_active, "start_poll: worker active afterwards");
	VERIF_ASSERT(G_calls == (in_active & 1 ? 0 : 1), "start_poll: queues the worker callback iff it was idle");
	VERIF_ASSERT(G_calls == 0 || (G_cb_func == (void *) urcu_poll_worker_cb && G_cb_head == (void *) &poll_worker_gp_state.rcu_head),
		     "start_poll: queues urcu_poll_worker_cb on the worker's own rcu_head");
	VERIF_COVER(in_active & 1); VERIF_COVER(!(in_active & 1)); VERIF_COVER(in_cur == ~0UL);
}

/* O1': start_poll for ANOTHER handle preserves INV of the witness */
void h_start_poll_other(void)
{
	setup();
	VERIF_REQUIRE(in_w_issued & 1);
	G_role = 0;
	(void) start_poll_synchronize_rcu();
	COMMON_POST("start_poll");
	VERIF_ASSERT(U_inv, "start_poll (other handle): invariant of the witness handle preserved");
	VERIF_ASSERT(U_cur == in_cur, "start_poll: current grace-period id unchanged");
	VERIF_COVER(SD(W_id, U_cur) == 1); VERIF_COVER(SD(W_id, U_cur) == 0 && !(in_w_safe & 1)); VERIF_COVER(SD(W_id, U_cur) < 0);
}

/* O2: the worker callback (run by the helper thread: a grace period has elapsed since it was queued) */
void h_worker_cb(void)
{
	setup();
	G_role = 1;
	urcu_poll_worker_cb(&poll_worker_gp_state.rcu_head);
	COMMON_POST("worker");
	VERIF_ASSERT(U_cur == in_cur + 1, "worker: current incremented exactly once");
	VERIF_ASSERT(U_inv, "worker: invariant preserved");
	VERIF_ASSERT(G_calls == (SD(in_latest, in_cur) == 1 ? 1 : 0), "worker: re-queues itself iff a later target is outstanding");
	VERIF_COVER(G_calls == 1); VERIF_COVER(G_calls == 0 && W_issued && SD(W_id, U_cur) < 0);
	VERIF_COVER(W_issued && SD(W_id, U_cur) == 0);
}

/* O3: poll_state: true iff complete; never early; state untouched */
void h_poll_state(void)
{
	struct urcu_gp_poll_state h;
	bool r;
	setup();
	VERIF_REQUIRE(in_w_issued & 1);
	G_role = 0;
	h.grace_period_id = in_w_id;
	r = poll_state_synchronize_rcu(h);
	COMMON_POST("poll_state");
	VERIF_ASSERT(!r || W_safe, "poll_state: true only if a callback queued at/after the handle's issue has completed");
	VERIF_ASSERT(r || U_active, "poll_state: false only while a worker callback is pending (no stuck handle)");
	VERIF_ASSERT(r == (SD(W_id, U_cur) < 0), "poll_state: result = signed comparison with current");
	VERIF_ASSERT(U_cur == in_cur && U_latest == in_latest && U_active == (in_active & 1) && G_calls == 0, "poll_state: read-only");
	VERIF_ASSERT(U_inv, "poll_state: invariant preserved");
	VERIF_COVER(r); VERIF_COVER(!r); VERIF_COVER(r && W_id > U_cur /* wrapped */);
}

/* O4: monotonicity: once complete, stays complete across any step */
void h_monotone(void)
{
	unsigned step;
	setup();
	VERIF_REQUIRE((in_w_issued & 1) && SD(in_w_id, in_cur) < 0);
	VIN(unsigned, in_step); step = in_step;
	if (step == 0) {
		G_role = 0;
		(void) start_poll_synchronize_rcu();
	} else {
		G_role = 1;
		urcu_poll_worker_cb(&poll_worker_gp_state.rcu_head);
	}
	VERIF_ASSERT(U_taken == 1 && SD(W_id, U_cur) < 0, "once true, poll_state stays true");
	VERIF_COVER(step == 0); VERIF_COVER(step != 0);
}

/* initial state satisfies the invariant (no handle issued) */
void h_init(void)
{
	G_now = 0; G_pending = 0; W_issued = false;
	VERIF_ASSERT(INV(), "initial (static) state satisfies the invariant");
	VERIF_ASSERT(OS_HELD(&poll_worker_gp_state.lock) == 0, "lock initially free");
}

#ifdef VERIF_NATIVE
int main(void) { VERIF_ENTRY(); printf("REPLAY-PASS\n"); return 0; }
#endif
