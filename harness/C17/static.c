/*
 * C17.S - translation unit for the static progress facts: thin wrappers around the operations documented as
 * wait-free, compiled from the REAL headers with the REAL primitives (no override); engine computes, on the goto
 * program, the call closure of each wrapper and checks that it contains no loop (no backward jump) and no recursion.
 */
#define _LGPL_SOURCE
#include <stddef.h>
#include <verif/verif.h>
#include <verif/x86_insn.h>	/* x86 inline asm -> assumed instruction contracts (must-fire rewrite 'x86asm', as in C20) */
#include <poll.h>
#ifdef NO_WAIT_PRIMITIVES
/* reaching a waiting primitive is an error for the non-blocking variants */
#include <urcu/arch.h>
#undef caa_cpu_relax
#define caa_cpu_relax() __CPROVER_assert(0, "never waits: caa_cpu_relax() is unreachable")
int poll(struct pollfd *f, nfds_t n, int t) { (void) f; (void) n; (void) t; __CPROVER_assert(0, "never waits: poll() is unreachable"); return 0; }
#endif
#include <urcu/wfcqueue.h>
#include <urcu/wfstack.h>
#include <urcu/lfstack.h>
/* OS / out-of-scope boundary: the system call, its ENOSYS fallback and (bp) the registration of a thread that is NOT yet
 * registered (the property speaks of registered threads) are opaque here */
#include <stdint.h>
#include <time.h>
long nondet_long(void); int nondet_int(void);
long syscall(long nr, ...) { (void) nr; return nondet_long(); }
int compat_futex_async(int32_t *uaddr, int op, int32_t val, const struct timespec *timeout, int32_t *uaddr2, int32_t val3)
{ (void) uaddr; (void) op; (void) val; (void) timeout; (void) uaddr2; (void) val3; return nondet_int(); }
void urcu_bp_register(void) { }
#ifdef CONTROL
/* positive controls: the BLOCKING variants must trip the unwinding assertion (they do wait) */
struct cds_wfcq_head cqh; struct cds_wfcq_tail cqt; struct cds_wfs_stack cws;
struct cds_wfcq_node *w_control_wfcq_dequeue_blocking(void) { return __cds_wfcq_dequeue_blocking(&cqh, &cqt); }
struct cds_wfs_node *w_control_wfs_pop_blocking(void) { return __cds_wfs_pop_blocking(&cws); }
#endif
#ifdef FL_MEMB
#include <urcu/urcu-memb.h>
void w_read_lock(void) { urcu_memb_read_lock(); VERIF_COVER(1); }
void w_read_unlock(void) { urcu_memb_read_unlock(); VERIF_COVER(1); }
#endif
#ifdef FL_MB
#include <urcu/urcu-mb.h>
void w_read_lock(void) { urcu_mb_read_lock(); VERIF_COVER(1); }
void w_read_unlock(void) { urcu_mb_read_unlock(); VERIF_COVER(1); }
#endif
#ifdef FL_QSBR
#include <urcu/urcu-qsbr.h>
void w_read_lock(void) { urcu_qsbr_read_lock(); VERIF_COVER(1); }
void w_read_unlock(void) { urcu_qsbr_read_unlock(); VERIF_COVER(1); }
void w_quiescent_state(void) { urcu_qsbr_quiescent_state(); VERIF_COVER(1); }
#endif
#ifdef FL_BP
#include <urcu/urcu-bp.h>
void w_read_lock(void) { urcu_bp_read_lock(); VERIF_COVER(1); }
void w_read_unlock(void) { urcu_bp_read_unlock(); VERIF_COVER(1); }
#endif
struct cds_wfcq_head qh; struct cds_wfcq_tail qt; struct cds_wfcq_node qn;
struct cds_wfs_stack ws; struct cds_wfs_node wn;
struct cds_lfs_stack ls;
/* reachability witnesses (cover pass): each wrapper returns, with each kind of result */
int w_wfcq_enqueue(void) { int r = cds_wfcq_enqueue(&qh, &qt, &qn); VERIF_COVER(r); VERIF_COVER(!r); return r; }
int w_wfs_push(void) { int r; wn.next = NULL; /* documented precondition: node initialised */ r = cds_wfs_push(&ws, &wn); VERIF_COVER(r); VERIF_COVER(!r); return r; }
struct cds_wfs_head *w_wfs_pop_all(void) { struct cds_wfs_head *r = __cds_wfs_pop_all(&ws); VERIF_COVER(r == NULL); VERIF_COVER(r != NULL); return r; }
struct cds_lfs_head *w_lfs_pop_all(void) { struct cds_lfs_head *r = __cds_lfs_pop_all(&ls); VERIF_COVER(r == NULL); VERIF_COVER(r != NULL); return r; }
int w_wfs_empty(void) { int r = cds_wfs_empty(&ws); VERIF_COVER(r); VERIF_COVER(!r); return r; }
int w_wfcq_empty(void) { int r = cds_wfcq_empty(&qh, &qt); VERIF_COVER(r); VERIF_COVER(!r); return r; }
/* the non-blocking variants: their closure must not reach a waiting primitive (poll / caa_cpu_relax) either */
#define NBCOVER(r, WB) VERIF_COVER((void *) (r) == (void *) (WB)); VERIF_COVER((r) == NULL); VERIF_COVER((r) != NULL && (void *) (r) != (void *) (WB))
struct cds_wfcq_node *w_wfcq_dequeue_nb(void) { struct cds_wfcq_node *r = __cds_wfcq_dequeue_nonblocking(&qh, &qt); NBCOVER(r, CDS_WFCQ_WOULDBLOCK); return r; }
struct cds_wfcq_node *w_wfcq_first_nb(void) { struct cds_wfcq_node *r = __cds_wfcq_first_nonblocking(&qh, &qt); NBCOVER(r, CDS_WFCQ_WOULDBLOCK); return r; }
struct cds_wfcq_node *w_wfcq_next_nb(void) { struct cds_wfcq_node *r = __cds_wfcq_next_nonblocking(&qh, &qt, &qn); NBCOVER(r, CDS_WFCQ_WOULDBLOCK); return r; }
struct cds_wfcq_head dqh; struct cds_wfcq_tail dqt;
int w_wfcq_splice_nb(void) { int r = (int) __cds_wfcq_splice_nonblocking(&dqh, &dqt, &qh, &qt); VERIF_COVER(r == CDS_WFCQ_RET_WOULDBLOCK); VERIF_COVER(r == CDS_WFCQ_RET_SRC_EMPTY); VERIF_COVER(r == CDS_WFCQ_RET_DEST_EMPTY); VERIF_COVER(r == CDS_WFCQ_RET_DEST_NON_EMPTY); return r; }
struct cds_wfs_node *w_wfs_pop_nb(void) { struct cds_wfs_node *r = __cds_wfs_pop_nonblocking(&ws); NBCOVER(r, CDS_WFS_WOULDBLOCK); return r; }
struct cds_wfs_node *w_wfs_next_nb(void) { struct cds_wfs_node *r = cds_wfs_next_nonblocking(&wn); NBCOVER(r, CDS_WFS_WOULDBLOCK); return r; }
