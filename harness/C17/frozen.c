/*
 * C17.O4 - operations run SOLO from intermediate states in which another thread is suspended in the middle of its
 * operation (never to be scheduled again):
 *   wfcqueue: an enqueuer stopped between its tail exchange and its link store   (tail = B, predecessor->next == NULL)
 *   wfstack : a pusher stopped between its head exchange and its next store      (head = P, P.next == NULL)
 *   rculfqueue: an enqueuer stopped between linking its node and advancing the tail (tail lags by one node)
 * The non-blocking variants must return the correct element or WOULDBLOCK without ever executing a waiting primitive
 * (caa_cpu_relax / poll) and WOULDBLOCK must leave the structure exactly as it was; wait-free operations must complete;
 * the lock-free queue must HELP (advance the lagging tail) and complete.  All loops are fully unwound (unwinding
 * assertions on): completion within the bound is part of what is proved.
 */
#include <verif/verif.h>
#include <verif/os_stubs.h>
#include <urcu/compiler.h>
#include <urcu/arch.h>
#include <urcu/system.h>
#include <urcu/uatomic.h>
unsigned long G_relax;
static void evt(int kind, void *addr, int mo);
#define VERIF_EVT(kind, addr, mo, val) evt((kind), (void *)(addr), (int)(mo))
#include <verif/atomics_seq.h>
#ifdef PART_WFCQ
#include "wfcqueue.c"
#endif
#ifdef PART_WFS
#include "wfstack.c"
#endif
#ifdef PART_LFQ
#define _LGPL_SOURCE
#include <urcu/pointer.h>
#undef _LGPL_SOURCE
#include "rculfqueue.c"
#endif
static void evt(int kind, void *addr, int mo) { (void) addr; (void) mo; if (kind == EV_RELAX) G_relax++; }
#define NO_WAIT (G_relax == 0 && G_os_poll_calls == 0)
unsigned long in_n, in_fl, in_op, in_k;

#ifdef PART_WFCQ
typedef struct cds_wfcq_node node_t;
struct __cds_wfcq_head qh, dh; struct cds_wfcq_tail qt, dt;
node_t A[2], B;
static unsigned long n, fl;
static void mk(void)
{
	VIN(unsigned long, in_n); VIN(unsigned long, in_fl); VIN(unsigned long, in_op); VIN(unsigned long, in_k);
	n = in_n % 3; fl = in_fl & 1;
	A[0].next = n >= 2 ? &A[1] : 0; A[1].next = 0; B.next = 0;
	qh.node.next = n ? &A[0] : 0;
	/* in flight: the enqueuer of B has exchanged the tail but not yet stored predecessor->next (it stays NULL) */
	qt.p = fl ? &B : (n ? &A[n - 1] : &qh.node);
	G_relax = 0; G_os_poll_calls = 0;
}
#define UNCHANGED (qh.node.next == (n ? &A[0] : (node_t *) 0) && qt.p == (fl ? &B : (n ? &A[n - 1] : &qh.node)) && A[0].next == (n >= 2 ? &A[1] : (node_t *) 0) && A[1].next == 0 && B.next == 0)
void h_wfcq_dequeue_nb(void)
{
	node_t *r; int state = 0;
	mk();
	r = (in_op & 1) ? __cds_wfcq_dequeue_with_state_nonblocking(&qh, &qt, &state) : __cds_wfcq_dequeue_nonblocking(&qh, &qt);
	VERIF_ASSERT(NO_WAIT, "dequeue_nonblocking never waits (no caa_cpu_relax, no poll), whatever another thread left half-done");
	if (n == 0 && !fl) VERIF_ASSERT(r == 0, "dequeue_nonblocking: NULL on an empty queue");
	else if (n == 2) VERIF_ASSERT(r == &A[0] && qh.node.next == &A[1] && qt.p == (fl ? &B : &A[1]) && A[1].next == 0, "dequeue_nonblocking: first element although an enqueue is in flight further down; rest untouched");
	else if (n == 1 && !fl) VERIF_ASSERT(r == &A[0] && qh.node.next == 0 && qt.p == &qh.node, "dequeue_nonblocking: last element, queue empty afterwards");
	else {
		/* the link the dequeuer needs is the one the suspended enqueuer has not written yet */
		VERIF_ASSERT(r == CDS_WFCQ_WOULDBLOCK, "dequeue_nonblocking: WOULDBLOCK exactly when the needed link is in flight");
		VERIF_ASSERT(UNCHANGED, "dequeue_nonblocking: WOULDBLOCK leaves the queue exactly as it was (a later call, after the enqueuer finished, finds every element)");
	}
	VERIF_ASSERT(fl || r != CDS_WFCQ_WOULDBLOCK, "dequeue_nonblocking: never WOULDBLOCK when no other operation is in progress");
	VERIF_COVER(r == CDS_WFCQ_WOULDBLOCK && n == 1); VERIF_COVER(r == CDS_WFCQ_WOULDBLOCK && n == 0); VERIF_COVER(r == &A[0] && fl && n == 2); VERIF_COVER(r == 0);
}
void h_wfcq_iter_nb(void)
{
	node_t *f, *nx; unsigned long k;
	mk(); k = in_k & 1;
	f = __cds_wfcq_first_nonblocking(&qh, &qt);
	VERIF_ASSERT(NO_WAIT, "first_nonblocking never waits");
	VERIF_ASSERT(n ? f == &A[0] : (fl ? f == CDS_WFCQ_WOULDBLOCK : f == 0), "first_nonblocking: first element; NULL if empty; WOULDBLOCK iff the first link is in flight");
	if (k < n) {
		nx = __cds_wfcq_next_nonblocking(&qh, &qt, &A[k]);
		VERIF_ASSERT(NO_WAIT, "next_nonblocking never waits");
		VERIF_ASSERT(k + 1 < n ? nx == &A[k + 1] : (fl ? nx == CDS_WFCQ_WOULDBLOCK : nx == 0), "next_nonblocking: successor; NULL at the end; WOULDBLOCK iff that link is in flight");
	}
	VERIF_ASSERT(UNCHANGED, "first/next_nonblocking are read-only");
	VERIF_COVER(f == CDS_WFCQ_WOULDBLOCK); VERIF_COVER(k < n && fl && k + 1 == n); VERIF_COVER(n == 2 && k == 0);
}
void h_wfcq_splice_nb(void)
{
	enum cds_wfcq_ret r;
	mk(); __cds_wfcq_init(&dh, &dt);
	r = __cds_wfcq_splice_nonblocking(&dh, &dt, &qh, &qt);
	VERIF_ASSERT(NO_WAIT, "splice_nonblocking never waits");
	if (n == 0 && fl) {
		VERIF_ASSERT(r == CDS_WFCQ_RET_WOULDBLOCK, "splice_nonblocking: WOULDBLOCK when the source's first link is in flight");
		VERIF_ASSERT(UNCHANGED && dh.node.next == 0 && dt.p == &dh.node, "splice_nonblocking: WOULDBLOCK leaves source and destination untouched");
	} else if (n == 0) VERIF_ASSERT(r == CDS_WFCQ_RET_SRC_EMPTY && UNCHANGED, "splice_nonblocking: empty source");
	else {
		VERIF_ASSERT(r == CDS_WFCQ_RET_DEST_EMPTY && dh.node.next == &A[0] && dt.p == (fl ? &B : &A[n - 1]) && qh.node.next == 0 && qt.p == &qh.node, "splice_nonblocking: whole source (including the node whose link is still in flight) moved to the destination without waiting; source empty and reusable");
	}
	VERIF_ASSERT(fl || r != CDS_WFCQ_RET_WOULDBLOCK, "splice_nonblocking: never WOULDBLOCK when no other operation is in progress");
	VERIF_COVER(r == CDS_WFCQ_RET_WOULDBLOCK); VERIF_COVER(n == 2 && fl); VERIF_COVER(r == CDS_WFCQ_RET_SRC_EMPTY);
}
/* wait-free enqueue completes in the frozen state too */
void h_wfcq_enqueue_frozen(void)
{
	node_t N; bool r;
	mk(); cds_wfcq_node_init(&N);
	r = cds_wfcq_enqueue(&qh, &qt, &N);
	VERIF_ASSERT(NO_WAIT, "enqueue is wait-free: it never waits for the suspended enqueuer");
	VERIF_ASSERT(qt.p == &N && (fl ? B.next == &N : (n ? A[n - 1].next == &N : qh.node.next == &N)) && N.next == 0, "enqueue: linked behind the current tail (the in-flight node), its own two steps done");
	VERIF_ASSERT(r == (fl || n != 0), "enqueue: return value");
	VERIF_COVER(fl && n == 0); VERIF_COVER(!fl && n == 2);
}
#endif

#ifdef PART_WFS
typedef struct cds_wfs_node node_t;
struct __cds_wfs_stack st;
node_t A[2], P;
static unsigned long n, fl;
#define ENDN ((node_t *) CDS_WFS_END)
static void mk(void)
{
	VIN(unsigned long, in_n); VIN(unsigned long, in_fl); VIN(unsigned long, in_op);
	n = in_n % 3; fl = in_fl & 1;
	A[0].next = n >= 2 ? &A[1] : ENDN; A[1].next = ENDN;
	P.next = 0;					/* the pusher has exchanged the head but not yet stored P.next */
	st.head = (struct cds_wfs_head *) (fl ? &P : (n ? &A[0] : ENDN));
	G_relax = 0; G_os_poll_calls = 0;
}
#define UNCHANGED (st.head == (struct cds_wfs_head *) (fl ? &P : (n ? &A[0] : ENDN)) && P.next == 0 && A[0].next == (n >= 2 ? &A[1] : ENDN) && A[1].next == ENDN)
void h_wfs_pop_nb(void)
{
	node_t *r; int state = 0;
	mk();
	r = (in_op & 1) ? __cds_wfs_pop_with_state_nonblocking(&st, &state) : __cds_wfs_pop_nonblocking(&st);
	VERIF_ASSERT(NO_WAIT, "pop_nonblocking never waits");
	if (fl) VERIF_ASSERT(r == CDS_WFS_WOULDBLOCK && UNCHANGED, "pop_nonblocking: WOULDBLOCK when the top node's link is in flight; stack unchanged");
	else if (n == 0) VERIF_ASSERT(r == 0 && UNCHANGED, "pop_nonblocking: NULL on an empty stack");
	else VERIF_ASSERT(r == &A[0] && st.head == (struct cds_wfs_head *) (n >= 2 ? &A[1] : ENDN), "pop_nonblocking: top element");
	VERIF_COVER(r == CDS_WFS_WOULDBLOCK && n == 2); VERIF_COVER(r == &A[0]); VERIF_COVER(r == 0);
}
void h_wfs_pop_all_frozen(void)
{
	struct cds_wfs_head *h; node_t *f, *nx; node_t N; int r;
	mk();
	cds_wfs_node_init(&N);
	r = cds_wfs_push(&st, &N);
	VERIF_ASSERT(NO_WAIT && st.head == (struct cds_wfs_head *) &N && N.next == (fl ? &P : (n ? &A[0] : ENDN)) && r == (fl || n != 0), "push is wait-free: completes on top of a half-pushed node");
	h = __cds_wfs_pop_all(&st);
	VERIF_ASSERT(NO_WAIT, "pop_all is wait-free: it never waits for the suspended pusher");
	VERIF_ASSERT(h == (struct cds_wfs_head *) &N && st.head == (struct cds_wfs_head *) ENDN, "pop_all: takes the whole stack (incl. the half-pushed node), leaves it empty");
	f = cds_wfs_first(h);
	VERIF_ASSERT(f == &N, "first of the popped stack");
	nx = cds_wfs_next_nonblocking(f);
	VERIF_ASSERT(NO_WAIT && nx == (fl ? &P : (n ? &A[0] : (node_t *) 0)), "next_nonblocking: successor");
	if (fl) {
		nx = cds_wfs_next_nonblocking(&P);
		VERIF_ASSERT(NO_WAIT && nx == CDS_WFS_WOULDBLOCK, "next_nonblocking: WOULDBLOCK at the node whose link is in flight, without waiting");
	}
	VERIF_COVER(fl && n == 2); VERIF_COVER(!fl && n == 0);
}
#endif

#ifdef PART_LFQ
typedef struct cds_lfq_node_rcu qn_t;
struct cds_lfq_queue_rcu q; struct cds_lfq_node_rcu_dummy *D0;
qn_t A1, B, N;
unsigned long G_rcu_calls;
static void rec_call_rcu(struct rcu_head *head, void (*func)(struct rcu_head *head)) { (void) head; (void) func; G_rcu_calls++; }
static unsigned long lead, na;
static void mk(void)
{
	VIN(unsigned long, in_n); VIN(unsigned long, in_fl);
	lead = in_fl & 1; na = in_n & 1; VERIF_REQUIRE(lead || na);
	D0 = malloc(sizeof(*D0)); VERIF_REQUIRE(D0 != 0);
	A1.dummy = B.dummy = N.dummy = 0;
	/* chain: [D0]? -> [A1]? -> B ; the enqueuer of B linked it and was suspended BEFORE advancing the tail */
	B.next = 0; A1.next = &B;
	D0->parent.dummy = 1; D0->parent.next = na ? &A1 : &B; D0->q = &q;
	q.head = lead ? &D0->parent : &A1;
	q.tail = na ? &A1 : &D0->parent;			/* lags one node behind */
	q.queue_call_rcu = rec_call_rcu; G_rcu_calls = 0; G_relax = 0; G_os_poll_calls = 0;
}
void h_lfq_enqueue_frozen(void)
{
	mk(); cds_lfq_node_init_rcu(&N);
	cds_lfq_enqueue_rcu(&q, &N);
	VERIF_ASSERT(NO_WAIT, "lfq enqueue never waits");
	VERIF_ASSERT(B.next == &N && N.next == 0 && q.tail == &N, "lfq enqueue from a state with a lagging tail: HELPS (advances the tail over the suspended enqueuer's node), then appends its own node and completes");
	VERIF_ASSERT(A1.next == &B && q.head == (lead ? &D0->parent : &A1), "lfq enqueue: rest of the chain untouched");
	VERIF_COVER(lead && na); VERIF_COVER(!lead);
}
void h_lfq_dequeue_frozen(void)
{
	qn_t *r;
	mk();
	r = cds_lfq_dequeue_rcu(&q);
	VERIF_ASSERT(NO_WAIT, "lfq dequeue never waits");
	VERIF_ASSERT(r == (na ? &A1 : &B) && r->dummy == 0, "lfq dequeue from a state with a lagging tail: completes and returns the oldest real node");
	VERIF_ASSERT(G_rcu_calls == lead, "lfq dequeue: a leading dummy is retired once");
	if (na) VERIF_ASSERT(q.head == &B && B.next == 0, "lfq dequeue: head advanced; the suspended enqueuer's node stays queued");
	else VERIF_ASSERT(q.head == q.tail && q.head->dummy == 1 && B.next == q.head, "lfq dequeue of the only real node: a fresh dummy keeps the chain non-empty (tail helped forward first)");
	VERIF_COVER(lead && na); VERIF_COVER(lead && !na); VERIF_COVER(!lead);
}
#endif
