/*
 * C10.O3 / C11.O3 - the mutex-protected consumer side.  The documented synchronisation scheme of wfcqueue dequeue /
 * splice, wfqueue dequeue, wfstack pop / pop_all and lfstack pop / pop_all is MUTUAL EXCLUSION of consumers (it is what
 * rules out ABA on pop and a torn dequeue): the *_blocking wrappers take the structure's internal mutex.  Decided for
 * every wrapper, on small concrete shapes (0..2 elements):
 *   every access (load / xchg / cmpxchg / store) to the consumer-side words of the structure (stack head; queue head
 *   link and tail) made by the wrapper happens while that structure's own mutex is held by the caller; the mutex is
 *   released exactly once before returning; the result is the one of the lock-free core (top / oldest element).
 */
#include <verif/verif.h>
#define OS_LOCK_HOOKS
#include <verif/os_stubs.h>
#include <urcu/compiler.h>
#include <urcu/arch.h>
#include <urcu/system.h>
#include <urcu/uatomic.h>
static void evt(int kind, void *addr, int mo);
#define VERIF_EVT(kind, addr, mo, val) evt((kind), (void *)(addr), (int)(mo))
#include <verif/atomics_seq.h>
#if defined(PART_LFS)
#include "lfstack.c"
#elif defined(PART_WFS)
#include "wfstack.c"
#elif defined(PART_WFCQ)
#include "wfcqueue.c"
#elif defined(PART_WFQ)
#include "wfqueue.c"
#endif

pthread_mutex_t *G_lock; void *G_w1, *G_w2;		/* the structure's mutex and its consumer-side words */
unsigned long G_unlocked_access, G_accesses, G_locks, G_unlocks, G_other_lock;
static void evt(int kind, void *addr, int mo)
{
	(void) mo;
	if ((kind == EV_LOAD || kind == EV_STORE || kind == EV_XCHG || kind == EV_CMPXCHG) && addr && (addr == G_w1 || addr == G_w2)) {
		G_accesses++;
		if (!G_lock || OS_HELD(G_lock) != 1) G_unlocked_access = 1;
	}
}
static void os_lock_hook(pthread_mutex_t *m) { if (m == G_lock) G_locks++; else G_other_lock = 1; }
static void os_unlock_hook(pthread_mutex_t *m) { if (m == G_lock) G_unlocks++; else G_other_lock = 1; }
#define DISCIPLINE(name) do { \
	VERIF_ASSERT(G_accesses >= 1 && !G_unlocked_access, name ": every access to the consumer-side words happens with the structure's own mutex held (consumers are mutually exclusive)"); \
	VERIF_ASSERT(G_locks == 1 && G_unlocks == 1 && !G_other_lock && OS_HELD(G_lock) == 0 && G_os_locks_held == 0, name ": the mutex is taken once and released once before returning"); } while (0)
unsigned long in_n, in_op;

#if defined(PART_LFS)
struct cds_lfs_stack S; struct cds_lfs_node A[2];
static unsigned long n;
static void mk(void)
{
	VIN(unsigned long, in_n); VIN(unsigned long, in_op); n = in_n % 3;
	cds_lfs_init(&S); G_os_lock_events = 0;
	A[1].next = 0; A[0].next = n >= 2 ? &A[1] : 0;
	S.head = n ? (struct cds_lfs_head *) &A[0] : 0;
	G_lock = &S.lock; G_w1 = &S.head; G_w2 = 0;
}
void h_lock_lfs(void)
{
	mk();
	if (in_op & 1) {
		struct cds_lfs_node *r = cds_lfs_pop_blocking(&S);
		VERIF_ASSERT(r == (n ? &A[0] : (struct cds_lfs_node *) 0) && S.head == (struct cds_lfs_head *) (n >= 2 ? &A[1] : 0), "cds_lfs_pop_blocking: pops the top");
		DISCIPLINE("cds_lfs_pop_blocking");
	} else {
		struct cds_lfs_head *h = cds_lfs_pop_all_blocking(&S);
		VERIF_ASSERT(h == (struct cds_lfs_head *) (n ? &A[0] : 0) && S.head == 0, "cds_lfs_pop_all_blocking: takes the whole stack");
		DISCIPLINE("cds_lfs_pop_all_blocking");
	}
	VERIF_COVER((in_op & 1) && n == 2); VERIF_COVER(!(in_op & 1) && n == 1);
}
#elif defined(PART_WFS)
struct cds_wfs_stack S; struct cds_wfs_node A[2];
static unsigned long n;
#define ENDN ((struct cds_wfs_node *) CDS_WFS_END)
static void mk(void)
{
	VIN(unsigned long, in_n); VIN(unsigned long, in_op); n = in_n % 3;
	cds_wfs_init(&S); G_os_lock_events = 0;
	A[1].next = ENDN; A[0].next = n >= 2 ? &A[1] : ENDN;
	S.head = (struct cds_wfs_head *) (n ? &A[0] : ENDN);
	G_lock = &S.lock; G_w1 = &S.head; G_w2 = 0;
}
void h_lock_wfs(void)
{
	int state = 0;
	mk();
	if (in_op % 3 == 0) {
		struct cds_wfs_node *r = cds_wfs_pop_blocking(&S);
		VERIF_ASSERT(r == (n ? &A[0] : (struct cds_wfs_node *) 0), "cds_wfs_pop_blocking: pops the top");
		DISCIPLINE("cds_wfs_pop_blocking");
	} else if (in_op % 3 == 1) {
		struct cds_wfs_node *r = cds_wfs_pop_with_state_blocking(&S, &state);
		VERIF_ASSERT(r == (n ? &A[0] : (struct cds_wfs_node *) 0) && (!!(state & CDS_WFS_STATE_LAST)) == (n == 1), "cds_wfs_pop_with_state_blocking: pops the top, LAST iff it was the only one");
		DISCIPLINE("cds_wfs_pop_with_state_blocking");
	} else {
		struct cds_wfs_head *h = cds_wfs_pop_all_blocking(&S);
		VERIF_ASSERT(h == (struct cds_wfs_head *) (n ? &A[0] : 0) && S.head == (struct cds_wfs_head *) ENDN, "cds_wfs_pop_all_blocking: takes the whole stack");
		DISCIPLINE("cds_wfs_pop_all_blocking");
	}
	VERIF_COVER(in_op % 3 == 0 && n == 2); VERIF_COVER(in_op % 3 == 1 && n == 1); VERIF_COVER(in_op % 3 == 2);
}
#elif defined(PART_WFCQ)
struct cds_wfcq_head QH, DH; struct cds_wfcq_tail QT, DT; struct cds_wfcq_node A[2];
static unsigned long n;
static void mk(void)
{
	VIN(unsigned long, in_n); VIN(unsigned long, in_op); n = in_n % 3;
	cds_wfcq_init(&QH, &QT); cds_wfcq_init(&DH, &DT); G_os_lock_events = 0;
	A[1].next = 0; A[0].next = n >= 2 ? &A[1] : 0;
	QH.node.next = n ? &A[0] : 0; QT.p = n ? &A[n - 1] : &QH.node;
	G_lock = &QH.lock; G_w1 = &QH.node.next; G_w2 = &QT.p;
}
void h_lock_wfcq(void)
{
	int state = 0;
	mk();
	if (in_op % 3 == 0) {
		struct cds_wfcq_node *r = cds_wfcq_dequeue_blocking(&QH, &QT);
		VERIF_ASSERT(r == (n ? &A[0] : (struct cds_wfcq_node *) 0), "cds_wfcq_dequeue_blocking: dequeues the oldest");
		DISCIPLINE("cds_wfcq_dequeue_blocking");
	} else if (in_op % 3 == 1) {
		struct cds_wfcq_node *r = cds_wfcq_dequeue_with_state_blocking(&QH, &QT, &state);
		VERIF_ASSERT(r == (n ? &A[0] : (struct cds_wfcq_node *) 0) && (!!(state & CDS_WFCQ_STATE_LAST)) == (n == 1), "cds_wfcq_dequeue_with_state_blocking: oldest, LAST iff it was the only one");
		DISCIPLINE("cds_wfcq_dequeue_with_state_blocking");
	} else {
		enum cds_wfcq_ret r = cds_wfcq_splice_blocking(&DH, &DT, &QH, &QT);
		VERIF_ASSERT(r == (n ? CDS_WFCQ_RET_DEST_EMPTY : CDS_WFCQ_RET_SRC_EMPTY) && DH.node.next == (n ? &A[0] : (struct cds_wfcq_node *) 0) && QH.node.next == 0 && QT.p == &QH.node, "cds_wfcq_splice_blocking: moves everything, source left empty");
		DISCIPLINE("cds_wfcq_splice_blocking (source queue's mutex)");
	}
	VERIF_COVER(in_op % 3 == 0 && n == 2); VERIF_COVER(in_op % 3 == 1 && n == 1); VERIF_COVER(in_op % 3 == 2 && n == 2);
}
#elif defined(PART_WFQ)
struct cds_wfq_queue Q; struct cds_wfq_node A[2];
static unsigned long n;
static void mk(void)
{
	VIN(unsigned long, in_n); n = in_n % 3;
	cds_wfq_init(&Q); G_os_lock_events = 0;
	A[1].next = 0; A[0].next = n >= 2 ? &A[1] : 0;
	if (n) { Q.dummy.next = &A[0]; Q.tail = &A[n - 1].next; }
	G_lock = &Q.lock; G_w1 = &Q.head; G_w2 = &Q.tail;
}
void h_lock_wfq(void)
{
	struct cds_wfq_node *r;
	mk();
	r = cds_wfq_dequeue_blocking(&Q);
	VERIF_ASSERT(r == (n ? &A[0] : (struct cds_wfq_node *) 0), "cds_wfq_dequeue_blocking: oldest real node");
	VERIF_ASSERT(!G_unlocked_access, "cds_wfq_dequeue_blocking: queue words only touched with the queue mutex held");
	VERIF_ASSERT(G_locks == 1 && G_unlocks == 1 && !G_other_lock && OS_HELD(G_lock) == 0 && G_os_locks_held == 0, "cds_wfq_dequeue_blocking: the mutex is taken once and released once");
	VERIF_COVER(n == 2); VERIF_COVER(n == 0);
}
#endif
