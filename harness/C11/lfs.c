/*
 * C11 / C17 - lock-free stacks (cds_lfs and the legacy RCU variant cds_lfs_rcu).
 *  SEQ: push / pop / pop_all / empty on a quiescent stack of symbolic depth (pool layout, S[0] = top).
 *  ENV: pop and push under ARBITRARY interference on `head` (any number of pushes and pops by other
 *       threads between any two accesses), with
 *         rely    - head is NULL or a live pool node; a node's next field is not modified while the
 *                   caller may still hold a reference to it (no ABA: what mutual exclusion of poppers /
 *                   RCU + grace period before reuse provide);
 *         tokens  - every environment step that changes `head` consumes one token of an arbitrary budget;
 *                   the retry loop carries  decreases(tokens): a retry happens only when another operation
 *                   made progress  =>  lock-freedom (C17.O3), for unbounded budgets (loop contract).
 * Real text: src/lfstack.c / src/rculfstack.c over include/urcu/static/{lfstack,rculfstack}.h.
 */
#include <verif/verif.h>
#include <verif/os_stubs.h>
#include <urcu/compiler.h>
#include <urcu/arch.h>
#include <urcu/system.h>
#include <urcu/uatomic.h>
#define _LGPL_SOURCE	/* as in the real build of rculfstack.c: rcu_dereference is the inline macro, not the exported symbol */
#include <urcu/pointer.h>
#undef _LGPL_SOURCE
static void env_step(void);
#ifdef ENV_MODE
#define VERIF_ENV() env_step()
#endif
static void store_hook(void *addr, void *val);
#define VERIF_STORE_HOOK(addr, val) store_hook((void *)(addr), (void *)(unsigned long)(val))
static void cas_result(void *addr, void *expected, void *observed);
#define VERIF_CAS_RESULT(addr, e, o) cas_result((void *)(addr), (void *)(unsigned long)(e), (void *)(unsigned long)(o))
#include <verif/atomics_seq.h>

/* ghost */
unsigned long G_tokens;			/* interference budget (arbitrary) */
unsigned long G_env_on;
unsigned long G_cas_ok;			/* successful head updates by the function under proof */
void *G_cas_new, *G_cas_old;		/* value installed / replaced by the last one */
void *G_head_addr;
unsigned long G_fresh;			/* the caller's private copy of head was observed after the last change of head */
unsigned long G_t0;

#ifdef ENV_MODE
#undef URCU_VERIF_LOOP_lfs_pop
#define URCU_VERIF_LOOP_lfs_pop									\
	__CPROVER_assigns(G_tokens, s->head, G_cas_ok, G_cas_new, G_cas_old, G_fresh)		\
	__CPROVER_loop_invariant(G_cas_ok == 0 && HEAD_OK(s->head) && G_tokens <= G_t0)	\
	__CPROVER_decreases(G_tokens)
#undef URCU_VERIF_LOOP_lfs_push
#define URCU_VERIF_LOOP_lfs_push								\
	__CPROVER_assigns(G_tokens, s->head, G_cas_ok, G_cas_new, G_cas_old, G_fresh, head, node->next)	\
	__CPROVER_loop_invariant(G_cas_ok == 0 && HEAD_OK(s->head) && G_tokens <= G_t0)	\
	__CPROVER_loop_invariant(G_fresh <= 1 && (!G_fresh || head == s->head))		\
	__CPROVER_decreases(2 * G_tokens + (1 - G_fresh))
#endif

struct cds_lfs_node;
extern struct cds_lfs_node *LS; extern unsigned long LS_n;
#define HEAD_OK(h) ((h) == 0 || (__CPROVER_same_object((h), LS) && __CPROVER_POINTER_OFFSET(h) % sizeof(void *) == 0 && __CPROVER_POINTER_OFFSET(h) / sizeof(void *) < LS_n))

#include "lfstack.c"
#include "rculfstack.c"
#include <verif/pool.h>

typedef struct cds_lfs_node lnode_t;
lnode_t *LS; unsigned long LS_n;
struct __cds_lfs_stack st;
#define LTOP(i) ((i) < LS_n ? &LS[i] : (lnode_t *) 0)
#define LINST(k) do { if ((k) < LS_n) LS[k].next = LTOP((k) + 1); } while (0)

static void cas_result(void *addr, void *expected, void *observed)
{
	if (addr == G_head_addr && expected != observed) G_fresh = 1;	/* a failed CAS returns the current head */
}
static void store_hook(void *addr, void *val)
{
	if (addr == G_head_addr) { G_cas_old = *(void **) addr; G_cas_new = val; G_cas_ok++; }
}

/* environment: other threads push / pop: head moves to NULL or to any live node; costs a token */
static void env_step(void)
{
	if (G_env_on && G_tokens > 0 && nondet_bool()) {
		unsigned long j = nondet_ulong();
		G_tokens--; G_fresh = 0;
		st.head = (j < LS_n) ? (struct cds_lfs_head *) &LS[j] : (struct cds_lfs_head *) 0;
	}
}

static void mk(void)
{
	LS_n = nondet_ulong(); VERIF_REQUIRE(LS_n <= POOL_MAXN);
	LS = malloc((LS_n + 1) * sizeof(lnode_t)); VERIF_REQUIRE(LS != 0);
	st.head = (struct cds_lfs_head *) LTOP(0);
	LINST(0); LINST(1);
	G_head_addr = &st.head; G_cas_ok = 0; G_env_on = 0;
}

/* ---------------- sequential --------------------------------------------------------------- */
void h_lfs_push(void)
{
	lnode_t N; bool r;
	mk();
	cds_lfs_node_init(&N);
	r = cds_lfs_push(&st, &N);
	VERIF_ASSERT(r == (LS_n != 0), "lfs push: returns whether the stack was non-empty");
	VERIF_ASSERT(st.head == (struct cds_lfs_head *) &N && N.next == LTOP(0), "lfs push: new top linked above the old top");
	VERIF_ASSERT(LS_n == 0 || LS[0].next == LTOP(1), "lfs push: old nodes untouched");
	VERIF_COVER(LS_n > 3); VERIF_COVER(LS_n == 0);
}
void h_lfs_pop(void)
{
	lnode_t *r;
	mk();
	r = __cds_lfs_pop(&st);
	VERIF_ASSERT(r == LTOP(0), "lfs pop: returns the top, NULL iff empty");
	VERIF_ASSERT(st.head == (struct cds_lfs_head *) LTOP(1), "lfs pop: head is the successor of the popped node");
	VERIF_ASSERT(LS_n == 0 || LS[0].next == LTOP(1), "lfs pop: nodes untouched");
	VERIF_ASSERT(cds_lfs_empty(&st) == (LS_n <= 1), "lfs empty() <=> no node stacked");
	VERIF_COVER(LS_n > 3); VERIF_COVER(LS_n == 1); VERIF_COVER(LS_n == 0);
}
void h_lfs_pop_all(void)
{
	struct cds_lfs_head *h;
	mk();
	h = __cds_lfs_pop_all(&st);
	VERIF_ASSERT(h == (struct cds_lfs_head *) LTOP(0), "lfs pop_all: whole chain from the top, NULL iff empty");
	VERIF_ASSERT(st.head == 0 && cds_lfs_empty(&st), "lfs pop_all: stack left empty");
	VERIF_ASSERT(LS_n == 0 || LS[0].next == LTOP(1), "lfs pop_all: chain intact");
	VERIF_COVER(LS_n > 3); VERIF_COVER(LS_n == 0);
}
/* legacy RCU variant: same layout through struct cds_lfs_node_rcu */
void h_rculfs(void)
{
	struct cds_lfs_stack_rcu rs; struct cds_lfs_node_rcu A, B, N, *r; int p; unsigned n;
	n = nondet_uint(); VERIF_REQUIRE(n <= 2);
	cds_lfs_init_rcu(&rs);
	B.next = 0; A.next = &B;
	rs.head = n == 0 ? 0 : (n == 1 ? &B : &A);
	if (nondet_bool()) {
		p = cds_lfs_push_rcu(&rs, &N);
		VERIF_ASSERT(p == (n != 0) && rs.head == &N && N.next == (n == 0 ? 0 : (n == 1 ? &B : &A)), "rculfs push: new top above the old one, returns non-empty flag");
	} else {
		r = cds_lfs_pop_rcu(&rs);
		VERIF_ASSERT(r == (n == 0 ? 0 : (n == 1 ? &B : &A)) && rs.head == (n == 2 ? &B : 0), "rculfs pop: top node, head = its successor");
	}
	VERIF_COVER(n == 2); VERIF_COVER(n == 0);
}

/* ---------------- under arbitrary interference (unbounded: loop contracts) -------------------- */
#ifdef ENV_MODE
void h_lfs_pop_env(void)
{
	lnode_t *r; unsigned long t0;
	mk();
	G_tokens = nondet_ulong(); VERIF_REQUIRE(G_tokens < (1UL << 62)); t0 = G_t0 = G_tokens; G_env_on = 1; G_fresh = 0;
	/* rely: next fields of live nodes are stable during the call - they are never written by the environment */
	r = __cds_lfs_pop(&st);
	G_env_on = 0;
	if (r == 0) {
		VERIF_ASSERT(G_cas_ok == 0, "ENV lfs pop: NULL (empty head observed) without modifying the stack");
	} else {
		VERIF_ASSERT(G_cas_ok == 1, "ENV lfs pop: exactly one successful CAS");
		VERIF_ASSERT(G_cas_old == (void *) r, "ENV lfs pop: returns the node that was head when its CAS succeeded (linearisation point)");
		VERIF_ASSERT(G_cas_new == (void *) r->next, "ENV lfs pop: installs that node's successor (no-ABA rely: next is stable while referenced)");
	}
	VERIF_ASSERT(t0 >= G_tokens, "tokens only decrease");
	VERIF_COVER(r != 0 && t0 - G_tokens >= 1);
}
void h_lfs_push_env(void)
{
	lnode_t N; bool r; unsigned long t0;
	mk();
	G_tokens = nondet_ulong(); VERIF_REQUIRE(G_tokens < (1UL << 62)); t0 = G_t0 = G_tokens; G_env_on = 1; G_fresh = 0;
	r = cds_lfs_push(&st, &N);
	G_env_on = 0;
	VERIF_ASSERT(G_cas_ok == 1 && G_cas_new == (void *) &N, "ENV lfs push: exactly one successful CAS, installing the new node");
	VERIF_ASSERT((void *) N.next == G_cas_old, "ENV lfs push: the new node's next is exactly the head it replaced");
	VERIF_ASSERT(r == (G_cas_old != 0), "ENV lfs push: returns whether the stack was non-empty at the linearisation point");
	VERIF_COVER(t0 - G_tokens >= 1 && G_cas_old != 0);
}
#endif
