/*
 * C11 - wait-free stack (cds_wfs): sequential LIFO contracts on a quiescent stack of symbolic depth (pool
 * layout: S[0] is the top, S[k].next = S[k+1], the last links to the END sentinel), and pop under a
 * concurrent pusher (ENV).  Real text: src/wfstack.c over include/urcu/static/wfstack.h.
 */
#include <verif/verif.h>
#include <verif/os_stubs.h>
#include <urcu/compiler.h>
#include <urcu/arch.h>
#include <urcu/system.h>
#include <urcu/uatomic.h>
unsigned long G_relax, G_xchg_seen, G_order_ok, G_cas_ok;
void *G_head_addr, *G_cas_new;
static void evt(int kind, void *addr, int mo);
static void env_step(void);
#define VERIF_EVT(kind, addr, mo, val) evt((kind), (void *)(addr), (int)(mo))
#ifdef ENV_MODE
#define VERIF_ENV() env_step()
#endif
static void store_hook(void *addr, void *val);
#define VERIF_STORE_HOOK(addr, val) store_hook((void *)(addr), (void *)(unsigned long)(val))
#include <verif/atomics_seq.h>
#include "wfstack.c"
#include <verif/pool.h>

typedef struct cds_wfs_node node_t;
POOL_DECL(S, node_t);
struct __cds_wfs_stack st;
#define ENDN ((node_t *) CDS_WFS_END)
#define TOP(i) ((i) < S_n ? &S[i] : ENDN)
#define INST(k) do { if ((k) < S_n) S[k].next = TOP((k) + 1); } while (0)

static void evt(int kind, void *addr, int mo)
{
	if (kind == EV_RELAX) G_relax++;
	if (kind == EV_XCHG && addr == G_head_addr) { G_xchg_seen++; if (mo < CMM_SEQ_CST) G_order_ok = 0; }
	if (kind == EV_STORE && G_xchg_seen && mo < CMM_RELEASE) G_order_ok = 0;
	if (kind == EV_STORE && !G_xchg_seen) G_order_ok = 0;
}
static void store_hook(void *addr, void *val)
{
	if (addr == G_head_addr) { G_cas_new = val; G_cas_ok++; }
}

static void mk(void)
{
	POOL_ALLOC(S, node_t);
	st.head = (struct cds_wfs_head *) TOP(0);
	INST(0); INST(1);
	G_head_addr = &st.head; G_order_ok = 1; G_xchg_seen = 0; G_relax = 0; G_cas_ok = 0;
}

/* ---------------- sequential ------------------------------------------------------------------ */
void h_push(void)
{
	node_t N; int r;
	mk();
	cds_wfs_node_init(&N);
	r = cds_wfs_push(&st, &N);
	VERIF_ASSERT(r == (S_n != 0), "wfs push: returns whether the stack was non-empty");
	VERIF_ASSERT(st.head == (struct cds_wfs_head *) &N && N.next == TOP(0), "wfs push: new top, linked above the old top (END kept for an empty stack)");
	VERIF_ASSERT(S_n == 0 || S[0].next == TOP(1), "wfs push: old nodes untouched");
	VERIF_ASSERT(G_xchg_seen == 1 && G_order_ok, "wfs push: head exchange (full barrier) precedes the release store of next");
	VERIF_ASSERT(G_relax == 0, "wfs push: wait-free (no waiting primitive)");
	VERIF_COVER(S_n > 3); VERIF_COVER(S_n == 0);
}

unsigned long in_blocking;
void h_pop(void)
{
	node_t *r; int state = 55;
	mk();
	VIN(unsigned long, in_blocking);
	r = (in_blocking & 1) ? __cds_wfs_pop_with_state_blocking(&st, &state) : __cds_wfs_pop_with_state_nonblocking(&st, &state);
	VERIF_ASSERT(r != CDS_WFS_WOULDBLOCK, "wfs pop: never WOULDBLOCK on a quiescent stack");
	VERIF_ASSERT(r == (S_n ? &S[0] : (node_t *) 0), "wfs pop: returns the top, NULL iff empty");
	VERIF_ASSERT(st.head == (struct cds_wfs_head *) (S_n ? TOP(1) : ENDN), "wfs pop: head is the successor of the popped node");
	VERIF_ASSERT(state == (S_n == 1 ? CDS_WFS_STATE_LAST : 0), "wfs pop: LAST iff the stack became empty");
	VERIF_ASSERT(S_n == 0 || S[0].next == TOP(1), "wfs pop: nodes untouched");
	VERIF_ASSERT(G_relax == 0, "wfs pop: no waiting on a quiescent stack");
	VERIF_COVER(S_n > 3); VERIF_COVER(S_n == 1); VERIF_COVER(S_n == 0);
}

void h_pop_all(void)
{
	struct cds_wfs_head *h; node_t *f, *nx; unsigned long k;
	mk();
	k = nondet_ulong(); VERIF_REQUIRE(S_n == 0 || k < S_n); INST(k);
	h = __cds_wfs_pop_all(&st);
	VERIF_ASSERT(h == (S_n ? (struct cds_wfs_head *) &S[0] : (struct cds_wfs_head *) 0), "wfs pop_all: whole chain from the top, NULL iff empty");
	VERIF_ASSERT(st.head == CDS_WFS_END && cds_wfs_empty(&st), "wfs pop_all: stack left empty");
	if (S_n) {
		f = cds_wfs_first(h);
		VERIF_ASSERT(f == &S[0], "wfs first: top of the popped chain");
		VIN(unsigned long, in_blocking);
		nx = (in_blocking & 1) ? cds_wfs_next_blocking(&S[k]) : cds_wfs_next_nonblocking(&S[k]);
		VERIF_ASSERT(nx == (k + 1 < S_n ? &S[k + 1] : (node_t *) 0), "wfs next: position k+1, NULL at the bottom => for_each visits all popped nodes in LIFO order");
	}
	VERIF_ASSERT(G_relax == 0, "wfs pop_all / iteration: no waiting");
	VERIF_COVER(S_n > 3 && k == S_n - 1); VERIF_COVER(S_n > 3 && k == 1); VERIF_COVER(S_n == 0);
}

/* ---------------- pop under a concurrent pusher -------------------------------------------- */
node_t P;
unsigned long G_m, G_done, G_env_on;
node_t *G_old;
static void env_sub(void)
{
	unsigned a = nondet_uint();
	if (a == 1 && G_m < 1) {		/* E1: old = xchg(&head, &P) */
		G_old = (node_t *) st.head; st.head = (struct cds_wfs_head *) &P; G_m = 1;
	} else if (a == 2 && G_m && !G_done) {	/* E2: P.next = old */
		P.next = G_old; G_done = 1;
	}
}
static void env_step(void) { if (G_env_on) { env_sub(); env_sub(); } }

#ifdef ENV_MODE
void h_pop_env(void)
{
	node_t *r; int state = 0; unsigned long cas0;
	mk();
	P.next = 0; G_m = 0; G_done = 0; G_env_on = 1;
	VIN(unsigned long, in_blocking);
	r = (in_blocking & 1) ? __cds_wfs_pop_with_state_blocking(&st, &state) : __cds_wfs_pop_with_state_nonblocking(&st, &state);
	cas0 = G_cas_ok;
	env_step(); G_env_on = 0;
	if (G_m && !G_done) { P.next = G_old; G_done = 1; }
	if (r == CDS_WFS_WOULDBLOCK) {
		VERIF_ASSERT(!(in_blocking & 1), "ENV wfs pop: only the non-blocking variant returns WOULDBLOCK");
		VERIF_ASSERT(st.head == (struct cds_wfs_head *) (G_m ? &P : TOP(0)) && (!G_m || P.next == TOP(0)), "ENV wfs pop: WOULDBLOCK leaves the stack unchanged");
	} else if (r == 0) {
		VERIF_ASSERT(S_n == 0, "ENV wfs pop: NULL only if the stack was empty at some instant of the call");
		VERIF_ASSERT(st.head == (struct cds_wfs_head *) (G_m ? &P : ENDN) && (!G_m || P.next == ENDN), "ENV wfs pop: nothing lost");
	} else if (r == &P) {
		VERIF_ASSERT(G_m == 1, "ENV wfs pop: popped the concurrently pushed node");
		VERIF_ASSERT(st.head == (struct cds_wfs_head *) TOP(0), "ENV wfs pop: the older nodes remain, in order");
		VERIF_ASSERT((state & CDS_WFS_STATE_LAST) ? S_n == 0 : S_n > 0, "ENV wfs pop: LAST iff the stack was empty right after this pop took effect");
	} else {
		VERIF_ASSERT(r == TOP(0) && S_n, "ENV wfs pop: returns the node that was on top when the pop took effect");
		VERIF_ASSERT(st.head == (struct cds_wfs_head *) (G_m ? &P : TOP(1)) && (!G_m || P.next == TOP(1)), "ENV wfs pop: remaining nodes (incl. the concurrently pushed one) all still stacked, in order");
		VERIF_ASSERT((state & CDS_WFS_STATE_LAST) ? S_n == 1 : S_n > 1, "ENV wfs pop: LAST iff the stack was empty right after this pop took effect");
	}
	VERIF_ASSERT(r == 0 || r == CDS_WFS_WOULDBLOCK || cas0 == 1, "ENV wfs pop: exactly one successful head update");
	VERIF_COVER(r == &P && S_n == 1); VERIF_COVER(r == &S[0] && G_m && S_n == 1); VERIF_COVER(r == CDS_WFS_WOULDBLOCK && G_m);
	VERIF_COVER(r == &P && (in_blocking & 1) && S_n > 2);
}
#endif
