/*
 * C20 - uatomic operations against the documented sequential semantics, for every operand width /
 * signedness, every operand value and several operand TYPES (the API is a macro family: the operand's
 * own type takes part in the conversions).
 *
 * Two configurations of the real headers:
 *   default  : include/urcu/uatomic/x86.h + generic.h - the path compiled on this machine.  The 32 inline-asm
 *              statements are replaced per run (must-fire, scratch mirror) by the ASSUMED instruction
 *              contracts of verif/x86_insn.h; everything around them (size dispatch, casts, result
 *              arithmetic, sub = add of the negation, inc/dec) is the real text and is what is proved.
 *   BUILTINS : -DCONFIG_RCU_USE_ATOMIC_BUILTINS: builtins-generic.h on top of CBMC's models of __atomic_*.
 *
 * Specification of an operation on an object x of type T with operand v of type V (old value o):
 *   the plain C expression evaluated with the usual arithmetic conversions and converted back to T,
 *   e.g. sub_return: x' = (T)(o - v), result = x'.   Guard bytes around x must not change.
 */
#include <verif/verif.h>
#ifndef BUILTINS
#include <verif/x86_insn.h>
#endif
#include <urcu/uatomic.h>

unsigned long G_mb;	/* number of full barriers executed (cmm_smp_mb) - x86 path only */

unsigned long in_o, in_v, in_w, in_op, in_sel;

#define GUARD 0x5aa5c33c96690ff0UL
/* o + v / o - v modulo 2^width: both operands converted to 64 bits with their own signedness, wrapped,
 * truncated to T.  Equal to the C expression wherever that is defined, and wrapping where C overflows. */
#define ADD(T, o, v) ((T) ((unsigned long) (o) + (unsigned long) (v)))
#define SUB(T, o, v) ((T) ((unsigned long) (o) - (unsigned long) (v)))

/* the guard AFTER the location is a byte array, so that it starts at the very next byte whatever the width of T (an
 * unsigned long there would leave up to 7 padding bytes in which a too-wide access goes unnoticed) */
#define GUARD_AFTER_OK(s) ((s).g1[0] == 0x0f && (s).g1[1] == 0xf0 && (s).g1[2] == 0x69 && (s).g1[3] == 0x96 && (s).g1[4] == 0x3c && (s).g1[5] == 0xc3 && (s).g1[6] == 0xa5 && (s).g1[7] == 0x5a)
#define GUARD_AFTER_SET(s) do { (s).g1[0] = 0x0f; (s).g1[1] = 0xf0; (s).g1[2] = 0x69; (s).g1[3] = 0x96; (s).g1[4] = 0x3c; (s).g1[5] = 0xc3; (s).g1[6] = 0xa5; (s).g1[7] = 0x5a; } while (0)
#define CHECK_GUARDS(s, what) VERIF_ASSERT((s).g0 == GUARD && GUARD_AFTER_OK(s), what ": neighbouring bytes untouched (the 8 bytes before and the 8 bytes immediately after the location)")

/* one location type T, one operand type V: all read-modify-write operations */
#define DEF_RMW(NAME, T, V)										\
static void rmw_##NAME(void)										\
{													\
	struct { unsigned long g0; T x; unsigned char g1[8]; } s;					\
	T o = (T) in_o; long long r;	/* the RAW value of the expression, widened: a result computed in a promoted type and not truncated back must not hide behind an assignment to T */	\
	V v = (V) in_v;											\
	T w = (T) in_w;											\
	s.g0 = GUARD; GUARD_AFTER_SET(s);								\
	switch (in_op) {										\
	case 0:												\
		s.x = o; r = (long long) uatomic_add_return(&s.x, v);						\
		VERIF_ASSERT(s.x == ADD(T, o, v), #NAME " add_return: stored value = o + v truncated to the width");	\
		VERIF_ASSERT(r == (long long) ADD(T, o, v), #NAME " add_return: returns the new value with the type of the object");	\
		break;											\
	case 1:												\
		s.x = o; r = (long long) uatomic_sub_return(&s.x, v);						\
		VERIF_ASSERT(s.x == SUB(T, o, v), #NAME " sub_return: stored value = o - v truncated to the width");	\
		VERIF_ASSERT(r == (long long) SUB(T, o, v), #NAME " sub_return: returns the new value with the type of the object");	\
		break;											\
	case 2:												\
		s.x = o; uatomic_add(&s.x, v);								\
		VERIF_ASSERT(s.x == ADD(T, o, v), #NAME " add: stored value = o + v truncated");		\
		break;											\
	case 3:												\
		s.x = o; uatomic_sub(&s.x, v);								\
		VERIF_ASSERT(s.x == SUB(T, o, v), #NAME " sub: stored value = o - v truncated");		\
		break;											\
	case 4:												\
		s.x = o; uatomic_inc(&s.x);								\
		VERIF_ASSERT(s.x == ADD(T, o, 1), #NAME " inc: stored value = o + 1 truncated");		\
		break;											\
	case 5:												\
		s.x = o; uatomic_dec(&s.x);								\
		VERIF_ASSERT(s.x == SUB(T, o, 1), #NAME " dec: stored value = o - 1 truncated");		\
		break;											\
	case 6:												\
		s.x = o; uatomic_and(&s.x, v);								\
		VERIF_ASSERT(s.x == (T) (o & v), #NAME " and: stored value = o & v");			\
		break;											\
	case 7:												\
		s.x = o; uatomic_or(&s.x, v);								\
		VERIF_ASSERT(s.x == (T) (o | v), #NAME " or: stored value = o | v");			\
		break;											\
	case 8:												\
		s.x = o; r = (long long) uatomic_xchg(&s.x, v);							\
		VERIF_ASSERT(s.x == (T) v, #NAME " xchg: stores the operand truncated to the width");	\
		VERIF_ASSERT(r == (long long) o, #NAME " xchg: returns the old value with the sign of the object's type");	\
		break;											\
	case 9:												\
		s.x = o; r = (long long) uatomic_cmpxchg(&s.x, w, v);						\
		VERIF_ASSERT(r == (long long) o, #NAME " cmpxchg: returns the old value with the sign of the object's type");	\
		VERIF_ASSERT(s.x == (o == w ? (T) v : o), #NAME " cmpxchg: stores new iff old == expected");	\
		break;											\
	case 10:											\
		s.x = o; uatomic_set(&s.x, v);								\
		VERIF_ASSERT(s.x == (T) v, #NAME " set: stores the operand truncated to the width");	\
		r = (long long) uatomic_read(&s.x);									\
		VERIF_ASSERT(r == (long long) (T) v, #NAME " read: returns the stored value");			\
		break;											\
	default:											\
		s.x = o; uatomic_store(&s.x, v, CMM_SEQ_CST);						\
		VERIF_ASSERT(s.x == (T) v, #NAME " store(SEQ_CST): stores the operand");		\
		r = (long long) uatomic_load(&s.x, CMM_SEQ_CST);							\
		VERIF_ASSERT(r == (long long) (T) v, #NAME " load(SEQ_CST): returns the stored value");		\
		break;											\
	}												\
	CHECK_GUARDS(s, #NAME);										\
	VERIF_COVER(in_op == 1 && SUB(T, o, v) != o);							\
	VERIF_COVER(in_op == 9 && o == w && (T) v != o);						\
}

#define DEF_T(TN, T)				\
	DEF_RMW(TN##_int, T, int)		\
	DEF_RMW(TN##_uint, T, unsigned int)	\
	DEF_RMW(TN##_long, T, long)		\
	DEF_RMW(TN##_ulong, T, unsigned long)	\
	DEF_RMW(TN##_schar, T, signed char)	\
	DEF_RMW(TN##_ushort, T, unsigned short)	\
void h_##TN(void)				\
{						\
	unsigned sel;				\
	VIN(unsigned long, in_o); VIN(unsigned long, in_v); VIN(unsigned long, in_w); VIN(unsigned long, in_op);	\
	VIN(unsigned long, in_sel); sel = (unsigned) in_sel;	\
	VERIF_REQUIRE(in_op <= 11);		\
	switch (sel) {				\
	case 0: rmw_##TN##_int(); break;	\
	case 1: rmw_##TN##_uint(); break;	\
	case 2: rmw_##TN##_long(); break;	\
	case 3: rmw_##TN##_ulong(); break;	\
	case 4: rmw_##TN##_schar(); break;	\
	default: rmw_##TN##_ushort(); break;	\
	}					\
}

DEF_T(u8, unsigned char)
DEF_T(i8, signed char)
DEF_T(u16, unsigned short)
DEF_T(i16, short)
DEF_T(u32, unsigned int)
DEF_T(i32, int)
DEF_T(u64, unsigned long)
DEF_T(i64, long)

/* pointers */
void h_ptr(void)
{
	struct { unsigned long g0; void *x; unsigned char g1[8]; } s;
	void *o, *v, *w, *r;
	VIN(unsigned long, in_o); VIN(unsigned long, in_v); VIN(unsigned long, in_w); VIN(unsigned long, in_op);
	o = (void *) in_o; v = (void *) in_v; w = (void *) in_w;
	s.g0 = GUARD; GUARD_AFTER_SET(s);
	s.x = o;
	if (in_op == 0) {
		r = uatomic_xchg(&s.x, v);
		VERIF_ASSERT(r == o && s.x == v, "ptr xchg");
	} else if (in_op == 1) {
		r = uatomic_cmpxchg(&s.x, w, v);
		VERIF_ASSERT(r == o && s.x == (o == w ? v : o), "ptr cmpxchg");
	} else {
		uatomic_set(&s.x, v);
		VERIF_ASSERT(uatomic_read(&s.x) == v, "ptr set/read");
	}
	CHECK_GUARDS(s, "ptr");
	VERIF_COVER(in_op == 1 && o == w && v != o);
}

#ifdef VERIF_NATIVE
int main(void) { VERIF_ENTRY(); printf("REPLAY-PASS\n"); return 0; }
#endif
