/*
 * Native reproducer for C20.O5 (asm operand constraints of uatomic/x86.h): read-modify-write operations on an object
 * whose address does not escape.  An asm statement that reads and writes its memory operand but declares it write-only
 * ("=m") lets GCC treat the previous value as dead: at -O1 and above the initialising store is dropped and the
 * instruction operates on whatever the stack slot held.  Exit 0 = every operation gives the documented result.
 */
#include <stdio.h>
#include <urcu/uatomic.h>
#define T(type, name, init, op, expect) \
	static __attribute__((noinline)) type name(type seed) { type x = seed; op; return x; }
T(int, f_inc, 0, uatomic_inc(&x), 0)
T(int, f_dec, 0, uatomic_dec(&x), 0)
T(long, f_add, 0, uatomic_add(&x, 5), 0)
T(unsigned short, f_or, 0, uatomic_or(&x, 0x10), 0)
T(unsigned char, f_and, 0, uatomic_and(&x, 0x0f), 0)
T(long, f_sub, 0, uatomic_sub(&x, 3), 0)
int main(int argc, char **argv)
{
	int bad = 0;
	(void) argv;
#define CHK(call, expect) do { long r = (long) (call); if (r != (long) (expect)) { printf("REPLAY-FAIL: %s = %ld, documented result %ld\n", #call, r, (long) (expect)); bad = 1; } } while (0)
	CHK(f_inc(argc + 40), 42);
	CHK(f_dec(argc + 40), 40);
	CHK(f_add(argc + 99), 105);
	CHK(f_or((unsigned short) (argc + 0x100)), 0x111);
	CHK(f_and((unsigned char) (argc + 0xf4)), 0x05);
	CHK(f_sub(argc + 99), 97);
	if (!bad) printf("REPLAY-PASS\n");
	return bad;
}
