/*
 * C08.O5 / C06.O1 - _cds_lfht_add of src/rculfhash.c on a chain of unbounded length (pool encoding; loop
 * contract with variant on the inner walk; the outer retry loop runs once on a quiescent table - unwinding
 * assertion): plain add (duplicates allowed), bucket add (table growth) and unique add.
 * Sequentially reachable chains carry no REMOVED node (postcondition of del / replace, C07.O2), which makes the
 * garbage-collection branch dead.  check_resize and cds_lfht_next_duplicate are used through their contracts.
 */
#include <verif/lfht_harness_pre.h>
unsigned long G_cas_pos, G_cas_isx;
void *G_cas_new;
void lf_cas_event(void *addr, void *oldv, void *newv)
{
	(void) oldv;
	G_cas_count++; G_cas_new = newv;
	if (LF_IS_POOL(addr)) { G_cas_pos = LF_IDX(addr); G_cas_isx = 0; G_dirty1 = G_cas_pos; }
	else G_cas_isx = 1;
}
unsigned long G_bucket_flag;	/* ghost copy of the bucket_flag argument */

#define POSP	(LF_IDX(iter_prev))
#undef URCU_VERIF_LOOP_lfht_add
#define URCU_VERIF_LOOP_lfht_add										\
	__CPROVER_assigns(iter_prev, iter, next, chain_len, ht->resize_target, ht->resize_initiated)		\
	__CPROVER_loop_invariant(CANONP(iter_prev) && G_b <= POSP && POSP < G_n)				\
	__CPROVER_loop_invariant(iter == LF_TAG(LF_AT(POSP + 1), G_fl[POSP]) && !(G_fl[POSP] & 5) && G_fl[POSP] <= 7)	\
	__CPROVER_loop_invariant(G_pool[POSP].reverse_hash <= node->reverse_hash)				\
	__CPROVER_loop_invariant(!G_bucket_flag || POSP == G_b || G_pool[POSP].reverse_hash < node->reverse_hash)	\
	__CPROVER_loop_invariant(POSP + 1 >= G_n || G_pool[POSP].reverse_hash <= G_pool[POSP + 1].reverse_hash)	\
	/* unique add: no live matching node of the equal-hash run has been passed */				\
	__CPROVER_loop_invariant(!(G_b < G_w && G_w <= POSP) || G_pool[G_w].reverse_hash != node->reverse_hash || (G_fl[G_w] & 2) || !G_uniq)	\
	__CPROVER_decreases(G_n - POSP)
unsigned long G_uniq;

#include "rculfhash.c"
#include <verif/lfht_harness_post.h>

/* contracts of the callees */
static void check_resize(struct cds_lfht *ht, unsigned long size, uint32_t chain_len)
__CPROVER_requires(1)
__CPROVER_assigns(ht->resize_target, ht->resize_initiated)
__CPROVER_ensures(1)
;
/* contract proved by C08.O4.next_duplicate (iter->node carries the reverse hash, the walk starts at iter->next) */
#define ND_START (LF_IDX(VLF_clear_flag(__CPROVER_old(iter->next))))
void cds_lfht_next_duplicate(struct cds_lfht *ht, cds_lfht_match_fct match, const void *key, struct cds_lfht_iter *iter)
__CPROVER_requires(iter->node == G_x && CANONP(VLF_clear_flag(iter->next)) && match == h_match && *(const unsigned long *) key == G_K)
__CPROVER_assigns(iter->node, iter->next)
__CPROVER_ensures(CANON(iter->node))
__CPROVER_ensures(iter->node == 0 || (RES_POS(iter->node) >= ND_START && LIVE(RES_POS(iter->node)) && G_pool[RES_POS(iter->node)].reverse_hash == G_x->reverse_hash && G_key[RES_POS(iter->node)] == G_K))
__CPROVER_ensures(!(ND_START <= G_w && G_w < RES_POS(iter->node)) || !(LIVE(G_w) && G_key[G_w] == G_K) || G_pool[G_w].reverse_hash != G_x->reverse_hash)
__CPROVER_ensures(iter->node == 0 ? iter->next == 0 : iter->next == LF_TAG(LF_AT(RES_POS(iter->node) + 1), G_fl[RES_POS(iter->node)]))
;

struct cds_lfht_node X;
unsigned long in_hash, in_xrh, in_key, in_mode;
struct cds_lfht_node *G_wv;

static void mk_add(void)
{
	lf_mk();
#ifdef LF_CAS_FAIL_ONCE
	G_cas_fail_budget = 1; G_cas_failed = 0;	/* the insertion compare-and-swap may fail once (transient interference) */
#endif
	G_noflags = 1;			/* sequentially reachable chain: no REMOVED / REMOVAL_OWNER flag anywhere */
	G_x = &X;
	VIN(unsigned long, in_xrh); VIN(unsigned long, in_hash);
	X.reverse_hash = in_xrh; X.next = nondet_ptr();
	G_b = G_s; VERIF_REQUIRE(G_b < G_n);	/* lookup_bucket(ht, size, hash) = chain position G_b (contract of bucket_at) ... */
	VERIF_REQUIRE(G_pool[G_b].reverse_hash <= in_xrh);	/* ... whose reverse hash does not exceed the new node's */
	G_ht.size = nondet_ulong(); VERIF_REQUIRE(G_ht.size >= 1);
	G_ht.flags = nondet_int();
	G_wv = G_pool[G_w].next;	/* frame witness: raw next word of an arbitrary other chain node */
}
#define P (G_cas_pos)
static void post_inserted(void)
{
#ifdef LF_CAS_FAIL_ONCE
	VERIF_COVER(G_cas_failed == 1);
#endif
	VERIF_ASSERT(G_cas_count == 1 && !G_cas_isx, "add: exactly one store into the chain");
	VERIF_ASSERT(P >= G_b && P < G_n, "add: inserted at or after its bucket");
	VERIF_ASSERT(G_pool[P].next == LF_TAG(&X, G_fl[P] & 2), "add: predecessor now links to the new node and keeps its own BUCKET bit");
	VERIF_ASSERT(X.next == LF_TAG(LF_AT(P + 1), G_bucket_flag ? 2 : 0), "add: new node links to the predecessor's old successor; BUCKET flag iff a bucket is being inserted");
	VERIF_ASSERT(G_pool[P].reverse_hash <= X.reverse_hash, "add: order kept on the left");
	VERIF_ASSERT(P + 1 >= G_n || X.reverse_hash <= G_pool[P + 1].reverse_hash, "add: order kept on the right");
	VERIF_ASSERT(G_bucket_flag || !(P + 1 < G_n && (G_fl[P + 1] & 2) && G_pool[P + 1].reverse_hash == X.reverse_hash), "add: a user node is never linked IN FRONT of a bucket node of equal reverse hash (it would be unreachable from that bucket once the grow that is adding it publishes the new size)");
	VERIF_ASSERT(G_w == P || G_pool[G_w].next == G_wv, "add: no other chain node modified");
	VERIF_ASSERT(G_w != P || 1, "witness may coincide with the insertion point");
}

void h_add_plain(void)
{
	mk_add(); G_bucket_flag = 0; G_uniq = 0;
	_cds_lfht_add(&G_ht, in_hash, NULL, NULL, G_ht.size, &X, NULL, 0);
	post_inserted();
	VERIF_ASSERT(P + 1 >= G_n || X.reverse_hash < G_pool[P + 1].reverse_hash, "plain add goes after ALL nodes with an equal hash (duplicates are appended to their run)");
	VERIF_COVER(P > G_b + 3 && G_pool[P].reverse_hash == X.reverse_hash); VERIF_COVER(P == G_b); VERIF_COVER(P + 1 == G_n && G_n > 4);
}
void h_add_bucket(void)
{
	mk_add(); G_bucket_flag = 1; G_uniq = 0;
	_cds_lfht_add(&G_ht, in_hash, NULL, NULL, G_ht.size, &X, NULL, 1);
	post_inserted();
	VERIF_ASSERT(P == G_b || G_pool[P].reverse_hash < X.reverse_hash, "bucket add: the new bucket node becomes the FIRST node of its equal-hash run (nodes already stored with that hash stay reachable from it)");
	VERIF_COVER(P > G_b + 2 && P + 1 < G_n && G_pool[P + 1].reverse_hash == X.reverse_hash); VERIF_COVER(P == G_b);
}
void h_add_unique(void)
{
	struct cds_lfht_iter ret; unsigned long key;
	mk_add(); G_bucket_flag = 0; G_uniq = 1;
	VIN(unsigned long, in_key); key = in_key; G_K = in_key;
	ret.node = 0; ret.next = 0;
	_cds_lfht_add(&G_ht, in_hash, h_match, &key, G_ht.size, &X, &ret, 0);
	if (ret.node == &X) {
		post_inserted();
		/* G_w is arbitrary: the executions with G_w == P cover every insertion position */
		VERIF_ASSERT(G_w != P || P == G_b || G_pool[P].reverse_hash < X.reverse_hash || (G_fl[P] & 2), "unique add: inserted at the HEAD of the equal-hash run (after an equal-hash bucket node only)");
		VERIF_ASSERT(!(G_w > G_b && LIVE(G_w) && G_pool[G_w].reverse_hash == X.reverse_hash && G_key[G_w] == G_K), "unique add inserts only if no live node with that hash matches the key anywhere in the run");
	} else {
		VERIF_ASSERT(G_cas_count == 0, "unique add: an existing duplicate => nothing is written");
		VERIF_ASSERT(CANONP(ret.node) && LIVE(RES_POS(ret.node)) && G_pool[RES_POS(ret.node)].reverse_hash == X.reverse_hash && G_key[RES_POS(ret.node)] == G_K, "unique add: returns a live node with the same hash that matches the key");
		VERIF_ASSERT(!(G_w > G_b && G_w < RES_POS(ret.node) && LIVE(G_w) && G_pool[G_w].reverse_hash == X.reverse_hash && G_key[G_w] == G_K), "unique add: returns the FIRST such duplicate");
	}
	VERIF_COVER(ret.node == &X && P > G_b + 2 && G_w == P); VERIF_COVER(ret.node != &X && RES_POS(ret.node) > G_b + 3);
}
