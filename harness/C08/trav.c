/*
 * C08.O4 / C05.O2 / C17.O2 - hash-table traversals on a chain of unbounded length (pool encoding, loop contracts
 * with variants): cds_lfht_next, cds_lfht_first, cds_lfht_lookup, cds_lfht_next_duplicate of src/rculfhash.c.
 * Nodes on the chain may carry any combination of REMOVED / BUCKET flags (a concurrent del leaves logically
 * removed nodes linked for a while): the traversal must return the FIRST node at or after its start that is
 * neither removed nor a bucket (and, for lookups, has the requested hash and matches the key), NULL iff there
 * is none before the end / a larger reverse hash.
 */
#include <verif/lfht_harness_pre.h>
void lf_cas_event(void *addr, void *oldv, void *newv) { (void) addr; (void) oldv; (void) newv; G_cas_count++; }

#undef URCU_VERIF_LOOP_lfht_next
#define URCU_VERIF_LOOP_lfht_next										\
	__CPROVER_assigns(node, next)										\
	__CPROVER_loop_invariant(CANON(node) && G_s <= CUR(node) && CUR(node) <= G_n)				\
	__CPROVER_loop_invariant(!(G_s <= G_w && G_w < CUR(node)) || !LIVE(G_w))				\
	__CPROVER_decreases(G_n - CUR(node))
#undef URCU_VERIF_LOOP_lfht_lookup
#define URCU_VERIF_LOOP_lfht_lookup										\
	__CPROVER_assigns(node, next)										\
	__CPROVER_loop_invariant(CANON(node) && G_s <= CUR(node) && CUR(node) <= G_n)				\
	__CPROVER_loop_invariant(CUR(node) >= G_n || G_w <= CUR(node) || G_pool[CUR(node)].reverse_hash <= G_pool[G_w].reverse_hash)	\
	__CPROVER_loop_invariant(!(G_s <= G_w && G_w < CUR(node)) || !(LIVE(G_w) && G_pool[G_w].reverse_hash == G_R && G_key[G_w] == G_K))	\
	__CPROVER_decreases(G_n - CUR(node))
#undef URCU_VERIF_LOOP_lfht_next_dup
#define URCU_VERIF_LOOP_lfht_next_dup										\
	__CPROVER_assigns(node, next)										\
	__CPROVER_loop_invariant(CANON(node) && G_s <= CUR(node) && CUR(node) <= G_n)				\
	__CPROVER_loop_invariant(CUR(node) >= G_n || G_w <= CUR(node) || G_pool[CUR(node)].reverse_hash <= G_pool[G_w].reverse_hash)	\
	__CPROVER_loop_invariant(!(G_s <= G_w && G_w < CUR(node)) || !(LIVE(G_w) && G_key[G_w] == G_K) || G_pool[G_w].reverse_hash != G_R)	\
	__CPROVER_loop_invariant(CUR(node) >= G_n || G_pool[CUR(node)].reverse_hash >= G_R)			\
	__CPROVER_decreases(G_n - CUR(node))

#include "rculfhash.c"

#include <verif/lfht_harness_post.h>
#define mk lf_mk

void h_next(void)
{
	struct cds_lfht_iter it;
	mk();
	it.node = 0; it.next = LF_TAG(LF_AT(G_s), nondet_ulong() & 7);	/* positioned on chain position G_s (any tag bits) */
	cds_lfht_next(&G_ht, &it);
	VERIF_ASSERT(CANON(it.node), "next: returns a chain node or NULL");
	VERIF_ASSERT(it.node == 0 || (RES_POS(it.node) >= G_s && LIVE(RES_POS(it.node))), "next: the returned node is neither removed nor a bucket");
	VERIF_ASSERT(!(G_s <= G_w && G_w < RES_POS(it.node)) || !LIVE(G_w), "next: no live node between the start position and the result is skipped (NULL iff none left)");
	VERIF_ASSERT(it.node == 0 ? it.next == 0 : it.next == LF_TAG(LF_AT(RES_POS(it.node) + 1), G_fl[RES_POS(it.node)]), "next: iter.next is the returned node's next word");
	VERIF_COVER(it.node != 0 && RES_POS(it.node) > G_s + 3); VERIF_COVER(it.node == 0 && G_s + 3 < G_n);
}
void h_first(void)
{
	struct cds_lfht_iter it;
	mk(); G_b = 0; G_s = 1;
	cds_lfht_first(&G_ht, &it);
	VERIF_ASSERT(CANON(it.node), "first: returns a chain node or NULL");
	VERIF_ASSERT(it.node == 0 || (RES_POS(it.node) >= 1 && LIVE(RES_POS(it.node))), "first: a live node after bucket 0");
	VERIF_ASSERT(!(1 <= G_w && G_w < RES_POS(it.node)) || !LIVE(G_w), "first: the FIRST live node of the table (first+next visit every live node exactly once, in chain order)");
	VERIF_COVER(it.node != 0 && RES_POS(it.node) > 3);
}
unsigned long in_hash, in_key;
void h_lookup(void)
{
	struct cds_lfht_iter it; unsigned long key, stop;
	mk();
	VIN(unsigned long, in_hash); VIN(unsigned long, in_key);
	key = in_key; G_K = in_key; G_R = bit_reverse_ulong(in_hash);
	VERIF_REQUIRE(G_s < G_n);
	G_ht.size = nondet_ulong(); VERIF_REQUIRE(G_ht.size >= 1);
	/* contract of lookup_bucket / bucket_at: the bucket's reverse hash is not larger than the key's */
	VERIF_REQUIRE(G_pool[G_s].reverse_hash <= G_R && G_w < G_n);
	G_b = G_s; G_s = G_b + 1;	/* the walk starts AFTER the bucket node */
	cds_lfht_lookup(&G_ht, in_hash, h_match, &key, &it);
	VERIF_ASSERT(CANON(it.node), "lookup: returns a chain node or NULL");
	VERIF_ASSERT(it.node == 0 || (LIVE(RES_POS(it.node)) && G_pool[RES_POS(it.node)].reverse_hash == G_R && G_key[RES_POS(it.node)] == G_K), "lookup: the returned node is live, has the requested hash and matches the key");
	VERIF_ASSERT(!(G_s <= G_w && G_w < RES_POS(it.node)) || !(LIVE(G_w) && G_pool[G_w].reverse_hash == G_R && G_key[G_w] == G_K), "lookup: no earlier matching live node is skipped");
	if (it.node == 0) {
		/* transitive sortedness instance (precondition) for the witness beyond the stop position */
		VERIF_COVER(1);
	}
	VERIF_COVER(it.node != 0 && RES_POS(it.node) > G_s + 2); VERIF_COVER(it.node == 0);
}

void h_next_dup(void)
{
	struct cds_lfht_iter it; unsigned long key, d;
	mk();
	VIN(unsigned long, in_key);
	key = in_key; G_K = in_key;
	d = G_s; VERIF_REQUIRE(d < G_n);		/* the iterator stands on position d */
	G_R = G_pool[d].reverse_hash;
	G_s = d + 1;
	it.node = &G_pool[d]; it.next = LF_TAG(LF_AT(d + 1), nondet_ulong() & 7);
	/* wf facts at the iterator's own position (the caller obtained it from a previous traversal) */
	VERIF_REQUIRE(d + 1 >= G_n || G_pool[d].reverse_hash <= G_pool[d + 1].reverse_hash);
	VERIF_REQUIRE(d + 1 >= G_n || G_w <= d + 1 || G_pool[d + 1].reverse_hash <= G_pool[G_w].reverse_hash);
	cds_lfht_next_duplicate(&G_ht, h_match, &key, &it);
	VERIF_ASSERT(CANON(it.node), "next_duplicate: returns a chain node or NULL");
	VERIF_ASSERT(it.node == 0 || (RES_POS(it.node) > d && LIVE(RES_POS(it.node)) && G_pool[RES_POS(it.node)].reverse_hash == G_R && G_key[RES_POS(it.node)] == G_K), "next_duplicate: the returned node is a later live node with the same hash that matches the key");
	VERIF_ASSERT(!(G_s <= G_w && G_w < RES_POS(it.node)) || !(LIVE(G_w) && G_key[G_w] == G_K) || G_pool[G_w].reverse_hash != G_R, "next_duplicate: no matching live duplicate in between is skipped (NULL iff none)");
	VERIF_ASSERT(it.node == 0 ? it.next == 0 : it.next == LF_TAG(LF_AT(RES_POS(it.node) + 1), G_fl[RES_POS(it.node)]), "next_duplicate: iter.next is the returned node's next word");
	VERIF_COVER(it.node != 0 && RES_POS(it.node) > d + 2); VERIF_COVER(it.node == 0 && d + 2 < G_n);
}
