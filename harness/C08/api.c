/*
 * C06.O3 / C08.O6 / C17 - the public wrappers cds_lfht_add / add_unique / add_replace / del of src/rculfhash.c,
 * MODULARLY: _cds_lfht_add, _cds_lfht_replace, _cds_lfht_del, ht_count_add, ht_count_del are used through their
 * contracts (the contracts of the first three are what C06.O1 / C08.O5 / C06.O2 / C07.O1 prove about the real bodies on
 * unbounded chains; the counters are out of scope).  What is decided here, for all inputs:
 *   - every wrapper stores reverse_hash = bit_reverse(hash) into the node BEFORE publishing it, snapshots ht->size once
 *     (acquire) and passes that snapshot on;
 *   - add_unique: returns the node itself iff it was inserted (then, and only then, the count is incremented), else the
 *     existing duplicate, writing nothing else;
 *   - add_replace: returns NULL iff the node was inserted fresh (count + 1), returns the old node iff ONE _cds_lfht_replace
 *     succeeded on exactly the duplicate/successor pair that _cds_lfht_add reported (count unchanged); it retries only when
 *     that replace failed because another thread removed the duplicate meanwhile: each retry consumes one interference
 *     token (loop variant) - lock-free, never waits;
 *   - del: count decremented iff _cds_lfht_del succeeded, with the node's own hash.
 */
#include <verif/verif.h>
#include <verif/os_stubs.h>
#include <verif/lfht_pre.h>
#include <verif/atomics_seq.h>
#define printf(...) (0)
unsigned long G_tokens;
#undef URCU_VERIF_LOOP_lfht_add_replace
#define URCU_VERIF_LOOP_lfht_add_replace							\
	__CPROVER_assigns(iter, G_tokens, G_add_calls, G_rep_calls, G_rep_ok, G_dup_present)	\
	__CPROVER_loop_invariant(G_add_calls == G_rep_calls && G_rep_ok == 0 && G_cnt_add == 0)	\
	__CPROVER_loop_invariant(G_tokens <= G_tokens0 && G_rep_calls == G_tokens0 - G_tokens)	\
	__CPROVER_decreases(G_tokens)
unsigned long G_tokens0, G_add_calls, G_rep_calls, G_rep_ok, G_dup_present, G_cnt_add, G_cnt_del, G_bad;
#include "rculfhash.c"

struct cds_lfht HT; struct cds_lfht_node N, DUP, DUPNEXT;
unsigned long G_hash, G_size, G_cnt_hash;
const void *G_key; cds_lfht_match_fct G_match;
static int h_match(struct cds_lfht_node *n, const void *k) { (void) n; (void) k; return 1; }

/* contract of _cds_lfht_add in unique mode (C06.O1): reports either the node itself (inserted) or the first live duplicate
 * together with the successor it observed; an inserted node carries the reverse hash of the hash it was added under */
static void _cds_lfht_add(struct cds_lfht *ht, unsigned long hash, cds_lfht_match_fct match, const void *key,
		unsigned long size, struct cds_lfht_node *node, struct cds_lfht_iter *unique_ret, int bucket_flag)
__CPROVER_requires(ht == &HT && node == &N && hash == G_hash && size == G_size && bucket_flag == 0 && match == G_match && key == G_key)
__CPROVER_requires(N.reverse_hash == bit_reverse_ulong(G_hash))		/* the node is fully initialised BEFORE it can become visible */
__CPROVER_requires(unique_ret != 0 || match == 0)
__CPROVER_assigns(G_add_calls; unique_ret != 0: *unique_ret)
__CPROVER_ensures(G_add_calls == __CPROVER_old(G_add_calls) + 1)
__CPROVER_ensures(unique_ret == 0 || (unique_ret->node == (G_dup_present ? &DUP : &N) && (!G_dup_present || unique_ret->next == &DUPNEXT)))
;
/* contract of _cds_lfht_replace (C06.O2): succeeds unless the old node was removed concurrently (one token each time) */
static int _cds_lfht_replace(struct cds_lfht *ht, unsigned long size, struct cds_lfht_node *old_node, struct cds_lfht_node *old_next, struct cds_lfht_node *new_node)
__CPROVER_requires(ht == &HT && size == G_size && old_node == &DUP && old_next == &DUPNEXT && new_node == &N && G_dup_present)
__CPROVER_assigns(G_rep_calls, G_rep_ok, G_tokens, G_dup_present)
__CPROVER_ensures(G_rep_calls == __CPROVER_old(G_rep_calls) + 1)
__CPROVER_ensures(__CPROVER_return_value == 0 || __CPROVER_return_value == -ENOENT)
__CPROVER_ensures(__CPROVER_return_value == 0 ? (G_rep_ok == __CPROVER_old(G_rep_ok) + 1 && G_tokens == __CPROVER_old(G_tokens))
					       : (__CPROVER_old(G_tokens) > 0 && G_tokens == __CPROVER_old(G_tokens) - 1 && G_rep_ok == __CPROVER_old(G_rep_ok)))
;
unsigned long G_del_ret_ok;
static int _cds_lfht_del(struct cds_lfht *ht, unsigned long size, struct cds_lfht_node *node)
__CPROVER_requires(ht == &HT && size == G_size && node == &DUP)
__CPROVER_assigns()
__CPROVER_ensures(__CPROVER_return_value == (G_del_ret_ok ? 0 : -ENOENT))
;
static void ht_count_add(struct cds_lfht *ht, unsigned long size, unsigned long hash)
__CPROVER_requires(ht == &HT && size == G_size)
__CPROVER_assigns(G_cnt_add, G_cnt_hash) __CPROVER_ensures(G_cnt_add == __CPROVER_old(G_cnt_add) + 1 && G_cnt_hash == hash);
static void ht_count_del(struct cds_lfht *ht, unsigned long size, unsigned long hash)
__CPROVER_requires(ht == &HT && size == G_size)
__CPROVER_assigns(G_cnt_del, G_cnt_hash) __CPROVER_ensures(G_cnt_del == __CPROVER_old(G_cnt_del) + 1 && G_cnt_hash == hash);

unsigned long in_hash, in_size, in_dup, in_tokens, in_rh, in_delok;
static void mk(void)
{
	VIN(unsigned long, in_hash); VIN(unsigned long, in_size); VIN(unsigned long, in_dup); VIN(unsigned long, in_tokens); VIN(unsigned long, in_rh); VIN(unsigned long, in_delok);
	G_hash = in_hash; G_size = HT.size = in_size; G_dup_present = in_dup & 1; G_tokens = G_tokens0 = in_tokens;
	N.reverse_hash = in_rh;				/* garbage until the wrapper initialises it */
	G_add_calls = G_rep_calls = G_rep_ok = G_cnt_add = G_cnt_del = 0; G_key = &G_hash; G_match = h_match;
}
void h_api_add(void)
{
	mk(); G_match = 0; G_key = 0;
	cds_lfht_add(&HT, G_hash, &N);
	VERIF_ASSERT(G_add_calls == 1 && G_cnt_add == 1 && G_cnt_hash == G_hash && N.reverse_hash == bit_reverse_ulong(G_hash), "cds_lfht_add: node initialised, one insertion under the size snapshot, count + 1");
	VERIF_COVER(in_rh != 0);
}
void h_api_add_unique(void)
{
	struct cds_lfht_node *r;
	mk();
	r = cds_lfht_add_unique(&HT, G_hash, h_match, G_key, &N);
	VERIF_ASSERT(G_add_calls == 1, "cds_lfht_add_unique: exactly one _cds_lfht_add");
	VERIF_ASSERT(r == (G_dup_present ? &DUP : &N), "cds_lfht_add_unique: returns the node iff inserted, else the existing duplicate");
	VERIF_ASSERT(G_cnt_add == (G_dup_present ? 0UL : 1UL) && G_rep_calls == 0, "cds_lfht_add_unique: count + 1 iff inserted; never replaces");
	VERIF_COVER(G_dup_present); VERIF_COVER(!G_dup_present);
}
void h_api_add_replace(void)
{
	struct cds_lfht_node *r; unsigned long dup0;
	mk(); dup0 = G_dup_present;
	VERIF_REQUIRE(G_tokens0 <= 1UL << 40);
	r = cds_lfht_add_replace(&HT, G_hash, h_match, G_key, &N);
	if (!dup0) VERIF_ASSERT(r == 0 && G_add_calls == 1 && G_rep_calls == 0 && G_cnt_add == 1 && G_cnt_hash == G_hash, "cds_lfht_add_replace without a duplicate: inserted, NULL returned, count + 1");
	VERIF_ASSERT(r == 0 ? (G_rep_ok == 0 && G_cnt_add == 1 && G_cnt_hash == G_hash) : (r == &DUP && G_rep_ok == 1 && G_cnt_add == 0), "cds_lfht_add_replace: NULL iff the node was inserted fresh (count + 1); otherwise the replaced node, after exactly ONE successful replace of the (duplicate, successor) pair reported by the add; count unchanged");
	VERIF_ASSERT(G_rep_calls - G_rep_ok == G_tokens0 - G_tokens && G_add_calls == G_rep_calls + (r == 0 ? 1UL : 0UL), "cds_lfht_add_replace: every retry was caused by a concurrent removal of the duplicate (one interference token each): lock-free, no waiting");
	VERIF_ASSERT(G_tokens0 != 0 || G_add_calls == 1, "cds_lfht_add_replace without interference: one pass");
	VERIF_COVER(dup0 && G_tokens0 - G_tokens == 2 && r == &DUP); VERIF_COVER(!dup0); VERIF_COVER(dup0 && G_tokens0 == 0); VERIF_COVER(dup0 && r == 0);
}
void h_api_del(void)
{
	int r;
	mk(); G_del_ret_ok = in_delok & 1; DUP.reverse_hash = in_rh;
	r = cds_lfht_del(&HT, &DUP);
	VERIF_ASSERT(r == (G_del_ret_ok ? 0 : -ENOENT), "cds_lfht_del: result of _cds_lfht_del under one size snapshot");
	VERIF_ASSERT(G_cnt_del == (G_del_ret_ok ? 1UL : 0UL) && (!G_del_ret_ok || G_cnt_hash == bit_reverse_ulong(in_rh)), "cds_lfht_del: count - 1 iff it removed the node, under the node's own hash");
	VERIF_COVER(G_del_ret_ok); VERIF_COVER(!G_del_ret_ok);
}
