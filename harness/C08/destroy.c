/*
 * C08.O4 (count_nodes), C07.O3 / C08 (destroy succeeds iff empty) - whole-chain walks of src/rculfhash.c on a
 * chain of unbounded length: cds_lfht_count_nodes, cds_lfht_is_empty, cds_lfht_delete_bucket, cds_lfht_destroy.
 * Loop contracts (with variants) on every loop; plain reads of a node's next word are routed through the load
 * hook by a must-fire identity-macro rewrite (URCU_VERIF_RD).
 */
#define LF_PREFIX_COUNT
#include <verif/lfht_harness_pre.h>
void lf_cas_event(void *addr, void *oldv, void *newv) { (void) addr; (void) oldv; (void) newv; G_cas_count++; }
unsigned long *G_cnt;			/* ghost prefix count: G_cnt[k] = number of live nodes at positions < k */
unsigned long G_free_mask, G_top;	/* bucket-table orders freed so far / order of the current size */
#undef URCU_VERIF_RD
#define URCU_VERIF_RD(x)	lf_load_next(&(x))

#define TAGGED_CANONP(p)	(CANONP(VLF_clear_flag(p)) && LF_FLAGS(p) <= 7)
#define KPOS(p)			(LF_IDX(VLF_clear_flag(p)))
#define MASKLE(o)		(((o) + 1 >= 64) ? ~0UL : ((1UL << ((o) + 1)) - 1))	/* orders 0..o; o == -1 (wrapped) gives 0 */

#undef URCU_VERIF_LOOP_lfht_delb_walk
#define URCU_VERIF_LOOP_lfht_delb_walk										\
	__CPROVER_assigns(node)											\
	__CPROVER_loop_invariant(TAGGED_CANONP(node) && !(LF_FLAGS(node) & 5))					\
	__CPROVER_loop_invariant(!(G_w < KPOS(node)) || (G_fl[G_w] & 2))					\
	__CPROVER_decreases(G_n - KPOS(node))
#undef URCU_VERIF_LOOP_lfht_isempty
#define URCU_VERIF_LOOP_lfht_isempty										\
	__CPROVER_assigns(node, next, empty)									\
	__CPROVER_loop_invariant(CANONP(node) && empty)								\
	__CPROVER_loop_invariant(!(G_w < LF_IDX(node)) || (G_fl[G_w] & 2))					\
	__CPROVER_decreases(G_n - LF_IDX(node))
#undef URCU_VERIF_LOOP_lfht_delb_sanity
#define URCU_VERIF_LOOP_lfht_delb_sanity									\
	__CPROVER_assigns(i, node)										\
	__CPROVER_loop_invariant(i <= size)									\
	__CPROVER_decreases(size - i)
#undef URCU_VERIF_LOOP_lfht_delb_free
#define URCU_VERIF_LOOP_lfht_delb_free										\
	__CPROVER_assigns(order, G_free_mask)									\
	__CPROVER_loop_invariant(order + 1 <= G_top + 1 && G_free_mask == (MASKLE(G_top) & ~MASKLE(order)))	\
	__CPROVER_decreases(order + 1)
#undef URCU_VERIF_LOOP_lfht_count
#define URCU_VERIF_LOOP_lfht_count										\
	__CPROVER_assigns(node, next, *count, nr_removed, nr_bucket)						\
	__CPROVER_loop_invariant(CANONP(node) && *count == (long) G_cnt[LF_IDX(node)] && G_cnt[LF_IDX(node)] <= LF_IDX(node))	\
	__CPROVER_loop_invariant(nr_removed <= LF_IDX(node) && nr_bucket <= LF_IDX(node))			\
	__CPROVER_decreases(G_n - LF_IDX(node))

#include "rculfhash.c"
#include <verif/lfht_harness_post.h>

/* bucket_at for these walks: index 0 is the chain head; any other index is some bucket node of the chain */
static struct cds_lfht_node *h_bucket_any(struct cds_lfht *ht, unsigned long index)
{
	unsigned long pos;
	(void) ht;
	if (index == 0) return &G_pool[0];
	pos = nondet_ulong();
	__CPROVER_assume(pos < G_n && (G_fl[pos] & 2)); /*A:precondition-instantiation*/
	return &G_pool[pos];
}
static void cds_lfht_free_bucket_table(struct cds_lfht *ht, unsigned long order)
__CPROVER_requires(order <= 63 && !(G_free_mask & (1UL << order)))
__CPROVER_assigns(G_free_mask)
__CPROVER_ensures(G_free_mask == (__CPROVER_old(G_free_mask) | (1UL << order)))
;
int cds_lfht_get_count_order_ulong(unsigned long x)
__CPROVER_requires(1)
__CPROVER_assigns()
__CPROVER_ensures(x == 0 ? __CPROVER_return_value == -1 :
	(__CPROVER_return_value >= 0 && __CPROVER_return_value <= 64
	 && (__CPROVER_return_value == 64 || x <= (1UL << __CPROVER_return_value))
	 && (__CPROVER_return_value == 0 || x > (1UL << (__CPROVER_return_value - 1)))))
;

unsigned long in_size_order;
static void mk_walk(void)
{
	lf_mk();
	G_noflags = 1;
	G_ht.bucket_at = h_bucket_any;
	VIN(unsigned long, in_size_order); VERIF_REQUIRE(in_size_order <= 62);
	G_ht.size = 1UL << in_size_order; G_top = in_size_order; G_free_mask = 0;
	/* position 0 is bucket 0 */
	VERIF_REQUIRE(G_fl[0] & 2);
}

void h_delete_bucket(void)
{
	int r;
	mk_walk();
	r = cds_lfht_delete_bucket(&G_ht);
	if (r == 0) {
		VERIF_ASSERT(G_fl[G_w] & 2, "delete_bucket succeeds only if EVERY node of the table is a bucket node (no user node left)");
		VERIF_ASSERT(G_free_mask == MASKLE(G_top), "delete_bucket: frees every bucket-table order from order(size) down to 0, each exactly once");
	} else {
		VERIF_ASSERT(r == -EPERM && G_free_mask == 0, "delete_bucket: a non-bucket node => -EPERM and nothing freed");
	}
	VERIF_COVER(r == 0 && G_n > 4 && in_size_order >= 2); VERIF_COVER(r == -EPERM && G_n > 4);
}
/* completeness of the refusal: if some node is not a bucket, delete_bucket must refuse */
void h_delete_bucket_nonempty(void)
{
	int r;
	mk_walk();
	VERIF_REQUIRE(!(G_fl[G_w] & 2));		/* a user node is still in the table */
	r = cds_lfht_delete_bucket(&G_ht);
	VERIF_ASSERT(r == -EPERM && G_free_mask == 0, "destroy refuses a non-empty table however many buckets precede the node");
	VERIF_COVER(G_w > 4);
}
static int h_ongoing(void) { return 1; }
static struct rcu_flavor_struct G_flv;
void h_is_empty(void)
{
	bool e;
	mk_walk();
	G_flv.read_ongoing = h_ongoing; G_ht.flavor = &G_flv;
	e = cds_lfht_is_empty(&G_ht);
	VERIF_ASSERT(!e || (G_fl[G_w] & 2), "is_empty true only if every node is a bucket node");
	VERIF_COVER(e && G_n > 4); VERIF_COVER(!e && G_n > 4);
}
void h_is_empty_nonempty(void)
{
	mk_walk();
	G_flv.read_ongoing = h_ongoing; G_ht.flavor = &G_flv;
	VERIF_REQUIRE(!(G_fl[G_w] & 2));
	VERIF_ASSERT(!cds_lfht_is_empty(&G_ht), "is_empty is false whenever a user node is in the table");
	VERIF_COVER(G_w > 4);
}

void h_count_nodes(void)
{
	long before, count, after;
	mk_walk();
	G_noflags = 0;			/* logically removed nodes may still be linked: they are not counted */
	G_cnt = malloc((G_n + 2) * sizeof(*G_cnt)); VERIF_REQUIRE(G_cnt != 0);
	VERIF_REQUIRE(G_cnt[0] == 0);
	G_ht.split_count = 0;
	cds_lfht_count_nodes(&G_ht, &before, &count, &after);
	VERIF_ASSERT(count == (long) G_cnt[G_n], "count_nodes: *count = number of nodes that are neither removed nor buckets (prefix-count recurrence instantiated along the walk)");
	VERIF_ASSERT(before == 0 && after == 0, "count_nodes: approximations are 0 without accounting");
	VERIF_COVER(G_n > 5 && count >= 2);
}
