/*
 * C07.O1/O2, C08.O5 - _cds_lfht_del and _cds_lfht_gc_bucket of src/rculfhash.c on a chain of unbounded length.
 * Sequential pre-state: no REMOVED node on the chain; the victim V = chain position G_v is a live non-bucket
 * node.  del: REMOVED or-ed in (release), gc unlinks V from its predecessor (one CAS of kind "unlink": the
 * predecessor's next goes from V to V's successor, predecessor's BUCKET bit kept), then the exchange that sets
 * REMOVAL_OWNER decides ownership: 0 iff the exchanged-out value had OWNER clear.  The pointer part of V's next
 * word never changes; flags only grow.  gc: outer retry loop runs exactly twice (unwinding assertion), inner
 * walk by loop contract with variant.  A second del of the same node returns -ENOENT without writing.
 */
#define LF_WITH_UNLINK
#include <verif/lfht_harness_pre.h>
unsigned long G_v;			/* victim position */
unsigned long G_cas_pos; void *G_cas_new, *G_cas_old;
unsigned long G_or_count, G_xchg_count, G_xchg_old_flags, G_ptr_changed, G_flags_shrunk, G_or_release;
void lf_cas_event(void *addr, void *oldv, void *newv)
{
	G_cas_count++; G_cas_new = newv; G_cas_old = oldv;
	if (LF_IS_POOL(addr)) {
		unsigned long p = LF_IDX(addr);
		G_cas_pos = p;
		/* kind "unlink": predecessor p of the removed node: p.next: V -> succ(V), BUCKET bit of p kept */
		VERIF_ASSERT(p + 1 == G_v && VLF_clear_flag(oldv) == LF_AT(G_v) && VLF_clear_flag(newv) == LF_AT(G_v + 1), "gc: the only CAS unlinks the REMOVED node: predecessor.next goes from the node to its successor");
		VERIF_ASSERT(LF_FLAGS(newv) == (LF_FLAGS(oldv) & 2) && LF_FLAGS(oldv) == (G_fl[p] & 2), "gc: the predecessor's own BUCKET bit is preserved, no other flag written");
		VERIF_ASSERT(G_fl[G_v] & 1, "gc: only a node whose REMOVED flag was observed is unlinked");
		G_unl = G_v;
	}
}
/* flag-setting primitives on a next word: pointer part frozen, flags only grow; kept canonical */
static void lf_or_next(unsigned long *addr, unsigned long v, int mo)
{
	unsigned long k = LF_IDX(addr);
	VERIF_ASSERT(LF_IS_POOL(addr) && k == G_v, "del: REMOVED is or-ed into the victim's own next word");
	(void) lf_load_next((struct cds_lfht_node **) addr);
	VERIF_ASSERT(v == 1, "del: the or sets exactly REMOVED");
	G_or_count++; G_or_release = mo >= CMM_RELEASE;
	G_fl[k] |= (unsigned char) v;
	G_pool[k].next = LF_TAG(LF_AT(k + 1), G_fl[k]);
}
static struct cds_lfht_node *lf_xchg_next(struct cds_lfht_node **addr, struct cds_lfht_node *v)
{
	unsigned long k = LF_IDX(addr);
	struct cds_lfht_node *old;
	VERIF_ASSERT(LF_IS_POOL(addr) && k == G_v, "del: the exchange targets the victim's own next word");
	old = lf_load_next(addr);
	G_xchg_count++; G_xchg_old_flags = LF_FLAGS(old);
	if (VLF_clear_flag(v) != VLF_clear_flag(old)) G_ptr_changed = 1;
	if ((LF_FLAGS(old) & ~LF_FLAGS(v)) != 0) G_flags_shrunk = 1;
	G_fl[k] = (unsigned char) LF_FLAGS(v);
	G_pool[k].next = LF_TAG(LF_AT(k + 1), G_fl[k]);
	return old;
}
#undef uatomic_or_mo
#define uatomic_or_mo(addr, v, mo) lf_or_next((unsigned long *) (addr), (unsigned long) (v), (int) (mo))
#undef uatomic_xchg_mo
#define uatomic_xchg_mo(addr, v, mo) lf_xchg_next((struct cds_lfht_node **) (addr), (struct cds_lfht_node *) (v))

#define POSP	(LF_IDX(iter_prev))
#undef URCU_VERIF_LOOP_lfht_gc
#define URCU_VERIF_LOOP_lfht_gc											\
	__CPROVER_assigns(iter_prev, iter, next)								\
	__CPROVER_loop_invariant(CANONP(iter_prev) && G_b <= POSP && POSP < G_n && POSP != G_unl)		\
	__CPROVER_loop_invariant(iter == LF_TAG(LF_AT(LF_SUCC(POSP)), G_fl[POSP]) && !(G_fl[POSP] & 5) && G_fl[POSP] <= 7)	\
	__CPROVER_loop_invariant(G_pool[POSP].reverse_hash <= node->reverse_hash)				\
	/* the walk cannot get past the still linked victim */							\
	__CPROVER_loop_invariant(G_unl == G_v || POSP < G_v)							\
	/* wf fact at the cursor: its successor does not exceed the victim's reverse hash while before it */	\
	__CPROVER_loop_invariant(LF_SUCC(POSP) >= G_n || G_w2 <= LF_SUCC(POSP) || G_pool[LF_SUCC(POSP)].reverse_hash <= G_pool[G_w2].reverse_hash)	\
	/* no linked REMOVED node has been passed */								\
	__CPROVER_loop_invariant(!(G_b < G_w && G_w <= POSP) || !(G_fl[G_w] & 1) || G_w == G_unl)		\
	__CPROVER_decreases(G_n - POSP)

#include "rculfhash.c"
#include <verif/lfht_harness_post.h>

/* contract of _cds_lfht_gc_bucket for a chain whose only REMOVED node is the victim (proved by C07.O2.gc_bucket) */
static void _cds_lfht_gc_bucket(struct cds_lfht_node *bucket, struct cds_lfht_node *node)
__CPROVER_requires(bucket == &G_pool[G_b] && node == &G_pool[G_v] && (G_fl[G_v] & 1) && G_unl == ~0UL)
__CPROVER_assigns(G_unl, G_cas_count, G_pool[G_v - 1].next)
__CPROVER_ensures(G_unl == G_v && G_cas_count == __CPROVER_old(G_cas_count) + 1)
__CPROVER_ensures(G_pool[G_v - 1].next == LF_TAG(LF_AT(G_v + 1), G_fl[G_v - 1] & 2))
;

unsigned long in_rm;
struct cds_lfht_node *G_wv;
static void mk_del(void)
{
	lf_mk();
	G_v = G_s; G_b = nondet_ulong(); G_w2 = G_v;
	VERIF_REQUIRE(G_b < G_v && G_v < G_n);
	/* transitive sortedness, instance (successor of the bucket, victim) */
	VERIF_REQUIRE(G_b + 1 >= G_v || G_pool[G_b + 1].reverse_hash <= G_pool[G_v].reverse_hash);
	/* contract of lookup_bucket: the victim's bucket precedes it on the chain */
	VERIF_REQUIRE(G_pool[G_b].reverse_hash <= G_pool[G_v].reverse_hash);
	G_ht.size = nondet_ulong(); VERIF_REQUIRE(G_ht.size >= 1);
	G_or_count = G_xchg_count = 0; G_ptr_changed = G_flags_shrunk = 0;
	G_wv = G_pool[G_w].next;
	G_noflags = 1; G_flags_except = G_v;	/* sequential state: only the victim may carry REMOVED (type invariant: OWNER => REMOVED) */
}
/* sequential state: only the victim may carry REMOVED (set by this very call); type invariant OWNER => REMOVED */
#define SEQ_FLAGS(k) ((k) == G_v || !(G_fl[k] & 5))

void h_del(void)
{
	int r;
	mk_del();
	VERIF_REQUIRE(!(G_fl[G_v] & 7));	/* live, non-bucket, not yet removed */
	r = _cds_lfht_del(&G_ht, G_ht.size, &G_pool[G_v]);
	VERIF_ASSERT(r == 0, "del of a live node succeeds");
	VERIF_ASSERT(G_or_count == 1 && G_or_release, "del: REMOVED set by one release-ordered or");
	VERIF_ASSERT(G_xchg_count == 1 && !(G_xchg_old_flags & 4) && (G_xchg_old_flags & 1), "del: returns 0 iff the exchanged-out word had REMOVAL_OWNER clear");
	VERIF_ASSERT(!G_ptr_changed && !G_flags_shrunk, "del: the pointer part of the victim's next word never changes, flags only grow");
	VERIF_ASSERT((G_fl[G_v] & 5) == 5, "del: victim ends REMOVED | REMOVAL_OWNER");
	VERIF_ASSERT(G_cas_count == 1 && G_unl == G_v, "del: the victim is physically unlinked before del returns (unreachable from its bucket)");
	VERIF_ASSERT(G_pool[G_v - 1].next == LF_TAG(LF_AT(G_v + 1), G_fl[G_v - 1] & 2), "del: predecessor links past the victim, keeps its BUCKET bit");
	VERIF_ASSERT(G_w == G_v || G_w == G_v - 1 || G_pool[G_w].next == G_wv, "del: no other chain node modified");
	VERIF_COVER(G_v > G_b + 3 && G_v + 2 < G_n); VERIF_COVER(G_v == G_b + 1); VERIF_COVER(G_v + 1 == G_n);
}
void h_del_twice(void)
{
	int r;
	mk_del();
	VIN(unsigned long, in_rm);
	VERIF_REQUIRE((G_fl[G_v] & 1) && !(G_fl[G_v] & 2));	/* already logically removed (by an earlier del or replace) */
	r = _cds_lfht_del(&G_ht, G_ht.size, &G_pool[G_v]);
	VERIF_ASSERT(r == -ENOENT, "del of an already removed node fails with -ENOENT");
	VERIF_ASSERT(G_or_count == 0 && G_xchg_count == 0 && G_cas_count == 0, "... without writing anything");
	VERIF_ASSERT(_cds_lfht_del(&G_ht, G_ht.size, NULL) == -ENOENT, "del(NULL) is -ENOENT");
	VERIF_COVER(G_fl[G_v] & 4); VERIF_COVER(!(G_fl[G_v] & 4));
}

/* C07.O2: gc_bucket on a chain whose only REMOVED node is the victim */
void h_gc(void)
{
	mk_del();
	VERIF_REQUIRE((G_fl[G_v] & 1) && !(G_fl[G_v] & 2));
#ifdef LF_CAS_FAIL_ONCE
	G_cas_fail_budget = 1; G_cas_failed = 0;		/* the unlink compare-and-swap may fail once (transient interference) */
#endif
	_cds_lfht_gc_bucket(&G_pool[G_b], &G_pool[G_v]);
#ifdef LF_CAS_FAIL_ONCE
	VERIF_COVER(G_cas_failed == 1);
#endif
	VERIF_ASSERT(G_cas_count == 1 && G_unl == G_v, "gc_bucket: exactly one SUCCESSFUL CAS, which unlinks the REMOVED node - also when an earlier attempt failed: it returns only once no REMOVED node with a reverse hash <= node's is reachable from the bucket");
	VERIF_ASSERT(G_pool[G_v - 1].next == LF_TAG(LF_AT(G_v + 1), G_fl[G_v - 1] & 2), "gc_bucket: predecessor links past the removed node and keeps its BUCKET bit");
	VERIF_ASSERT(G_w == G_v - 1 || G_pool[G_w].next == G_wv, "gc_bucket: no other chain node modified (the removed node's own next word is left intact)");
#ifdef LF_SMALL
	VERIF_COVER(G_v > G_b + 1 && G_v + 1 < G_n); VERIF_COVER(G_v == G_b + 1); VERIF_COVER(G_v + 1 == G_n);
#else
	VERIF_COVER(G_v > G_b + 3 && G_v + 2 < G_n); VERIF_COVER(G_v == G_b + 1); VERIF_COVER(G_v + 1 == G_n);
#endif
}
