/*
 * C06.O2/O3, C05.O1 (kind "replace") - _cds_lfht_replace / cds_lfht_replace of src/rculfhash.c on a chain of
 * unbounded length.  The iterator handed in may be STALE (the successor recorded at lookup time is no longer
 * the old node's successor because a node was added right behind it): the first CAS then fails and the retry
 * must re-link the new node to the refreshed successor.  The committing CAS must install, in ONE write,
 * pointer-to-new | REMOVED | REMOVAL_OWNER with new->next already equal to the value it expects in old->next.
 * _cds_lfht_gc_bucket is used through its contract.
 */
#define LF_WITH_UNLINK
#include <verif/lfht_harness_pre.h>
unsigned long G_v;
unsigned long G_cas_attempts, G_cas_ok_count, G_kind_ok, G_linked_before;
void *G_cas_expected;
void lf_cas_event(void *addr, void *oldv, void *newv) { (void) addr; (void) oldv; (void) newv; }
/* genuine compare-and-swap semantics (the expected value may be stale) */
#undef uatomic_cmpxchg_mo
#define uatomic_cmpxchg_mo(addr, old, _new, mos, mof)	\
	((__typeof__(*(addr))) (unsigned long) lf_cas((struct cds_lfht_node **) (addr), (struct cds_lfht_node *) (unsigned long) (old), (struct cds_lfht_node *) (unsigned long) (_new)))
struct cds_lfht_node *lf_cas(struct cds_lfht_node **addr, struct cds_lfht_node *oldv, struct cds_lfht_node *newv);

#include "rculfhash.c"
#include <verif/lfht_harness_post.h>

struct cds_lfht_node X;
struct cds_lfht_node *lf_cas(struct cds_lfht_node **addr, struct cds_lfht_node *oldv, struct cds_lfht_node *newv)
{
	struct cds_lfht_node **ca = lf_canon_addr(addr), *cur;
	VERIF_ASSERT(LF_IS_POOL(ca) && LF_IDX(ca) == G_v, "replace: the only CAS targets the old node's own next word");
	cur = lf_load_next(ca);
	G_cas_attempts++;
	if (cur != oldv)
		return cur;
	G_cas_ok_count++;
	/* kind "replace": old.next: old_next -> new | REMOVED | REMOVAL_OWNER, with new.next == old_next, old_next un-REMOVED */
	G_kind_ok = VLF_clear_flag(newv) == &X && LF_FLAGS(newv) == 5 && !(LF_FLAGS(oldv) & 5);
	G_linked_before = X.next == oldv;
	G_fl[G_v] = 5;
	*ca = newv; G_dirty1 = G_v;
	return cur;
}
static void _cds_lfht_gc_bucket(struct cds_lfht_node *bucket, struct cds_lfht_node *node)
__CPROVER_requires(bucket == &G_pool[G_b] && node == &X && (G_fl[G_v] & 1) && G_unl == ~0UL)
__CPROVER_assigns(G_unl, G_pool[G_v - 1].next)
__CPROVER_ensures(G_unl == G_v && G_pool[G_v - 1].next == LF_TAG(&X, G_fl[G_v - 1] & 2))
;

unsigned long in_stale, in_z, in_key, in_hash;
struct cds_lfht_node *G_wv;
static struct cds_lfht_node *cur_next;
static void mk_rep(void)
{
	lf_mk();
	G_v = G_s; G_b = nondet_ulong(); G_x = &X;
	VERIF_REQUIRE(G_b < G_v && G_v < G_n);
	VERIF_REQUIRE(G_pool[G_b].reverse_hash <= G_pool[G_v].reverse_hash);
	G_ht.size = nondet_ulong(); VERIF_REQUIRE(G_ht.size >= 1);
	G_noflags = 1; G_flags_except = G_v;
	X.reverse_hash = G_pool[G_v].reverse_hash; X.next = nondet_ptr();
	G_cas_attempts = G_cas_ok_count = 0; G_kind_ok = G_linked_before = 0;
	G_wv = G_pool[G_w].next;
	cur_next = LF_TAG(LF_AT(G_v + 1), G_fl[G_v]);
}

void h_replace(void)
{
	int r; struct cds_lfht_node *old_next;
	mk_rep();
	VERIF_REQUIRE(!(G_fl[G_v] & 7));		/* old node live, non-bucket */
	VIN(unsigned long, in_stale); VIN(unsigned long, in_z);
	/* the successor recorded by the caller's lookup: current, or stale (nodes were added right behind old since) */
	VERIF_REQUIRE(in_z > G_v + 1 && in_z <= G_n);
	old_next = (in_stale & 1) ? LF_AT(in_z) : cur_next;
	r = _cds_lfht_replace(&G_ht, G_ht.size, &G_pool[G_v], old_next, &X);
	VERIF_ASSERT(r == 0, "replace of a live node succeeds");
	VERIF_ASSERT(G_cas_ok_count == 1 && G_cas_attempts == ((in_stale & 1) ? 2 : 1), "replace: exactly one successful CAS (one retry when the iterator was stale)");
	VERIF_ASSERT(G_kind_ok, "replace: the committing CAS installs pointer-to-new | REMOVED | REMOVAL_OWNER in a single write over an un-REMOVED word (so the caller owns the old node)");
	VERIF_ASSERT(G_linked_before, "replace: at the committing CAS the new node's next already equals the successor it takes over (nothing behind the old node is lost)");
	VERIF_ASSERT(X.next == cur_next, "replace: the new node links to the old node's CURRENT successor");
	VERIF_ASSERT(G_unl == G_v && G_pool[G_v - 1].next == LF_TAG(&X, G_fl[G_v - 1] & 2), "replace: old node unlinked, predecessor links to the new node");
	VERIF_ASSERT(G_w == G_v || G_w == G_v - 1 || G_pool[G_w].next == G_wv, "replace: no other chain node modified");
	VERIF_COVER(in_stale & 1); VERIF_COVER(!(in_stale & 1) && G_v > G_b + 2);
}
void h_replace_removed(void)
{
	int r;
	mk_rep();
	VERIF_REQUIRE((G_fl[G_v] & 1) && !(G_fl[G_v] & 2));	/* removed under us between lookup and replace */
	VIN(unsigned long, in_stale);
	/* stale iterator recorded before the removal, or the current (REMOVED) word */
	r = _cds_lfht_replace(&G_ht, G_ht.size, &G_pool[G_v], (in_stale & 1) ? LF_AT(G_v + 1) : cur_next, &X);
	VERIF_ASSERT(r == -ENOENT && G_cas_ok_count == 0 && G_unl == ~0UL, "replace of an already removed node: -ENOENT, nothing written");
	VERIF_ASSERT(_cds_lfht_replace(&G_ht, G_ht.size, NULL, 0, &X) == -ENOENT, "replace(NULL) is -ENOENT");
	VERIF_COVER(in_stale & 1); VERIF_COVER(!(in_stale & 1));
}
/* public wrapper: validates hash and key first */
void h_replace_api(void)
{
	int r; struct cds_lfht_iter it; unsigned long key;
	mk_rep();
	VERIF_REQUIRE(!(G_fl[G_v] & 7));
	VIN(unsigned long, in_key); VIN(unsigned long, in_hash); VIN(unsigned long, in_stale);
	key = in_key;
	it.node = (in_stale & 1) ? 0 : &G_pool[G_v]; it.next = cur_next;
	r = cds_lfht_replace(&G_ht, &it, in_hash, h_match, &key, &X);
	if (in_stale & 1) VERIF_ASSERT(r == -ENOENT && G_cas_attempts == 0, "cds_lfht_replace: NULL iterator => -ENOENT");
	else if (bit_reverse_ulong(in_hash) != G_pool[G_v].reverse_hash || G_key[G_v] != in_key) VERIF_ASSERT(r == -EINVAL && G_cas_attempts == 0, "cds_lfht_replace: hash or key mismatch => -EINVAL, nothing written");
	else VERIF_ASSERT(r == 0 && G_cas_ok_count == 1 && X.reverse_hash == G_pool[G_v].reverse_hash, "cds_lfht_replace: matching iterator => replaced");
	VERIF_COVER(r == 0); VERIF_COVER(r == -EINVAL);
}
