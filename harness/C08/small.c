/*
 * C08.O7 - REWRITE-FREE bounded stand-ins for the whole-chain walks of src/rculfhash.c (cds_lfht_is_empty,
 * cds_lfht_count_nodes, cds_lfht_delete_bucket, cds_lfht_first/next, cds_lfht_lookup) on small CONCRETE chains:
 * the bucket node of index 0 followed by up to 3 further nodes, each of which is a bucket node, a live user node, or a
 * logically removed user node (all 27 shapes), the chain ending in END.  No loop marker, no read hook, no pool: the real
 * text is executed with every loop fully unwound (unwinding assertions on).  These obligations exist so that a change which
 * RESTRUCTURES an annotated loop (the unbounded obligations then report "must-fire rule did not fire", exit 2) is still
 * decided: they need nothing from the code but its function names.
 */
#include <verif/verif.h>
#include <verif/os_stubs.h>
#include <verif/lfht_pre.h>
#include <verif/atomics_seq.h>
#define printf(...) (0)
#include "rculfhash.c"

#define NN 4
struct cds_lfht HT; struct cds_lfht_node N[NN];
unsigned long G_kind[NN];		/* 0 bucket, 1 live user node, 2 removed user node */
unsigned long G_len;			/* nodes in the chain, incl. N[0] */
unsigned long G_free_mask;
static struct cds_lfht_node *h_bucket_at(struct cds_lfht *ht, unsigned long index) { (void) ht; (void) index; return &N[0]; }
static void cds_lfht_free_bucket_table(struct cds_lfht *ht, unsigned long order)
__CPROVER_requires(ht == &HT && order <= 63) __CPROVER_assigns(G_free_mask) __CPROVER_ensures(G_free_mask == (__CPROVER_old(G_free_mask) | (1UL << order)));
int cds_lfht_get_count_order_ulong(unsigned long x) __CPROVER_requires(x == 1) __CPROVER_assigns() __CPROVER_ensures(__CPROVER_return_value == 0);

static int h_ongoing(void) { return 0; }
unsigned long G_rl, G_online, G_fl_bad;
static void h_online(void) { G_online++; }
static void h_offline(void) { G_online--; }
static void h_rl(void) { if (!G_online) G_fl_bad = 1; G_rl++; }
static void h_ru(void) { G_rl--; }
static struct rcu_flavor_struct FL;
unsigned long in_len, in_kinds, in_owner;
/* the flag bits of a node live in the next word of the node itself: next = successor | flags(kind of THIS node) */
/* a removed node: REMOVED alone (a del suspended before it claimed ownership) or REMOVED | REMOVAL_OWNER (a replace suspended right after its
 * committing compare-and-swap, or a del that lost the CPU before its unlink pass finished) */
static unsigned long flags_of(unsigned long kind, unsigned long owner) { return kind == 0 ? BUCKET_FLAG : (kind == 2 ? (REMOVED_FLAG | (owner ? REMOVAL_OWNER_FLAG : 0)) : 0); }
static unsigned long live, removed, buckets;
static void mk(void)
{
	unsigned long k;
	VIN(unsigned long, in_len); VIN(unsigned long, in_kinds); VIN(unsigned long, in_owner);
	G_len = in_len % NN + 1; live = removed = buckets = 0;
	for (k = 0; k < NN; k++) {
		struct cds_lfht_node *succ = (k + 1 < G_len) ? &N[k + 1] : (struct cds_lfht_node *) END_VALUE;
		G_kind[k] = (k == 0) ? 0 : ((in_kinds >> (2 * k)) & 3) % 3;
		N[k].reverse_hash = k;				/* increasing along the chain */
		N[k].next = (struct cds_lfht_node *) ((unsigned long) succ | flags_of(G_kind[k], (in_owner >> k) & 1));
		if (k < G_len) { if (G_kind[k] == 0) buckets++; else if (G_kind[k] == 1) live++; else removed++; }
	}
	FL.read_ongoing = h_ongoing; FL.thread_online = h_online; FL.thread_offline = h_offline; FL.read_lock = h_rl; FL.read_unlock = h_ru; HT.flavor = &FL; G_rl = G_online = G_fl_bad = 0;
	HT.bucket_at = h_bucket_at; HT.size = 1; HT.split_count = 0; HT.flags = 0; G_free_mask = 0;
}
void h_small_is_empty(void)
{
	bool r;
	mk();
	r = cds_lfht_is_empty(&HT);
	VERIF_ASSERT(r == (live == 0 && removed == 0), "cds_lfht_is_empty (small chains): true iff every node of the chain - the LAST one included - is a bucket node");
	VERIF_ASSERT(G_rl == 0 && G_online == 0 && !G_fl_bad, "cds_lfht_is_empty: read-side section and online state balanced on every path");
	VERIF_COVER(r && G_len == 4); VERIF_COVER(!r && G_len == 2 && live == 1); VERIF_COVER(!r && G_kind[G_len - 1] == 1 && live == 1 && G_len == 4);
}
void h_small_count(void)
{
	long before, after; unsigned long count;
	mk();
	cds_lfht_count_nodes(&HT, &before, &count, &after);
	VERIF_ASSERT(count == live && before == 0 && after == 0, "cds_lfht_count_nodes (small chains): exactly the live user nodes, buckets and removed nodes not counted");
	VERIF_COVER(count == 3); VERIF_COVER(count == 1 && removed == 1 && buckets == 2);
}
void h_small_delete_bucket(void)
{
	int r;
	mk(); VERIF_REQUIRE(removed == 0);		/* a table being destroyed has no removed node pending (destroy's own precondition) */
	r = cds_lfht_delete_bucket(&HT);
	VERIF_ASSERT(r == (live == 0 ? 0 : -EPERM), "cds_lfht_delete_bucket (small chains): succeeds iff the table holds no user node - wherever it sits, the last position included");
	VERIF_ASSERT(G_free_mask == (r == 0 ? 1UL : 0UL), "cds_lfht_delete_bucket: bucket tables freed iff it succeeds");
	VERIF_COVER(r == 0 && G_len == 3); VERIF_COVER(r != 0 && G_kind[G_len - 1] == 1 && live == 1);
}
void h_small_first_next(void)
{
	struct cds_lfht_iter it; unsigned long k, seen = 0, lastpos = 0;
	mk();
	cds_lfht_first(&HT, &it);
	for (k = 0; k < NN && it.node; k++) {
		unsigned long pos = (unsigned long) (it.node - &N[0]);
		VERIF_ASSERT(pos < G_len && G_kind[pos] == 1 && (seen == 0 || pos > lastpos), "first/next (small chains): only live user nodes, in chain order, none twice");
		seen++; lastpos = pos;
		cds_lfht_next(&HT, &it);
	}
	VERIF_ASSERT(it.node == 0 && seen == live, "first/next (small chains): a full traversal visits every live user node exactly once");
	VERIF_COVER(seen == 3); VERIF_COVER(seen == 1 && removed == 2);
}

/* ---- C17 / C05: _cds_lfht_add on every small chain that contains SUSPENDED removals (either flag combination) -------------
 * the add runs solo: it must finish (every loop fully unwound, unwinding assertions on), having HELPED - unlinked - each logically
 * removed node in front of its insertion point instead of waiting for the suspended owner */
struct cds_lfht_node X; unsigned long in_xr;
void h_small_add(void)
{
	unsigned long xr, k, seen_x = 0, seen_live = 0, last = 0, removed_before_x = 0, steps = 0; struct cds_lfht_node *p;
	mk(); VIN(unsigned long, in_xr); xr = in_xr % (NN + 1);
	X.reverse_hash = xr; X.next = (struct cds_lfht_node *) 0xbad0UL;
	_cds_lfht_add(&HT, 0, NULL, NULL, 1, &X, NULL, 0);
	for (p = &N[0], k = 0; k < NN + 2 && !is_end(p); k++) {
		struct cds_lfht_node *c = clear_flag(p), *nx = c->next;
		steps++;
		VERIF_ASSERT(c->reverse_hash >= last, "add (small chains with suspended removals): the chain stays sorted by reverse hash");
		last = c->reverse_hash;
		if (c == &X) seen_x++;
		else if (is_removed(nx)) { if (!seen_x) removed_before_x++; }
		else if (!is_bucket(nx)) seen_live++;
		p = nx;
	}
	VERIF_ASSERT(is_end(p), "add (small chains): the chain still ends in END");
	VERIF_ASSERT(seen_x == 1, "add (small chains with suspended removals): the solo add completes and the new node is reachable exactly once");
	VERIF_ASSERT(seen_live == live, "add (small chains with suspended removals): every live node is still reachable");
	VERIF_ASSERT(removed_before_x == 0, "add helps: every logically removed node in front of the insertion point has been unlinked (with or without a removal owner) - the add does not wait for the suspended remover");
	VERIF_ASSERT(is_end(X.next) || clear_flag(X.next)->reverse_hash > xr, "plain add: linked after every node of equal reverse hash");
	VERIF_COVER(removed == 2 && xr == NN); VERIF_COVER(removed == 1 && (in_owner & 14) == 0 && xr >= 2); VERIF_COVER(removed == 0 && xr == 0);
}

/* ---- C06: a traversal standing on a node that is REPLACED meanwhile ----------------------------------------------------------
 * the iterator sampled (node, successor) of live node N[j]; then a replace commits: N[j].next = &NEWN | REMOVED | REMOVAL_OWNER with
 * NEWN.next = the old successor (what _cds_lfht_replace does in one compare-and-swap).  Advancing the iterator must continue from the
 * successor it sampled: it must not return the replacement (the same key a second time) */
struct cds_lfht_node NEWN; unsigned long in_j;
void h_small_next_replaced(void)
{
	struct cds_lfht_iter it; unsigned long j, k, want = NN; struct cds_lfht_node *old_next;
	mk(); VIN(unsigned long, in_j); j = in_j % NN;
	VERIF_REQUIRE(j >= 1 && j < G_len && G_kind[j] == 1);
	old_next = N[j].next;					/* live user node: no flag of its own */
	it.node = &N[j]; it.next = old_next;			/* what first / next / lookup left in the iterator when they returned N[j] */
	NEWN.reverse_hash = N[j].reverse_hash; NEWN.next = old_next;
	N[j].next = (struct cds_lfht_node *) ((unsigned long) &NEWN | REMOVED_FLAG | REMOVAL_OWNER_FLAG);
	cds_lfht_next(&HT, &it);
	for (k = NN; k-- > j + 1;) if (k < G_len && G_kind[k] == 1) want = k;		/* first live user node behind N[j] in the chain */
	VERIF_ASSERT(it.node != &NEWN, "next on a replaced node: the replacement of the node the traversal stands on is NOT returned (the traversal would see that key twice)");
	VERIF_ASSERT(want == NN ? it.node == 0 : it.node == &N[want], "next on a replaced node: continues with the first live node behind the successor it sampled");
	VERIF_COVER(want != NN); VERIF_COVER(want == NN && j + 1 < G_len);
}
