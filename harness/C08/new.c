/*
 * C08.O8 - parameter normalisation of _cds_lfht_new_with_alloc() (src/rculfhash.c) for EVERY (init_size,
 * min_nr_alloc_buckets, max_nr_buckets, flags) and every memory-management plug-in choice (given, or defaulted):
 *   - NULL (nothing allocated) iff min is not a power of two, or init is not a power of two, or max - after the
 *     "0 means unlimited for the order plug-in" default - is not a power of two;
 *   - otherwise the plug-in's allocator receives min' = max(min, 1) and max' = max(max, min'), the table starts with
 *     size = resize_target = min(max(init, 1), max') (a power of two in [1, max']), exactly that many buckets are created
 *     BEFORE the size is set, flags / flavor / attr are stored, and the resize worker is initialised iff AUTO_RESIZE.
 * cds_lfht_create_bucket, alloc_split_items_count, cds_lfht_init_worker and cds_lfht_get_count_order_ulong (C09.O1) are
 * used through contracts; the plug-in is a recorder.
 */
#include <verif/verif.h>
#include <verif/os_stubs.h>
#include <verif/lfht_pre.h>
#include <verif/atomics_seq.h>
#define printf(...) (0)
#include "rculfhash.c"

static struct cds_lfht HT;
unsigned long G_alloc_calls, G_alloc_min, G_alloc_max, G_create_calls, G_create_size, G_size_at_create, G_worker_inits, G_split_calls;
static const struct cds_lfht_mm_type *G_alloc_mm;
static struct cds_lfht_node *h_bucket_at(struct cds_lfht *ht, unsigned long i) { (void) ht; (void) i; return 0; }
static struct cds_lfht *h_alloc_order(unsigned long min_nr, unsigned long max_nr, const struct cds_lfht_alloc *alloc);
static struct cds_lfht *h_alloc_other(unsigned long min_nr, unsigned long max_nr, const struct cds_lfht_alloc *alloc);
const struct cds_lfht_mm_type cds_lfht_mm_order = { .alloc_cds_lfht = h_alloc_order, .bucket_at = h_bucket_at };
const struct cds_lfht_mm_type cds_lfht_mm_mmap = { .alloc_cds_lfht = h_alloc_other, .bucket_at = h_bucket_at };
const struct cds_lfht_mm_type cds_lfht_mm_chunk = { .alloc_cds_lfht = h_alloc_other, .bucket_at = h_bucket_at };
static struct cds_lfht *rec_alloc(const struct cds_lfht_mm_type *mm, unsigned long min_nr, unsigned long max_nr, const struct cds_lfht_alloc *alloc)
{
	G_alloc_calls++; G_alloc_min = min_nr; G_alloc_max = max_nr; G_alloc_mm = mm;
	VERIF_ASSERT(alloc == &cds_lfht_default_alloc, "new: default allocator when none is given");
	HT.mm = mm; HT.bucket_at = mm->bucket_at; HT.min_nr_alloc_buckets = min_nr; HT.max_nr_buckets = max_nr; HT.size = 0;
	return &HT;
}
static struct cds_lfht *h_alloc_order(unsigned long a, unsigned long b, const struct cds_lfht_alloc *c) { return rec_alloc(&cds_lfht_mm_order, a, b, c); }
static struct cds_lfht *h_alloc_other(unsigned long a, unsigned long b, const struct cds_lfht_alloc *c) { return rec_alloc(&cds_lfht_mm_mmap, a, b, c); }

#define BITX(i) (1UL << (i))
int cds_lfht_get_count_order_ulong(unsigned long x)
__CPROVER_assigns()
__CPROVER_ensures(x == 0 ? __CPROVER_return_value == -1 :
	(__CPROVER_return_value >= 0 && __CPROVER_return_value <= 64
	 && (__CPROVER_return_value == 64 || x <= BITX(__CPROVER_return_value))
	 && (__CPROVER_return_value == 0 || x > BITX(__CPROVER_return_value - 1))))
;
static void cds_lfht_create_bucket(struct cds_lfht *ht, unsigned long size)
__CPROVER_requires(ht == &HT)
__CPROVER_assigns(G_create_calls, G_create_size, G_size_at_create)
__CPROVER_ensures(G_create_calls == __CPROVER_old(G_create_calls) + 1 && G_create_size == size && G_size_at_create == HT.size)
;
static void alloc_split_items_count(struct cds_lfht *ht) __CPROVER_requires(ht == &HT) __CPROVER_assigns(G_split_calls) __CPROVER_ensures(G_split_calls == __CPROVER_old(G_split_calls) + 1);
static void cds_lfht_init_worker(const struct rcu_flavor_struct *flavor) __CPROVER_requires(1) __CPROVER_assigns(G_worker_inits) __CPROVER_ensures(G_worker_inits == __CPROVER_old(G_worker_inits) + 1);

#define POW2(x) ((x) != 0 && ((x) & ((x) - 1)) == 0)
#define MAXU(a, b) ((a) > (b) ? (a) : (b))
#define MINU(a, b) ((a) < (b) ? (a) : (b))
unsigned long in_init, in_min, in_max, in_flags, in_mm;
static struct rcu_flavor_struct FL;
void h_new(void)
{
	struct cds_lfht *ht; const struct cds_lfht_mm_type *mm, *mm_eff; unsigned long max_eff, min2, max2, init2;
	VIN(unsigned long, in_init); VIN(unsigned long, in_min); VIN(unsigned long, in_max); VIN(unsigned long, in_flags); VIN(unsigned long, in_mm);
	mm = (in_mm % 3 == 0) ? 0 : ((in_mm % 3 == 1) ? &cds_lfht_mm_order : &cds_lfht_mm_mmap);
	G_alloc_calls = G_create_calls = G_worker_inits = G_split_calls = 0;
	ht = _cds_lfht_new_with_alloc(in_init, in_min, in_max, (int) in_flags, mm, &FL, 0, 0);
	/* specification */
	mm_eff = mm ? mm : ((in_max && in_max <= (1ULL << 32)) ? &cds_lfht_mm_mmap : &cds_lfht_mm_order);	/* documented default: mmap plug-in for bounded tables on 64-bit, else order */
	max_eff = (mm_eff == &cds_lfht_mm_order && in_max == 0) ? (1UL << (MAX_TABLE_ORDER - 1)) : in_max;
	if (!POW2(in_min) || !POW2(in_init) || !POW2(max_eff)) {
		VERIF_ASSERT(ht == 0 && G_alloc_calls == 0 && G_create_calls == 0 && G_worker_inits == 0, "cds_lfht_new: a min / init / max that is not a power of two (max = 0 only for the order plug-in) is refused, nothing allocated");
	} else {
		min2 = MAXU(in_min, 1UL); max2 = MAXU(max_eff, min2); init2 = MINU(MAXU(in_init, 1UL), max2);
		VERIF_ASSERT(ht == &HT && G_alloc_calls == 1 && G_alloc_mm == mm_eff, "cds_lfht_new: the table is allocated once, by the chosen (or default) plug-in");
		VERIF_ASSERT(G_alloc_min == min2 && G_alloc_max == max2, "cds_lfht_new: plug-in receives min' = max(min, 1), max' = max(max, min')");
		VERIF_ASSERT(HT.size == init2 && HT.resize_target == init2 && POW2(HT.size) && HT.size >= 1 && HT.size <= max2, "cds_lfht_new: size = resize_target = min(max(init, 1), max'), a power of two within [1, max']");
		VERIF_ASSERT(G_create_calls == 1 && G_create_size == init2 && G_size_at_create == 0, "cds_lfht_new: exactly that many buckets are created, BEFORE the size is published");
		VERIF_ASSERT(HT.flags == (int) in_flags && HT.flavor == &FL && HT.caller_resize_attr == 0 && G_split_calls == 1, "cds_lfht_new: flags, flavor and attributes stored; counters allocated");
		VERIF_ASSERT(G_worker_inits == (((int) in_flags & CDS_LFHT_AUTO_RESIZE) ? 1UL : 0UL), "cds_lfht_new: the resize worker is initialised iff CDS_LFHT_AUTO_RESIZE");
	}
	VERIF_COVER(ht != 0 && in_init > in_max && in_max != 0); VERIF_COVER(ht == 0 && POW2(in_min) && POW2(in_init)); VERIF_COVER(ht != 0 && in_max == 0); VERIF_COVER(ht != 0 && in_min > in_max && in_max != 0);
}
