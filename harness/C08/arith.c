/*
 * C08.O1/O2/O3 - arithmetic and configuration of src/rculfhash.c and the three bucket allocators
 * (src/rculfhash-mm-{order,chunk,mmap}.c), for all inputs.  fls (inline asm bsr) = assumed instruction contract.
 */
#include <verif/verif.h>
#include <verif/os_stubs.h>
#include <verif/lfht_pre.h>
#include <verif/atomics_seq.h>
#include <verif/lfht_pool.h>
#if !defined(MM_ORDER) && !defined(MM_CHUNK) && !defined(MM_MMAP)
#include "rculfhash.c"
#else
/* the allocator TUs are separate translation units: the two helpers they import from rculfhash.c are used
 * through their contracts (count order: proved in C09.O1.count_order; fls: assumed instruction contract) */
#include <urcu/rculfhash.h>
#include "rculfhash-internal.h"
unsigned int cds_lfht_fls_ulong(unsigned long x)
__CPROVER_requires(1)
__CPROVER_assigns()
__CPROVER_ensures(x == 0 ? __CPROVER_return_value == 0 :
	(__CPROVER_return_value >= 1 && __CPROVER_return_value <= 64 && (x >> (__CPROVER_return_value - 1)) == 1))
;
int cds_lfht_get_count_order_ulong(unsigned long x)
__CPROVER_requires(1)
__CPROVER_assigns()
__CPROVER_ensures(x == 0 ? __CPROVER_return_value == -1 :
	(__CPROVER_return_value >= 0 && __CPROVER_return_value <= 64
	 && (__CPROVER_return_value == 64 || x <= (1UL << __CPROVER_return_value))
	 && (__CPROVER_return_value == 0 || x > (1UL << (__CPROVER_return_value - 1)))))
;
static void *h_calloc(void *st, size_t n, size_t sz) { (void) st; return calloc(n, sz); }
static void h_free(void *st, void *p) { (void) st; free(p); }
static struct cds_lfht_alloc cds_lfht_default_alloc = { .calloc = h_calloc, .free = h_free };
#endif
#if defined(MM_ORDER)
# include "rculfhash-mm-order.c"
#elif defined(MM_CHUNK)
# include "rculfhash-mm-chunk.c"
#elif defined(MM_MMAP)
# include <sys/mman.h>
/* mmap / munmap recorder for the mmap allocator: kind 1 reserve (PROT_NONE, not fixed), 2 populate (RW, MAP_FIXED), 3 discard (PROT_NONE, MAP_FIXED), 4 unmap */
unsigned long G_mm_calls, G_mm_kind[8], G_mm_off[8], G_mm_len[8], G_mm_bad;
static char G_mm_base[64];
void *mmap(void *addr, size_t len, int prot, int flags, int fd, off_t off)
{
	unsigned long k = G_mm_calls & 3;
	(void) fd; (void) off;
	G_mm_calls++;
	if (addr == 0) { if (prot != PROT_NONE || (flags & MAP_FIXED)) G_mm_bad = 1; G_mm_kind[k] = 1; G_mm_off[k] = 0; G_mm_len[k] = len; return G_mm_base; }
	if (!(flags & MAP_FIXED)) G_mm_bad = 1;
	G_mm_kind[k] = (prot == (PROT_READ | PROT_WRITE)) ? 2 : (prot == PROT_NONE ? 3 : 9);
	G_mm_off[k] = (unsigned long) addr - (unsigned long) G_mm_base; G_mm_len[k] = len;	/* integer arithmetic: the reservation is far larger than the stand-in object */
	return addr;
}
int munmap(void *addr, size_t len)
{
	unsigned long k = G_mm_calls & 3;
	G_mm_calls++; G_mm_kind[k] = 4; G_mm_off[k] = (unsigned long) addr - (unsigned long) G_mm_base; G_mm_len[k] = len;
	return 0;
}
# include "rculfhash-mm-mmap.c"
#endif

#if !defined(MM_ORDER) && !defined(MM_CHUNK) && !defined(MM_MMAP)
static inline unsigned int fls_u64(uint64_t x)
__CPROVER_requires(1)
__CPROVER_assigns()
__CPROVER_ensures(x == 0 ? __CPROVER_return_value == 0 :
	(__CPROVER_return_value >= 1 && __CPROVER_return_value <= 64 && (x >> (__CPROVER_return_value - 1)) == 1))
;
static inline unsigned int fls_u32(uint32_t x)
__CPROVER_requires(1)
__CPROVER_assigns()
__CPROVER_ensures(x == 0 ? __CPROVER_return_value == 0 :
	(__CPROVER_return_value >= 1 && __CPROVER_return_value <= 32 && (x >> (__CPROVER_return_value - 1)) == 1))
;

#endif
#define POW2(x) ((x) != 0 && ((x) & ((x) - 1)) == 0)
unsigned long in_v, in_i, in_u, in_index, in_min_order, in_max_order, in_order;
#define BIT(i) (1UL << (i))

#if !defined(MM_ORDER) && !defined(MM_CHUNK) && !defined(MM_MMAP)
void h_bit_reverse(void)
{
	unsigned long v, r, i;
	VIN(unsigned long, in_v); VIN(unsigned long, in_i);
	v = in_v; i = in_i; VERIF_REQUIRE(i < 64);
	r = bit_reverse_ulong(v);
	VERIF_ASSERT(((r >> (63 - i)) & 1) == ((v >> i) & 1), "bit_reverse_ulong: bit i of the input is bit 63-i of the result (arbitrary i => full 64-bit reversal)");
	VERIF_ASSERT(bit_reverse_ulong(r) == v, "bit_reverse_ulong is an involution");
	VERIF_COVER(v == 1 && r == BIT(63));
}
void h_tags(void)
{
	unsigned long u; struct cds_lfht_node *p;
	VIN(unsigned long, in_u); u = in_u;
	VERIF_REQUIRE(u < BIT(47));			/* canonical user-space addresses */
	p = (struct cds_lfht_node *) u;
	VERIF_ASSERT((unsigned long) clear_flag(p) == (u & ~7UL), "clear_flag clears exactly the three tag bits");
	VERIF_ASSERT(!!is_removed(p) == !!(u & 1) && !!is_bucket(p) == !!(u & 2) && !!is_removal_owner(p) == !!(u & 4), "flag tests read exactly their bit");
	VERIF_ASSERT((unsigned long) flag_bucket(p) == (u | 2) && (unsigned long) flag_removed(p) == (u | 1) && (unsigned long) flag_removal_owner(p) == (u | 4)
		     && (unsigned long) flag_removed_or_removal_owner(p) == (u | 5), "flag setters set exactly their bit(s)");
	VERIF_ASSERT(!!is_end(p) == ((u & ~7UL) == 0), "is_end <=> pointer part NULL");
	/* the object-preserving forms used by the chain proofs are the same functions on the integer level */
	VERIF_ASSERT((unsigned long) VLF_clear_flag(p) == (u & ~7UL) && !!VLF_is_removed(p) == !!(u & 1) && !!VLF_is_bucket(p) == !!(u & 2) && !!VLF_is_removal_owner(p) == !!(u & 4), "pointer-arithmetic forms of clear/test agree with the real helpers");
	VERIF_ASSERT((unsigned long) VLF_flag_bucket(p) == (u | 2) && (unsigned long) VLF_flag_removed(p) == (u | 1) && (unsigned long) VLF_flag_removal_owner(p) == (u | 4)
		     && (unsigned long) VLF_flag_removed_or_removal_owner(p) == (u | 5) && !!VLF_is_end(p) == ((u & ~7UL) == 0), "pointer-arithmetic forms of the setters agree with the real helpers");
	VERIF_COVER((u & 7) == 5); VERIF_COVER(u == 2);
}
void h_count_order_u32(void)
{
	uint32_t x; int r;
	VIN(unsigned long, in_v); x = (uint32_t) in_v;
	r = cds_lfht_get_count_order_u32(x);
	VERIF_ASSERT(x == 0 ? r == -1 : (r >= 0 && r <= 32 && (r == 32 || x <= (1UL << r)) && (r == 0 || x > (1UL << (r - 1)))), "get_count_order_u32 = ceil(log2 x), -1 for 0");
}
unsigned long in_old, in_new;
void h_xchg_monotonic(void)
{
	unsigned long cell, r;
	VIN(unsigned long, in_old); VIN(unsigned long, in_new);
	cell = in_old;
	r = _uatomic_xchg_monotonic_increase(&cell, in_new);
	VERIF_ASSERT(r == in_old && cell == (in_old >= in_new ? in_old : in_new), "_uatomic_xchg_monotonic_increase returns the old value and stores the maximum");
	VERIF_COVER(in_old < in_new); VERIF_COVER(in_old >= in_new);
}
#endif

#if defined(MM_ORDER)
/* bucket_at (order allocator): index -> (order, offset) in bounds of the table alloc_bucket_table(order) creates */
void h_bucket_at(void)
{
	struct cds_lfht ht; unsigned long index, o, j, len; struct cds_lfht_node *tbl, *r;
	VIN(unsigned long, in_index); VIN(unsigned long, in_min_order); VIN(unsigned long, in_order);
	index = in_index; VERIF_REQUIRE(in_min_order <= 40);
	ht.min_nr_alloc_buckets = BIT(in_min_order); ht.min_alloc_buckets_order = in_min_order;
	/* specification of the mapping */
	if (index < ht.min_nr_alloc_buckets) { o = 0; j = index; len = ht.min_nr_alloc_buckets; }
	else { o = in_order; VERIF_REQUIRE(o >= 1 && o <= 63 && BIT(o - 1) <= index && (o == 63 || index < BIT(o))); j = index - BIT(o - 1); len = BIT(o - 1); }
	VERIF_REQUIRE(len <= BIT(44));			/* the one table this index lives in exists (allocated by alloc_bucket_table(o)) */
	tbl = malloc(len * sizeof(*tbl)); VERIF_REQUIRE(tbl != 0);
	ht.tbl_order[o] = tbl;
	r = bucket_at(&ht, index);
	VERIF_ASSERT(r == &tbl[j], "order allocator bucket_at: index i lives in table order(i) at offset i - 2^(order-1) (orders <= min order share table 0): in bounds and injective");
	VERIF_ASSERT(o == 0 || o > in_min_order, "order allocator: only tables alloc_bucket_table() really allocates are indexed");
	VERIF_COVER(o == 0 && in_min_order > 2); VERIF_COVER(o > 5 && j == len - 1);
}
void h_alloc_table(void)
{
	struct cds_lfht ht; struct cds_lfht_alloc al; unsigned long o;
	VIN(unsigned long, in_order); VIN(unsigned long, in_min_order);
	o = in_order; VERIF_REQUIRE(o <= 40 && in_min_order <= 40);
	ht.min_nr_alloc_buckets = BIT(in_min_order); ht.min_alloc_buckets_order = in_min_order;
	al = cds_lfht_default_alloc; ht.alloc = &al; ht.tbl_order[o] = 0;
	cds_lfht_alloc_bucket_table(&ht, o);
	if (o == 0) VERIF_ASSERT(__CPROVER_r_ok(ht.tbl_order[0], BIT(in_min_order) * sizeof(struct cds_lfht_node)), "order allocator: table 0 holds min_nr_alloc_buckets nodes");
	else if (o > in_min_order) VERIF_ASSERT(__CPROVER_r_ok(ht.tbl_order[o], BIT(o - 1) * sizeof(struct cds_lfht_node)), "order allocator: table o holds 2^(o-1) nodes");
	else VERIF_ASSERT(ht.tbl_order[o] == 0, "order allocator: nothing allocated for 0 < order <= min order");
	VERIF_COVER(o == 0); VERIF_COVER(o > in_min_order); VERIF_COVER(o > 0 && o <= in_min_order);
}
#endif

#if defined(MM_CHUNK)
void h_bucket_at(void)
{
	struct cds_lfht *ht; struct cds_lfht_alloc al; unsigned long index, min_nr, max_nr, nr_chunks, chunk; struct cds_lfht_node *tbl, *r;
	VIN(unsigned long, in_index); VIN(unsigned long, in_min_order); VIN(unsigned long, in_max_order);
	VERIF_REQUIRE(in_min_order <= in_max_order && in_max_order <= 30);
	al = cds_lfht_default_alloc;
	ht = alloc_cds_lfht(BIT(in_min_order), BIT(in_max_order), &al);
	min_nr = ht->min_nr_alloc_buckets; max_nr = ht->max_nr_buckets;
	VERIF_ASSERT(max_nr == BIT(in_max_order) && min_nr >= BIT(in_min_order) && min_nr >= max_nr / MAX_CHUNK_TABLE && POW2(min_nr) && min_nr <= max_nr, "chunk allocator: min_nr_alloc_buckets normalised to >= max/1024 (power of two)");
	VERIF_ASSERT(ht->min_alloc_buckets_order < 64 && BIT(ht->min_alloc_buckets_order) == min_nr, "chunk allocator: min_alloc_buckets_order = log2(min_nr_alloc_buckets)");
	nr_chunks = max_nr / min_nr;
	VERIF_ASSERT(nr_chunks * min_nr == max_nr && nr_chunks <= MAX_CHUNK_TABLE, "chunk allocator: nr_chunks * chunk size == max_nr_buckets, at most 1024 chunks");
	index = in_index; VERIF_REQUIRE(index < max_nr);
	chunk = index >> ht->min_alloc_buckets_order;
	VERIF_ASSERT(chunk < nr_chunks, "chunk allocator: chunk number within the table of chunk pointers");
	tbl = malloc(min_nr * sizeof(*tbl)); VERIF_REQUIRE(tbl != 0);
	ht->tbl_chunk[chunk] = tbl;			/* also checks that the allocation of ht covers tbl_chunk[chunk] */
	r = bucket_at(ht, index);
	VERIF_ASSERT(r == &tbl[index - chunk * min_nr], "chunk allocator bucket_at: index i lives in chunk i / chunk_size at offset i mod chunk_size: in bounds and injective");
	VERIF_COVER(nr_chunks == MAX_CHUNK_TABLE && chunk == nr_chunks - 1); VERIF_COVER(nr_chunks == 1);
}
#endif

#if defined(MM_MMAP)
int getpagesize(void) { return 4096; }
void h_bucket_at(void)
{
	struct cds_lfht *ht; struct cds_lfht_alloc al; unsigned long index, page_buckets = 4096 / sizeof(struct cds_lfht_node); struct cds_lfht_node *tbl;
	VIN(unsigned long, in_index); VIN(unsigned long, in_min_order); VIN(unsigned long, in_max_order);
	VERIF_REQUIRE(in_min_order <= in_max_order && in_max_order <= 40);
	al = cds_lfht_default_alloc;
	ht = alloc_cds_lfht(BIT(in_min_order), BIT(in_max_order), &al);
	VERIF_ASSERT(ht->max_nr_buckets == BIT(in_max_order), "mmap allocator: max kept");
	VERIF_ASSERT(BIT(in_max_order) <= page_buckets ? ht->min_nr_alloc_buckets == ht->max_nr_buckets : (ht->min_nr_alloc_buckets >= page_buckets && ht->min_nr_alloc_buckets >= BIT(in_min_order)), "mmap allocator: small table => one allocation of max buckets; large => at least one page of buckets");
	index = in_index; VERIF_REQUIRE(index < ht->max_nr_buckets);
	tbl = malloc(ht->max_nr_buckets * sizeof(*tbl)); VERIF_REQUIRE(tbl != 0);
	ht->tbl_mmap = tbl;
	VERIF_ASSERT(bucket_at(ht, index) == &tbl[index], "mmap allocator bucket_at: flat array");
	VERIF_COVER(BIT(in_max_order) <= page_buckets); VERIF_COVER(BIT(in_max_order) > page_buckets);
}
/* alloc / free of one order are symmetric: what cds_lfht_free_bucket_table(order) gives back is exactly what
 * cds_lfht_alloc_bucket_table(order) made accessible - never a part of the initial mapping that lower orders still use */
unsigned long G_frees_small; void *G_freed_small;
static void *h_calloc2(void *st, size_t n, size_t sz) { (void) st; (void) n; (void) sz; return G_mm_base; }
static void h_free2(void *st, void *p) { (void) st; G_frees_small++; G_freed_small = p; }
void h_alloc_free_mmap(void)
{
	struct cds_lfht ht; struct cds_lfht_alloc al; unsigned long o, mino, maxo, sz = sizeof(struct cds_lfht_node), na;
	VIN(unsigned long, in_order); VIN(unsigned long, in_min_order); VIN(unsigned long, in_max_order);
	o = in_order; mino = in_min_order; maxo = in_max_order;
	VERIF_REQUIRE(mino <= maxo && maxo <= 40 && o <= maxo);
	ht.min_nr_alloc_buckets = BIT(mino); ht.min_alloc_buckets_order = mino; ht.max_nr_buckets = BIT(maxo);
	al.calloc = h_calloc2; al.free = h_free2; ht.alloc = &al; ht.tbl_mmap = (struct cds_lfht_node *) G_mm_base;
	G_mm_calls = 0; G_mm_bad = 0; G_frees_small = 0;
	cds_lfht_alloc_bucket_table(&ht, o);
	na = G_mm_calls;
	if (o == 0 && mino == maxo) VERIF_ASSERT(na == 0 && ht.tbl_mmap == (struct cds_lfht_node *) G_mm_base, "mmap allocator, small table: one plain allocation of max buckets");
	else if (o == 0) VERIF_ASSERT(na == 2 && G_mm_kind[0] == 1 && G_mm_len[0] == BIT(maxo) * sz && G_mm_kind[1] == 2 && G_mm_off[1] == 0 && G_mm_len[1] == BIT(mino) * sz && !G_mm_bad, "mmap allocator, order 0: reserve max buckets (inaccessible), make the first min buckets accessible");
	else if (o > mino) VERIF_ASSERT(na == 1 && G_mm_kind[0] == 2 && G_mm_off[0] == BIT(o - 1) * sz && G_mm_len[0] == BIT(o - 1) * sz && !G_mm_bad, "mmap allocator, order > min order: make exactly the upper half [2^(o-1), 2^o) accessible");
	else VERIF_ASSERT(na == 0, "mmap allocator, 0 < order <= min order: already covered by the initial mapping, nothing to do");
	cds_lfht_free_bucket_table(&ht, o);
	if (o == 0 && mino == maxo) VERIF_ASSERT(G_mm_calls == na && G_frees_small == 1 && G_freed_small == (void *) G_mm_base, "mmap allocator, small table: the allocation is freed once");
	else if (o == 0) VERIF_ASSERT(G_mm_calls == na + 1 && G_mm_kind[2] == 4 && G_mm_off[2] == 0 && G_mm_len[2] == BIT(maxo) * sz, "mmap allocator, order 0: the whole reservation is unmapped");
	else if (o > mino) VERIF_ASSERT(G_mm_calls == na + 1 && G_mm_kind[1] == 3 && G_mm_off[1] == G_mm_off[0] && G_mm_len[1] == G_mm_len[0] && !G_mm_bad, "mmap allocator: freeing an order discards EXACTLY the range its allocation made accessible");
	else VERIF_ASSERT(G_mm_calls == na && G_frees_small == 0, "mmap allocator, 0 < order <= min order: nothing is given back - those buckets live in the initial mapping, which only order 0 releases");
	VERIF_COVER(o == 0 && mino < maxo); VERIF_COVER(o > mino); VERIF_COVER(o > 0 && o == mino); VERIF_COVER(o == 0 && mino == maxo);
}
#endif
