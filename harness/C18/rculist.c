/*
 * C18 - RCU lists (include/urcu/rculist.h, rcuhlist.h, list.h, hlist.h).
 *  O1 (EVT, proved): each update primitive on a symbolic neighbourhood performs EXACTLY ONE store to a
 *      reader-visible `next` field, through a primitive with at least release ordering (plain relaxed store
 *      accepted for del, which publishes nothing new); at that store the new node is already fully linked
 *      (its `next` is the successor readers must reach); a removed node's `next` is never written; the final
 *      state is the sequential doubly-linked result.
 *  O2 (ENV, bounded): the reader macros traverse a list of <= 3 entries while an updater performs up to two
 *      of the real primitives (delete any entry, add a fresh entry at the head) between ANY two loads of the
 *      reader: terminates, visits only real entries, in list order, each at most once, and every entry that
 *      stays in the list for the whole traversal exactly once.
 */
#include <verif/verif.h>
#include <stddef.h>
#define _LGPL_SOURCE
#include <urcu/compiler.h>
#include <urcu/arch.h>
#include <urcu/system.h>
#include <urcu/uatomic.h>
#include <urcu/pointer.h>
static void evt(int kind, void *addr, int mo, unsigned long val);
static void env_step(void);
#define VERIF_EVT(kind, addr, mo, val) evt((kind), (void *)(addr), (int)(mo), (unsigned long)(val))
#ifdef ENV_MODE
#define VERIF_ENV() env_step()
#endif
#include <verif/atomics_seq.h>
#include <urcu/rculist.h>
#include <urcu/rcuhlist.h>

/* ------------------------------------------------------------------------------------------------ */
/* O1: update primitives                                                                              */
/* ------------------------------------------------------------------------------------------------ */
unsigned long G_pub_stores;		/* primitive stores to the watched (reader-visible) next field */
unsigned long G_other_prim_stores;	/* primitive stores elsewhere */
unsigned long G_pub_ok;			/* publication predicate held at the store */
int G_pub_mo;
void *G_watch;				/* address of the one next field readers will see change */
void **G_new_next; void *G_expect_next;	/* at publication: *G_new_next == G_expect_next */

static void evt(int kind, void *addr, int mo, unsigned long val)
{
	(void) val;
	if (kind != EV_STORE && kind != EV_XCHG && kind != EV_CMPXCHG) return;
	if (addr == G_watch) {
		G_pub_stores++; G_pub_mo = mo;
		G_pub_ok = (G_new_next == 0) || (*G_new_next == G_expect_next);
	} else {
		G_other_prim_stores++;
	}
}

struct cds_list_head H, P, N, X, O, STALE;	/* head / predecessor, successor, new node, old node */
unsigned long in_shape;

/* a circular list  ... P <-> N ...  (P may be the head; P == N is the empty list when in_shape == 0) */
static void mk_pair(void)
{
	VIN(unsigned long, in_shape);
	if (in_shape & 1) { P.next = &N; N.prev = &P; N.next = &H; H.prev = &N; H.next = &P; P.prev = &H; }
	else { P.next = &P; P.prev = &P; }	/* empty list: P is the head, its own successor */
	G_pub_stores = G_other_prim_stores = 0; G_pub_ok = 0;
}
#define SUCC_OF_P ((in_shape & 1) ? &N : &P)

void h_list_add_rcu(void)
{
	struct cds_list_head *succ;
	mk_pair(); succ = SUCC_OF_P;
	X.next = X.prev = &STALE;	/* a recycled node: its links still point into the list it was removed from */
	G_watch = &P.next; G_new_next = (void **) &X.next; G_expect_next = succ;
	cds_list_add_rcu(&X, &P);
	VERIF_ASSERT(G_pub_stores == 1 && G_other_prim_stores == 0, "list_add_rcu: exactly one store to the reader-visible next pointer");
	VERIF_ASSERT(G_pub_mo >= CMM_RELEASE, "list_add_rcu: that store has release ordering (rcu_assign_pointer)");
	VERIF_ASSERT(G_pub_ok, "list_add_rcu: the new node's next is set BEFORE the node is published");
	VERIF_ASSERT(P.next == &X && X.next == succ && X.prev == &P && succ->prev == &X, "list_add_rcu: sequential result (inserted right after head, both directions)");
	VERIF_COVER(in_shape & 1); VERIF_COVER(!(in_shape & 1));
}
void h_list_add_tail_rcu(void)
{
	/* head = N's successor H when non-empty; insert before head, i.e. after head->prev */
	struct cds_list_head *head, *last;
	mk_pair(); X.next = X.prev = &STALE;
	head = (in_shape & 1) ? &H : &P; last = head->prev;
	G_watch = &last->next; G_new_next = (void **) &X.next; G_expect_next = head;
	cds_list_add_tail_rcu(&X, head);
	VERIF_ASSERT(G_pub_stores == 1 && G_other_prim_stores == 0, "list_add_tail_rcu: exactly one store to the reader-visible next pointer");
	VERIF_ASSERT(G_pub_mo >= CMM_RELEASE && G_pub_ok, "list_add_tail_rcu: release store, new node linked to the head before publication");
	VERIF_ASSERT(last->next == &X && X.next == head && X.prev == last && head->prev == &X, "list_add_tail_rcu: sequential result (inserted before head)");
	VERIF_COVER(in_shape & 1); VERIF_COVER(!(in_shape & 1));
}
void h_list_del_rcu(void)
{
	/* remove O from  P <-> O <-> N */
	struct cds_list_head *o_next, *o_prev;
	P.next = &O; O.prev = &P; O.next = &N; N.prev = &O; N.next = &P; P.prev = &N;
	G_pub_stores = G_other_prim_stores = 0; G_watch = &P.next; G_new_next = 0;
	o_next = O.next; o_prev = O.prev;
	cds_list_del_rcu(&O);
	VERIF_ASSERT(G_pub_stores == 1 && G_other_prim_stores == 0, "list_del_rcu: exactly one (primitive) store, to the predecessor's next");
	VERIF_ASSERT(P.next == &N && N.prev == &P, "list_del_rcu: neighbours relinked");
	VERIF_ASSERT(O.next == o_next, "list_del_rcu: the removed node's next is left intact (readers standing on it continue)");
}
void h_list_replace_rcu(void)
{
	P.next = &O; O.prev = &P; O.next = &N; N.prev = &O; N.next = &P; P.prev = &N;
	G_pub_stores = G_other_prim_stores = 0; G_watch = &P.next; G_new_next = (void **) &X.next; G_expect_next = &N;
	X.next = X.prev = &STALE;
	cds_list_replace_rcu(&O, &X);
	VERIF_ASSERT(G_pub_stores == 1 && G_other_prim_stores == 0 && G_pub_mo >= CMM_RELEASE && G_pub_ok, "list_replace_rcu: one release store, new node linked to the successor before publication");
	VERIF_ASSERT(P.next == &X && X.next == &N && X.prev == &P && N.prev == &X, "list_replace_rcu: sequential result");
	VERIF_ASSERT(O.next == &N, "list_replace_rcu: the replaced node's next is left intact");
}
struct cds_hlist_head HH; struct cds_hlist_node HN, HX, HO, HSTALE;
void h_hlist_add_head_rcu(void)
{
	VIN(unsigned long, in_shape);
	HH.next = (in_shape & 1) ? &HN : 0; HN.prev = (struct cds_hlist_node *) &HH; HN.next = 0;
	G_pub_stores = G_other_prim_stores = 0; G_watch = &HH.next; G_new_next = (void **) &HX.next; G_expect_next = HH.next;
	HX.next = HX.prev = &HSTALE;	/* a recycled node (hlist_del_rcu leaves next intact): stale links, also when the list is empty */
	cds_hlist_add_head_rcu(&HX, &HH);
	VERIF_ASSERT(G_pub_stores == 1 && G_other_prim_stores == 0 && G_pub_mo >= CMM_RELEASE && G_pub_ok, "hlist_add_head_rcu: one release store, new node linked before publication");
	VERIF_ASSERT(HH.next == &HX && HX.next == ((in_shape & 1) ? &HN : 0) && HX.prev == (struct cds_hlist_node *) &HH && (!(in_shape & 1) || HN.prev == &HX), "hlist_add_head_rcu: sequential result");
	VERIF_COVER(in_shape & 1); VERIF_COVER(!(in_shape & 1));
}
void h_hlist_del_rcu(void)
{
	struct cds_hlist_node *o_next;
	VIN(unsigned long, in_shape);
	HH.next = &HO; HO.prev = (struct cds_hlist_node *) &HH; HO.next = (in_shape & 1) ? &HN : 0; HN.prev = &HO; HN.next = 0;
	G_pub_stores = G_other_prim_stores = 0; G_watch = &HH.next; G_new_next = 0; o_next = HO.next;
	cds_hlist_del_rcu(&HO);
	VERIF_ASSERT(G_pub_stores == 1 && G_other_prim_stores == 0, "hlist_del_rcu: exactly one (primitive) store, to the predecessor's next");
	VERIF_ASSERT(HH.next == o_next && (!(in_shape & 1) || HN.prev == (struct cds_hlist_node *) &HH), "hlist_del_rcu: neighbours relinked");
	VERIF_ASSERT(HO.next == o_next, "hlist_del_rcu: the removed node's next is left intact");
	VERIF_COVER(in_shape & 1); VERIF_COVER(!(in_shape & 1));
}

/* ------------------------------------------------------------------------------------------------ */
/* O2: readers under an updater                                                                      */
/* ------------------------------------------------------------------------------------------------ */
struct item { long value; struct cds_hlist_node hn; struct cds_list_head ln; };	/* link members are NOT first */
struct item I[3], IX, ISTALE;
struct cds_hlist_head RH; struct cds_list_head RL;
unsigned long G_env_on, G_ops, G_deleted[3], G_added, G_kind;	/* G_kind: 0 hlist, 1 list */
unsigned long G_n;

static void env_sub(void)
{
	unsigned a = nondet_uint(), i = nondet_uint();
	if (G_ops >= 2) return;
#define ENV_DEL(k) if (a == 1 && i == (k) && (k) < G_n && !G_deleted[k]) {					\
		if (G_kind == 0) cds_hlist_del_rcu(&I[k].hn); else cds_list_del_rcu(&I[k].ln);			\
		G_deleted[k] = 1; G_ops++; return; }
	ENV_DEL(0) ENV_DEL(1) ENV_DEL(2)
	if (a == 2 && !G_added) {
		IX.value = 100; IX.hn.next = IX.hn.prev = &ISTALE.hn; IX.ln.next = IX.ln.prev = &ISTALE.ln;	/* recycled item with stale links */
		if (G_kind == 0) cds_hlist_add_head_rcu(&IX.hn, &RH); else cds_list_add_rcu(&IX.ln, &RL);
		G_added = 1; G_ops++;
	}
}
static void env_step(void)
{
	unsigned long on = G_env_on;
	if (!on) return;
	G_env_on = 0;		/* the updater's own primitives do not recurse into the environment */
	env_sub(); env_sub();
	G_env_on = on;
}

static void mk_read(unsigned long kind)
{
	unsigned long i;
	G_n = nondet_ulong(); VERIF_REQUIRE(G_n <= 3);
	G_kind = kind;
	CDS_INIT_HLIST_HEAD(&RH); CDS_INIT_LIST_HEAD(&RL);
	for (i = 3; i-- > 0;) {
		I[i].value = (long) i; G_deleted[i] = 0;
		if (i < G_n) { if (kind == 0) cds_hlist_add_head(&I[i].hn, &RH); else cds_list_add(&I[i].ln, &RL); }
	}
	G_ops = 0; G_added = 0; G_env_on = 1;
}
/* bookkeeping of one visit */
unsigned long V_count[3], V_last, V_x, V_bad;
static void visit(struct item *e)
{
	if (e == &IX) { V_x++; if (V_last != 0 || V_count[0] || V_count[1] || V_count[2]) V_bad |= 4; /* a head insertion can only be seen first */ return; }
	if (e == &I[0] || e == &I[1] || e == &I[2]) {
		unsigned long k = e == &I[0] ? 0 : (e == &I[1] ? 1 : 2);
		VERIF_ASSERT(e->value == (long) k, "reader sees fully initialised contents");
		if (k < V_last) V_bad |= 1;		/* order violated */
		V_last = k + 1; V_count[k]++;
		return;
	}
	V_bad |= 2;					/* not an entry that ever was in the list */
}
static void check_visits(const char *who)
{
	unsigned long k;
	(void) who;
	VERIF_ASSERT(!(V_bad & 2), "reader visits only entries that were in the list at some moment of the traversal");
	VERIF_ASSERT(!(V_bad & 1), "reader visits entries in list order");
	VERIF_ASSERT(!(V_bad & 4) && V_x <= 1, "an entry added at the head is seen at most once and only first");
	for (k = 0; k < 3; k++) {
		VERIF_ASSERT(V_count[k] <= 1, "no entry is visited twice");
		if (k < G_n && !G_deleted[k]) VERIF_ASSERT(V_count[k] == 1, "an entry that stays in the list for the whole traversal is visited exactly once");
		if (k >= G_n) VERIF_ASSERT(V_count[k] == 0, "entries never in the list are not visited");
	}
}
#define RESET_V() do { V_count[0] = V_count[1] = V_count[2] = 0; V_last = 0; V_x = 0; V_bad = 0; } while (0)

#ifdef ENV_MODE
void h_read_hlist_entry_2(void)
{
	struct item *e;
	mk_read(0); RESET_V();
	cds_hlist_for_each_entry_rcu_2(e, &RH, hn)
		visit(e);
	G_env_on = 0; check_visits("hlist _rcu_2");
	VERIF_COVER(G_ops == 2 && G_n == 3 && G_deleted[2] && V_count[1] == 1); VERIF_COVER(V_x == 1 && G_n == 2);
}
void h_read_hlist_entry(void)
{
	struct item *e; struct cds_hlist_node *pos;
	mk_read(0); RESET_V();
	cds_hlist_for_each_entry_rcu(e, pos, &RH, hn)
		visit(e);
	G_env_on = 0; check_visits("hlist entry");
	VERIF_COVER(G_ops == 2 && G_n == 3);
}
void h_read_hlist(void)
{
	struct cds_hlist_node *pos;
	mk_read(0); RESET_V();
	cds_hlist_for_each_rcu(pos, &RH)
		visit(cds_hlist_entry(pos, struct item, hn));
	G_env_on = 0; check_visits("hlist");
	VERIF_COVER(G_ops == 2 && G_n == 3);
}
void h_read_list_entry(void)
{
	struct item *e;
	mk_read(1); RESET_V();
	cds_list_for_each_entry_rcu(e, &RL, ln)
		visit(e);
	G_env_on = 0; check_visits("list entry");
	VERIF_COVER(G_ops == 2 && G_n == 3 && G_deleted[1]); VERIF_COVER(V_x == 1);
}
void h_read_list(void)
{
	struct cds_list_head *pos;
	mk_read(1); RESET_V();
	cds_list_for_each_rcu(pos, &RL)
		visit(cds_list_entry(pos, struct item, ln));
	G_env_on = 0; check_visits("list");
	VERIF_COVER(G_ops == 2 && G_n == 3);
}
#endif
