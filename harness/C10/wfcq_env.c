/*
 * C10.O4 - dequeue / first / next of the wait-free concurrent queue UNDER CONCURRENT ENQUEUERS (ENV mode).
 *
 * Before every shared-memory primitive of the function under proof (and once more after it returns) the
 * environment may run: up to two enqueues of fresh nodes E[0], E[1], each split into its two atomic
 * steps exactly as ___cds_wfcq_append() performs them
 *        E1(j):  old = xchg(&tail.p, &E[j])            E2(j):  old->next = &E[j]
 * interleaved arbitrarily with the dequeuer (bounded stand-in: at most 2 concurrent enqueues; a dequeue
 * never dereferences nodes beyond the second queue element, so further enqueues only change tail.p).
 * The queue starts with a quiescent chain S[0..n) of symbolic length.  After the call all pending E2 steps
 * are completed and the concrete chain must be  (S ++ E[0..m)) minus the returned node, which must be the
 * first element: nothing lost, duplicated or reordered.  Dequeuers are serialized (API contract), so the
 * environment never dequeues.
 */
#include <verif/verif.h>
#include <verif/os_stubs.h>
#include <urcu/compiler.h>
#include <urcu/arch.h>
#include <urcu/system.h>
#include <urcu/uatomic.h>
static void env_step(void);
#define VERIF_ENV() env_step()
#include <verif/atomics_seq.h>
#include "wfcqueue.c"
#include <verif/pool.h>

typedef struct cds_wfcq_node node_t;
POOL_DECL(S, node_t);
node_t E[2];
struct __cds_wfcq_head s_head;
struct cds_wfcq_tail s_tail;
unsigned long G_m;		/* environment enqueues whose E1 step has happened */
unsigned long G_pend[2];	/* which node's ->next the E2 step of E[j] will set: 0 head, 1 S[n-1], 2 E[0] */
unsigned long G_done[2];	/* E2 step of E[j] has happened */
unsigned long G_env_on;
#ifndef ENV_MAX
#define ENV_MAX 1		/* number of concurrent environment enqueues */
#endif

#define INST(P, k) do { if ((k) < P##_n) P[k].next = ((k) + 1 < P##_n) ? &P[(k) + 1] : (node_t *) 0; } while (0)

static void env_link(unsigned long j)
{
	if (G_pend[j] == 0) s_head.node.next = &E[j];
	else if (G_pend[j] == 1) S[S_n - 1].next = &E[j];
	else E[0].next = &E[j];
	G_done[j] = 1;
}
static void env_sub(void)
{
	unsigned a = nondet_uint();
	if (a == 1 && G_m < ENV_MAX) {			/* E1: old = xchg(&tail.p, &E[m]) */
		node_t *old = s_tail.p;
		G_pend[G_m] = (old == &s_head.node) ? 0 : (old == &E[0]) ? 2 : 1;
		if (G_pend[G_m] == 1)
			VERIF_ASSERT(S_n >= 1 && old == &S[S_n - 1], "ENV: tail.p always designates the last element (rely of the enqueuers)");
		s_tail.p = &E[G_m];
		G_m++;
	} else if (a == 2 && G_m >= 1 && !G_done[0]) {	/* E2(0): old->next = &E[0] */
		env_link(0);
	} else if (ENV_MAX > 1 && a == 3 && G_m >= 2 && !G_done[1]) {
		env_link(1);
	}
}
static void env_step(void)
{
	if (!G_env_on) return;
	env_sub(); env_sub();
#if ENV_MAX > 1
	env_sub(); env_sub();
#endif
}
static void env_finish(void)
{
	if (G_m >= 1 && !G_done[0]) env_link(0);
	if (G_m >= 2 && !G_done[1]) env_link(1);
}

/* i-th element of the abstract sequence S ++ E[0..m) */
static node_t *seq(unsigned long i)
{
	if (i < S_n) return &S[i];
	if (i - S_n < G_m) return &E[i - S_n];
	return 0;
}
static void check_chain(unsigned long removed, unsigned long w, const char *unused)
{
	unsigned long total = S_n + G_m, i;
	(void) unused;
	VERIF_ASSERT(s_head.node.next == seq(removed), "ENV: head points to the first remaining element (nothing lost at the front)");
	VERIF_ASSERT(s_tail.p == (total > removed ? seq(total - 1) : &s_head.node), "ENV: tail is the last element / the head when empty");
	/* links around the boundary between pre-existing and environment nodes, and a witness */
	if (S_n >= 1 && S_n - 1 >= removed) VERIF_ASSERT(S[S_n - 1].next == seq(S_n), "ENV: last pre-existing node links to the first concurrently enqueued one");
	if (G_m >= 1 && S_n >= removed) VERIF_ASSERT(E[0].next == seq(S_n + 1), "ENV: concurrently enqueued nodes stay linked in order");
	if (G_m >= 2) VERIF_ASSERT(E[1].next == 0, "ENV: last enqueued node terminates the chain");
	if (w >= removed && w < S_n) VERIF_ASSERT(S[w].next == seq(w + 1), "ENV: interior of the chain untouched");
}

unsigned long in_blocking, in_with_state;

static void mk(void)
{
	POOL_ALLOC(S, node_t);
	s_head.node.next = S_n ? &S[0] : 0;
	s_tail.p = S_n ? &S[S_n - 1] : &s_head.node;
	INST(S, 0); INST(S, 1); INST(S, S_n - 1);
	E[0].next = 0; E[1].next = 0;
	G_m = 0; G_done[0] = G_done[1] = 0; G_env_on = 1;
}

void h_dequeue_env(void)
{
	node_t *r; unsigned long w; int state = 0;
	mk();
	w = nondet_ulong(); VERIF_REQUIRE(S_n == 0 || w < S_n); INST(S, w);
	VIN(unsigned long, in_blocking); VIN(unsigned long, in_with_state);
	if (in_blocking & 1)
		r = __cds_wfcq_dequeue_with_state_blocking(&s_head, &s_tail, &state);
	else
		r = __cds_wfcq_dequeue_with_state_nonblocking(&s_head, &s_tail, &state);
	env_step();
	G_env_on = 0;
	env_finish();
	if (r == CDS_WFCQ_WOULDBLOCK) {
		VERIF_ASSERT(!(in_blocking & 1), "ENV dequeue: only the non-blocking variant returns WOULDBLOCK");
		VERIF_ASSERT(S_n <= 1, "ENV dequeue: WOULDBLOCK only when the next pointer needed was still being set by an enqueuer");
		check_chain(0, w, "");		/* queue left exactly as if the call had not happened */
	} else if (r == 0) {
		VERIF_ASSERT(S_n == 0, "ENV dequeue: NULL only if the queue was empty at some instant of the call");
		check_chain(0, w, "");
	} else {
		VERIF_ASSERT(r == seq(0), "ENV dequeue: returns the FIRST element of the queue");
		check_chain(1, w, "");
		VERIF_ASSERT(!(state & CDS_WFCQ_STATE_LAST) || S_n + G_m >= 1, "state sanity");
	}
#if ENV_MAX > 1
	VERIF_COVER(r == &S[0] && S_n == 1 && G_m == 2);	/* last node dequeued while two enqueues raced */
#endif
	VERIF_COVER(r == CDS_WFCQ_WOULDBLOCK && S_n == 1);
	VERIF_COVER(r == &E[0]);
	VERIF_COVER(r == &S[0] && S_n > 4 && G_m == 1);
	VERIF_COVER(r == &S[0] && S_n == 1 && (state & CDS_WFCQ_STATE_LAST) && G_m == 1);	/* enqueue right after the queue was emptied */
}

void h_iter_env(void)
{
	node_t *f, *nx; unsigned long k;
	mk();
	k = nondet_ulong(); VERIF_REQUIRE(S_n == 0 || k < S_n); INST(S, k);
	VIN(unsigned long, in_blocking);
	f = (in_blocking & 1) ? __cds_wfcq_first_blocking(&s_head, &s_tail) : __cds_wfcq_first_nonblocking(&s_head, &s_tail);
	VERIF_ASSERT(f == CDS_WFCQ_WOULDBLOCK ? (!(in_blocking & 1) && S_n == 0) : (f == seq(0) || (f == 0 && S_n == 0)), "ENV first: first element, NULL only if it was empty, WOULDBLOCK only while the first link is in flight");
	if (S_n) {
		nx = (in_blocking & 1) ? __cds_wfcq_next_blocking(&s_head, &s_tail, &S[k]) : __cds_wfcq_next_nonblocking(&s_head, &s_tail, &S[k]);
		if (nx == CDS_WFCQ_WOULDBLOCK)
			VERIF_ASSERT(!(in_blocking & 1) && k == S_n - 1, "ENV next: WOULDBLOCK only at a node whose successor link is in flight");
		else
			VERIF_ASSERT(nx == seq(k + 1) || (nx == 0 && k == S_n - 1), "ENV next: successor in queue order, NULL only at the (then) last node");
	}
	env_step(); G_env_on = 0; env_finish();
	check_chain(0, k, "");
	VERIF_COVER(S_n > 3 && k == S_n - 1 && G_m == 1); VERIF_COVER(f == &E[0]);
}
