/*
 * C10.O1 - wait-free concurrent queue, sequential FIFO contracts on a QUIESCENT queue of symbolic length n
 * (pool layout, verif/pool.h).  Real text: src/wfcqueue.c (exported wrappers) over
 * include/urcu/static/wfcqueue.h.  The primitives have their sequential meaning (atomics_seq.h); on a
 * quiescent queue every busy-wait loop iterates 0 times (passing unwinding assertions => complete).
 */
#include <verif/verif.h>
#include <verif/os_stubs.h>
#include <urcu/compiler.h>
#include <urcu/arch.h>
#include <urcu/system.h>
#include <urcu/uatomic.h>
unsigned long G_relax;	/* number of caa_cpu_relax()/poll() (waiting) events */
unsigned long G_xchg_seen, G_order_ok, G_empty_loads;
void *G_tail_addr, *G_headnext_addr;
static void evt(int kind, void *addr, int mo);
#define VERIF_EVT(kind, addr, mo, val) evt((kind), (void *)(addr), (int)(mo))
#include <verif/atomics_seq.h>
#include "wfcqueue.c"
#include <verif/pool.h>

/* splice: how the three words shared with concurrent enqueuers are changed (source head.next, source tail, destination tail) */
void *G_sp_src_tail, *G_sp_src_head, *G_sp_dst_tail;
unsigned long G_sp_src_tail_x, G_sp_src_tail_st, G_sp_src_head_x, G_sp_src_head_st, G_sp_dst_tail_x, G_sp_dst_tail_st, G_sp_weak;
static void evt(int kind, void *addr, int mo)
{
	if (G_sp_src_tail) {
		if (addr == G_sp_src_tail) { if (kind == EV_XCHG) { G_sp_src_tail_x++; if (mo < CMM_SEQ_CST) G_sp_weak = 1; } else if (kind != EV_LOAD) G_sp_src_tail_st++; }
		if (addr == G_sp_src_head) { if (kind == EV_XCHG) G_sp_src_head_x++; else if (kind != EV_LOAD) G_sp_src_head_st++; }
		if (addr == G_sp_dst_tail) { if (kind == EV_XCHG) { G_sp_dst_tail_x++; if (mo < CMM_SEQ_CST) G_sp_weak = 1; } else if (kind != EV_LOAD) G_sp_dst_tail_st++; }
		return;
	}
	if (kind == EV_RELAX) G_relax++;
	if (kind == EV_XCHG && addr == G_tail_addr) { G_xchg_seen++; if (mo < CMM_SEQ_CST) G_order_ok = 0; }
	if (kind == EV_STORE && G_xchg_seen && mo < CMM_RELEASE) G_order_ok = 0;	/* link store: at least release, after the exchange */
	if (kind == EV_STORE && !G_xchg_seen) G_order_ok = 0;
	if (kind == EV_LOAD && (addr == G_tail_addr || addr == G_headnext_addr)) G_empty_loads++;
}
typedef struct cds_wfcq_node node_t;
POOL_DECL(S, node_t);		/* the queue under test (source queue for splice) */
POOL_DECL(D, node_t);		/* destination queue for splice */
struct __cds_wfcq_head s_head, d_head;
struct cds_wfcq_tail s_tail, d_tail;

#define S_AT(k) ((k) < S_n ? &S[k] : (node_t *) 0)
#define D_AT(k) ((k) < D_n ? &D[k] : (node_t *) 0)
#define INST(P, k) do { if ((k) < P##_n) P[k].next = ((k) + 1 < P##_n) ? &P[(k) + 1] : (node_t *) 0; } while (0)

static void mk_S(void)
{
	POOL_ALLOC(S, node_t);
	s_head.node.next = S_AT(0);
	s_tail.p = S_n ? &S[S_n - 1] : &s_head.node;
	INST(S, 0); INST(S, 1); INST(S, S_n - 1);
}
static void mk_D(void)
{
	POOL_ALLOC(D, node_t);
	d_head.node.next = D_AT(0);
	d_tail.p = D_n ? &D[D_n - 1] : &d_head.node;
	INST(D, 0); INST(D, D_n - 1);
}

/* enqueue appends at the tail */
void h_enqueue(void)
{
	node_t N, *wv; unsigned long w; bool r;
	mk_S();
	w = nondet_ulong(); VERIF_REQUIRE(S_n == 0 || w < S_n); INST(S, w); wv = S_n ? S[w].next : 0;
	cds_wfcq_node_init(&N);
	G_tail_addr = &s_tail.p; G_order_ok = 1; G_xchg_seen = 0;
	r = cds_wfcq_enqueue(&s_head, &s_tail, &N);
	VERIF_ASSERT(G_xchg_seen == 1 && G_order_ok, "enqueue: the tail exchange (full barrier) precedes the link store, which is at least a release store");
	VERIF_ASSERT(r == (S_n != 0), "enqueue: returns whether the queue was non-empty");
	VERIF_ASSERT(s_tail.p == &N, "enqueue: tail is the new node");
	VERIF_ASSERT(N.next == 0, "enqueue: new node is last");
	if (S_n) {
		VERIF_ASSERT(S[S_n - 1].next == &N, "enqueue: old tail links to the new node");
		VERIF_ASSERT(s_head.node.next == &S[0], "enqueue: head untouched on a non-empty queue");
		VERIF_ASSERT(w == S_n - 1 || S[w].next == wv, "enqueue: no other node modified");
	} else {
		VERIF_ASSERT(s_head.node.next == &N, "enqueue: first node of an empty queue hangs off the head");
	}
	VERIF_ASSERT(G_relax == 0, "enqueue: wait-free (no waiting primitive)");
	VERIF_COVER(S_n > 5 && w == 3); VERIF_COVER(S_n == 0);
}

unsigned long in_blocking, in_with_state;
/* dequeue removes position 0 */
void h_dequeue(void)
{
	node_t *r, *wv, *t0; unsigned long w; int state = 77;
	mk_S();
	w = nondet_ulong(); VERIF_REQUIRE(S_n == 0 || w < S_n); INST(S, w); wv = S_n ? S[w].next : 0;
	t0 = s_tail.p;
	VIN(unsigned long, in_blocking); VIN(unsigned long, in_with_state);
	if (in_blocking & 1)
		r = (in_with_state & 1) ? __cds_wfcq_dequeue_with_state_blocking(&s_head, &s_tail, &state) : __cds_wfcq_dequeue_blocking(&s_head, &s_tail);
	else
		r = (in_with_state & 1) ? __cds_wfcq_dequeue_with_state_nonblocking(&s_head, &s_tail, &state) : __cds_wfcq_dequeue_nonblocking(&s_head, &s_tail);
	VERIF_ASSERT(r != CDS_WFCQ_WOULDBLOCK, "dequeue: never WOULDBLOCK on a quiescent queue");
	VERIF_ASSERT(r == S_AT(0), "dequeue: returns the oldest node, NULL iff empty");
	VERIF_ASSERT(s_head.node.next == S_AT(1), "dequeue: head advanced by exactly one");
	VERIF_ASSERT(s_tail.p == (S_n == 1 ? &s_head.node : t0), "dequeue: tail reset to the head iff the last node was removed");
	if (in_with_state & 1)
		VERIF_ASSERT(state == (S_n == 1 ? CDS_WFCQ_STATE_LAST : 0), "dequeue: LAST state iff the queue became empty");
	VERIF_ASSERT(S_n == 0 || S[w].next == wv, "dequeue: no node modified");
	VERIF_ASSERT(G_relax == 0, "dequeue: no waiting on a quiescent queue");
	VERIF_COVER(S_n > 5 && w == 3); VERIF_COVER(S_n == 1); VERIF_COVER(S_n == 0); VERIF_COVER(!(in_blocking & 1) && S_n == 2);
}

/* first / next: iteration step (the for_each macros are first + repeated next) */
void h_iter(void)
{
	node_t *f, *nx; unsigned long k;
	mk_S();
	k = nondet_ulong(); VERIF_REQUIRE(S_n == 0 || k < S_n); INST(S, k);
	VIN(unsigned long, in_blocking);
	f = (in_blocking & 1) ? __cds_wfcq_first_blocking(&s_head, &s_tail) : __cds_wfcq_first_nonblocking(&s_head, &s_tail);
	VERIF_ASSERT(f == S_AT(0), "first: position 0, NULL iff empty");
	if (S_n) {
		nx = (in_blocking & 1) ? __cds_wfcq_next_blocking(&s_head, &s_tail, &S[k]) : __cds_wfcq_next_nonblocking(&s_head, &s_tail, &S[k]);
		VERIF_ASSERT(nx == S_AT(k + 1), "next: position k+1, NULL exactly at the end => for_each visits 0..n-1 in order, each once");
	}
	VERIF_ASSERT(cds_wfcq_empty(&s_head, &s_tail) == (S_n == 0), "empty() <=> no node queued");
	VERIF_ASSERT(s_head.node.next == S_AT(0) && s_tail.p == (S_n ? &S[S_n - 1] : &s_head.node), "iteration does not modify the queue");
	VERIF_ASSERT(G_relax == 0, "iteration: no waiting on a quiescent queue");
	VERIF_COVER(S_n > 5 && k == S_n - 1); VERIF_COVER(S_n > 5 && k == 2);
}

/* splice: dest' = dest ++ src, src' empty and reusable */
void h_splice(void)
{
	enum cds_wfcq_ret r; unsigned long w, v; node_t *wv, *vv, N; bool e;
	mk_S(); mk_D();
	w = nondet_ulong(); VERIF_REQUIRE(S_n == 0 || w < S_n); INST(S, w); wv = S_n ? S[w].next : 0;
	v = nondet_ulong(); VERIF_REQUIRE(D_n == 0 || v < D_n); INST(D, v); vv = D_n ? D[v].next : 0;
	VIN(unsigned long, in_blocking);
	G_sp_src_tail = &s_tail.p; G_sp_src_head = &s_head.node.next; G_sp_dst_tail = &d_tail.p;
	G_sp_src_tail_x = G_sp_src_tail_st = G_sp_src_head_x = G_sp_src_head_st = G_sp_dst_tail_x = G_sp_dst_tail_st = G_sp_weak = 0;
	r = (in_blocking & 1) ? __cds_wfcq_splice_blocking(&d_head, &d_tail, &s_head, &s_tail)
			      : __cds_wfcq_splice_nonblocking(&d_head, &d_tail, &s_head, &s_tail);
	G_sp_src_tail = 0;
	/* enqueuers on the source and on the destination are wait-free and never excluded: each of the three shared words must change in ONE atomic
	 * exchange.  A load followed by a store loses the node of an enqueuer whose tail exchange falls in between (its tail update is overwritten) */
	if (S_n) {
		VERIF_ASSERT(G_sp_src_tail_x == 1 && G_sp_src_tail_st == 0, "splice: the source tail is detached by exactly one atomic exchange (never load + store)");
		VERIF_ASSERT(G_sp_src_head_x == 1 && G_sp_src_head_st == 0, "splice: the source's first node is taken by exactly one atomic exchange");
		VERIF_ASSERT(G_sp_dst_tail_x == 1 && G_sp_dst_tail_st == 0, "splice: the destination tail is advanced by exactly one atomic exchange");
		VERIF_ASSERT(!G_sp_weak, "splice: the tail exchanges are full barriers (the store to the source head is ordered before the store to the source tail)");
	} else
		VERIF_ASSERT(G_sp_src_tail_x + G_sp_src_tail_st + G_sp_src_head_x + G_sp_src_head_st + G_sp_dst_tail_x + G_sp_dst_tail_st == 0, "splice of an empty source writes nothing");
	VERIF_ASSERT(r == (S_n == 0 ? CDS_WFCQ_RET_SRC_EMPTY : (D_n ? CDS_WFCQ_RET_DEST_NON_EMPTY : CDS_WFCQ_RET_DEST_EMPTY)), "splice: return code reflects emptiness of source / destination");
	VERIF_ASSERT(s_head.node.next == 0 && s_tail.p == &s_head.node, "splice: source left empty and reusable");
	if (S_n) {
		VERIF_ASSERT(d_tail.p == &S[S_n - 1], "splice: destination tail is the source's last node");
		VERIF_ASSERT((D_n ? D[D_n - 1].next : d_head.node.next) == &S[0], "splice: old destination tail links to the source's first node");
		VERIF_ASSERT(D_n == 0 || d_head.node.next == &D[0], "splice: destination head untouched when it was non-empty");
	} else {
		VERIF_ASSERT(d_tail.p == (D_n ? &D[D_n - 1] : &d_head.node) && d_head.node.next == D_AT(0), "splice of an empty source changes nothing");
	}
	VERIF_ASSERT(S_n == 0 || S[w].next == wv, "splice: source chain kept intact (all nodes moved, in order)");
	VERIF_ASSERT(D_n == 0 || (v == D_n - 1 && S_n) || D[v].next == vv, "splice: destination chain kept intact");
	/* reusable: an enqueue on the emptied source behaves as on a fresh queue */
	cds_wfcq_node_init(&N);
	e = cds_wfcq_enqueue(&s_head, &s_tail, &N);
	VERIF_ASSERT(!e && s_head.node.next == &N && s_tail.p == &N, "splice: source is reusable afterwards");
	VERIF_ASSERT(G_relax == 0, "splice: no waiting on quiescent queues");
	VERIF_COVER(S_n > 3 && D_n > 3 && w == 2 && v == 1); VERIF_COVER(S_n == 0 && D_n > 0); VERIF_COVER(S_n > 0 && D_n == 0);
}

/* init */
void h_init(void)
{
	struct cds_wfcq_head h; struct cds_wfcq_tail t;
	cds_wfcq_init(&h, &t);
	G_tail_addr = &t.p; G_headnext_addr = &h.node.next; G_empty_loads = 0;
	VERIF_ASSERT(h.node.next == 0 && t.p == &h.node, "init: empty queue");
	VERIF_ASSERT(cds_wfcq_empty(&h, &t), "init: empty() holds");
	VERIF_ASSERT(G_empty_loads == 2, "empty() reads both head.next and tail.p before answering true");
}

/* the adaptive wait shared by every blocking walk (node_sync_next, splice): for EVERY attempt counter */
unsigned long in_attempt, in_blocking;
void h_busy_wait(void)
{
	int attempt, a0, blocking; bool r;
	VIN(unsigned long, in_attempt); VIN(unsigned long, in_blocking);
	a0 = attempt = (int) (in_attempt % 0x7fffffffUL); blocking = (int) (in_blocking & 1);
	G_os_poll_calls = 0;
	r = ___cds_wfcq_busy_wait(&attempt, blocking);
	VERIF_ASSERT(r == !blocking, "busy_wait: reports 'would block' (1) to NON-blocking callers only - a blocking caller is never told to give up, however long the enqueuer it waits for stays suspended (it would hand WOULDBLOCK to code that takes it for a node)");
	if (blocking) {
		VERIF_ASSERT(attempt == ((a0 + 1 >= WFCQ_ADAPT_ATTEMPTS) ? 0 : a0 + 1), "busy_wait (blocking): counts attempts, restarts the count after sleeping");
		VERIF_ASSERT(G_os_poll_calls == ((a0 + 1 >= WFCQ_ADAPT_ATTEMPTS) ? 1UL : 0UL), "busy_wait (blocking): spins WFCQ_ADAPT_ATTEMPTS times, then sleeps once per round");
	} else
		VERIF_ASSERT(attempt == a0 && G_os_poll_calls == 0, "busy_wait (non-blocking): neither counts nor sleeps");
	VERIF_COVER(blocking && a0 + 1 >= WFCQ_ADAPT_ATTEMPTS); VERIF_COVER(blocking && a0 == 0); VERIF_COVER(!blocking);
}
