/*
 * C10.O2 - legacy wait-free queue (cds_wfq) with its embedded dummy node, sequential contracts on a quiescent
 * queue of symbolic length: n real nodes S[0..n) with the dummy at an arbitrary position d in [0, n].
 * Real text: include/urcu/static/wfqueue.h through the public inline wrappers of <urcu/wfqueue.h>.
 */
#include <verif/verif.h>
#include <verif/os_stubs.h>
#define _LGPL_SOURCE
#include <urcu/compiler.h>
#include <urcu/arch.h>
#include <urcu/system.h>
#include <urcu/uatomic.h>
unsigned long G_relax, G_xchg_seen, G_order_ok;
void *G_tail_addr;
static void evt(int kind, void *addr, int mo);
#define VERIF_EVT(kind, addr, mo, val) evt((kind), (void *)(addr), (int)(mo))
#include <verif/atomics_seq.h>
#include <urcu/wfqueue.h>
#include <verif/pool.h>

static void evt(int kind, void *addr, int mo)
{
	if (kind == EV_RELAX) G_relax++;
	if (kind == EV_XCHG && addr == G_tail_addr) { G_xchg_seen++; if (mo < CMM_SEQ_CST) G_order_ok = 0; }
	if (kind == EV_STORE && G_xchg_seen && mo < CMM_RELEASE) G_order_ok = 0;	/* link store after the tail exchange: at least release */
	if (kind == EV_STORE && !G_xchg_seen) G_order_ok = 0;				/* link before the exchange */
}

typedef struct cds_wfq_node node_t;
POOL_DECL(S, node_t);
struct cds_wfq_queue q;
unsigned long G_d;		/* position of the dummy among the n+1 chain elements */

/* element i of the chain (n+1 elements) */
static node_t *elem(unsigned long i)
{
	if (i > S_n) return 0;
	if (i == G_d) return &q.dummy;
	return &S[i < G_d ? i : i - 1];
}
#define INST(k) do { if ((k) < S_n) S[k].next = elem(((k) < G_d ? (k) : (k) + 1) + 1); } while (0)

static void mk(void)
{
	POOL_ALLOC(S, node_t);
	G_d = nondet_ulong(); VERIF_REQUIRE(G_d <= S_n);
	INST(0); INST(1); INST(G_d - 1); INST(G_d); INST(S_n - 1);
	q.dummy.next = elem(G_d + 1);
	q.head = elem(0);
	q.tail = &elem(S_n)->next;
	G_tail_addr = &q.tail; G_order_ok = 1; G_xchg_seen = 0; G_relax = 0;
}

void h_wfq_enqueue(void)
{
	node_t N, *last;
	mk();
	last = elem(S_n);
	cds_wfq_node_init(&N);
	cds_wfq_enqueue(&q, &N);
	VERIF_ASSERT(q.tail == &N.next && last->next == &N && N.next == 0, "wfq enqueue: appended after the last element");
	VERIF_ASSERT(q.head == elem(0), "wfq enqueue: head untouched");
	VERIF_ASSERT(G_xchg_seen == 1 && G_order_ok, "wfq enqueue: tail exchange (full barrier) precedes the release store of the link");
	VERIF_ASSERT(G_relax == 0, "wfq enqueue: wait-free");
	VERIF_COVER(S_n > 3 && G_d == 2); VERIF_COVER(S_n == 0);
}

void h_wfq_dequeue(void)
{
	node_t *r; unsigned long w; node_t *wv;
	mk();
	w = nondet_ulong(); VERIF_REQUIRE(S_n == 0 || w < S_n); INST(w); wv = S_n ? S[w].next : 0;
	r = __cds_wfq_dequeue_blocking(&q);
	VERIF_ASSERT(r != &q.dummy, "wfq dequeue: the dummy node is never returned");
	VERIF_ASSERT(r == (S_n ? &S[0] : (node_t *) 0), "wfq dequeue: oldest real node, NULL iff none");
	if (S_n) {
		if (G_d == 0) {	/* dummy was first: it is re-enqueued at the tail */
			VERIF_ASSERT(q.tail == &q.dummy.next && q.dummy.next == 0 && S[S_n - 1].next == &q.dummy, "wfq dequeue: a leading dummy is recycled to the tail");
			VERIF_ASSERT(q.head == (S_n >= 2 ? &S[1] : &q.dummy), "wfq dequeue: head advanced past the dummy and the returned node");
		} else {
			VERIF_ASSERT(q.head == elem(1), "wfq dequeue: head advanced by one");
			VERIF_ASSERT(q.tail == &elem(S_n)->next, "wfq dequeue: tail untouched");
		}
		VERIF_ASSERT((G_d == 0 && w == S_n - 1) || S[w].next == wv, "wfq dequeue: no other node modified");
	} else {
		VERIF_ASSERT(q.head == &q.dummy && q.tail == &q.dummy.next, "wfq dequeue on an empty queue changes nothing");
	}
	VERIF_ASSERT(G_relax == 0, "wfq dequeue: no waiting on a quiescent queue");
	VERIF_COVER(S_n > 3 && G_d == 0); VERIF_COVER(S_n > 3 && G_d == 2 && w == 3); VERIF_COVER(S_n == 1 && G_d == 0); VERIF_COVER(S_n == 0);
}
