/*
 * C15.O2 - explicit reader registration of the memb, mb and qsbr flavors (src/urcu.c, src/urcu-qsbr.c):
 * exactly one list insertion / removal of the thread's own node, performed while holding rcu_registry_lock;
 * qsbr: the thread goes offline BEFORE taking the lock when it leaves (a grace period holding the lock and
 * waiting for it would deadlock) and online only AFTER releasing it when it joins.
 * Another registered reader R (and an arbitrary ongoing scan) is present: its node is untouched.
 */
#include <verif/verif.h>
#define OS_LOCK_HOOKS
#include <verif/os_stubs.h>
#if defined(FLAVOR_QSBR)
# define SRC "urcu-qsbr.c"
# define RD URCU_TLS(urcu_qsbr_reader)
# define OTHER_T struct urcu_qsbr_reader
#elif defined(FLAVOR_MB)
# define RCU_MB
# define SRC "urcu.c"
# define RD URCU_TLS(rcu_reader)
# define OTHER_T struct urcu_reader
#else
# define RCU_MEMBARRIER
# define SRC "urcu.c"
# define RD URCU_TLS(rcu_reader)
# define OTHER_T struct urcu_reader
#endif
#include <verif/flavor_pre.h>
#include <verif/atomics_seq.h>
#include SRC

OTHER_T R;
struct cds_list_head Lother;		/* a list of the running grace period (cur_snap / qsreaders) that may hold nodes */
unsigned long G_ctr_at_lock, G_ctr_at_unlock, G_onlist_at_lock, G_onlist_at_unlock, G_locks;
static int on_registry(void)
{
	struct cds_list_head *p; unsigned k = 0; int f = 0;
	for (p = registry.next; p != &registry && k < 4; p = p->next, k++) if (p == &RD.node) f++;
	return f;
}
static void os_lock_hook(pthread_mutex_t *m) { if (m == &rcu_registry_lock) { G_locks++; G_ctr_at_lock = RD.ctr; G_onlist_at_lock = on_registry(); } }
static void os_unlock_hook(pthread_mutex_t *m) { if (m == &rcu_registry_lock) { G_ctr_at_unlock = RD.ctr; G_onlist_at_unlock = on_registry(); } }

unsigned long in_gp, in_other;
static void mk(void)
{
	VIN(unsigned long, in_gp); VIN(unsigned long, in_other);
	CDS_INIT_LIST_HEAD(&registry); CDS_INIT_LIST_HEAD(&Lother);
	if (in_other & 1) cds_list_add(&R.node, &registry);
	rcu_gp.ctr = in_gp;
#ifdef FLAVOR_QSBR
	VERIF_REQUIRE(in_gp & URCU_QSBR_GP_ONLINE);
#elif defined(RCU_MEMBARRIER)
	init_done = 1;
#endif
	G_locks = 0;
}
void h_register(void)
{
	mk();
	RD.ctr = 0; RD.registered = 0;
	rcu_register_thread();
	VERIF_ASSERT(G_locks == 1 && G_os_locks_held == 0, "register: takes and releases rcu_registry_lock exactly once");
	VERIF_ASSERT(G_onlist_at_lock == 0 && G_onlist_at_unlock == 1 && on_registry() == 1, "register: the node is inserted exactly once, inside the critical section");
	VERIF_ASSERT(RD.registered == 1, "register: registered flag set");
	VERIF_ASSERT(!(in_other & 1) || (on_registry() == 1 && (registry.next == &R.node || registry.next->next == &R.node)), "register: the other reader stays registered");
#ifdef FLAVOR_QSBR
	VERIF_ASSERT(G_ctr_at_unlock == 0 && RD.ctr == in_gp, "qsbr register: online (snapshot of gp.ctr) only AFTER the registry lock is released");
#endif
	VERIF_COVER(in_other & 1); VERIF_COVER(!(in_other & 1));
}
void h_unregister(void)
{
	mk();
	/* the thread's node is on the registry OR on a list of a running grace period (scan in progress) */
	VIN(unsigned long, in_gp);
	if (in_other & 2) cds_list_add(&RD.node, &Lother); else cds_list_add(&RD.node, &registry);
	RD.registered = 1;
#ifdef FLAVOR_QSBR
	RD.ctr = in_gp;
	RD.waiting = 0;
#else
	RD.ctr = 0;
#endif
	rcu_unregister_thread();
	VERIF_ASSERT(G_locks == 1 && G_os_locks_held == 0, "unregister: takes and releases rcu_registry_lock exactly once");
	VERIF_ASSERT(on_registry() == 0 && cds_list_empty(&Lother), "unregister: the node is removed from WHICHEVER list holds it (registry or a list of the running grace period)");
	VERIF_ASSERT(RD.registered == 0, "unregister: registered flag cleared");
	VERIF_ASSERT(!(in_other & 1) || (registry.next == &R.node && R.node.next == &registry), "unregister: the other reader stays registered");
#ifdef FLAVOR_QSBR
	VERIF_ASSERT(G_ctr_at_lock == 0 && RD.ctr == 0, "qsbr unregister: the thread is offline BEFORE it takes the registry lock (no deadlock with a waiting grace period)");
#endif
	VERIF_COVER(in_other & 2); VERIF_COVER(!(in_other & 2) && (in_other & 1));
}
