/*
 * C15.O1 - doubly linked list primitives of include/urcu/list.h used by the reader registries, on symbolic
 * neighbourhoods (explicit nodes; every other node of the lists is untouched by construction: the primitives
 * receive no other pointer).  cds_list_del works from whichever list holds the node: no list head in its footprint.
 */
#include <verif/verif.h>
#include <urcu/list.h>

struct cds_list_head H1, H2, A, B, C, X;
unsigned long in_shape;
#define LINK2(a, b) do { (a)->next = (b); (b)->prev = (a); } while (0)

void h_add(void)
{
	VIN(unsigned long, in_shape);
	if (in_shape & 1) { LINK2(&H1, &A); LINK2(&A, &H1); } else CDS_INIT_LIST_HEAD(&H1);
	cds_list_add(&X, &H1);
	VERIF_ASSERT(H1.next == &X && X.prev == &H1 && X.next == ((in_shape & 1) ? &A : &H1) && X.next->prev == &X, "list_add: inserted right after the head, both directions consistent");
	VERIF_ASSERT(!(in_shape & 1) || (A.next == &H1 && H1.prev == &A), "list_add: rest of the list untouched");
	VERIF_COVER(in_shape & 1); VERIF_COVER(!(in_shape & 1));
}
void h_del(void)
{
	/* A <-> X <-> B somewhere in SOME list (the heads are not even passed) */
	LINK2(&A, &X); LINK2(&X, &B);
	A.prev = &C; B.next = &C;
	cds_list_del(&X);
	VERIF_ASSERT(A.next == &B && B.prev == &A, "list_del: neighbours relinked");
	VERIF_ASSERT(A.prev == &C && B.next == &C, "list_del: nothing else written (works in whichever list holds the node)");
}
void h_move(void)
{
	VIN(unsigned long, in_shape);
	LINK2(&H1, &A); LINK2(&A, &X); LINK2(&X, &H1);		/* H1: A X */
	if (in_shape & 1) { LINK2(&H2, &B); LINK2(&B, &H2); } else CDS_INIT_LIST_HEAD(&H2);
	cds_list_move(&X, &H2);
	VERIF_ASSERT(H1.next == &A && A.next == &H1 && H1.prev == &A && A.prev == &H1, "list_move: source list keeps its other nodes");
	VERIF_ASSERT(H2.next == &X && X.prev == &H2 && X.next == ((in_shape & 1) ? &B : &H2) && X.next->prev == &X, "list_move: node now first in the destination list");
	VERIF_COVER(in_shape & 1); VERIF_COVER(!(in_shape & 1));
}
void h_splice(void)
{
	VIN(unsigned long, in_shape);
	/* add list H2: empty, or A B ; destination H1: empty, or C */
	if (in_shape & 1) { LINK2(&H2, &A); LINK2(&A, &B); LINK2(&B, &H2); } else CDS_INIT_LIST_HEAD(&H2);
	if (in_shape & 2) { LINK2(&H1, &C); LINK2(&C, &H1); } else CDS_INIT_LIST_HEAD(&H1);
	cds_list_splice(&H2, &H1);
	if (in_shape & 1) {
		VERIF_ASSERT(H1.next == &A && A.prev == &H1 && A.next == &B && B.prev == &A, "list_splice: the added nodes come first, in order");
		VERIF_ASSERT((in_shape & 2) ? (B.next == &C && C.prev == &B && C.next == &H1 && H1.prev == &C) : (B.next == &H1 && H1.prev == &B), "list_splice: followed by the nodes the destination ALREADY HELD (nothing dropped)");
	} else {
		VERIF_ASSERT((in_shape & 2) ? (H1.next == &C && C.next == &H1 && H1.prev == &C && C.prev == &H1) : cds_list_empty(&H1), "list_splice of an empty list changes nothing");
	}
	VERIF_COVER((in_shape & 3) == 3); VERIF_COVER((in_shape & 3) == 1); VERIF_COVER((in_shape & 3) == 0);
}
void h_empty(void)
{
	CDS_INIT_LIST_HEAD(&H1);
	VERIF_ASSERT(cds_list_empty(&H1), "init => empty");
	cds_list_add(&X, &H1);
	VERIF_ASSERT(!cds_list_empty(&H1), "non-empty after add");
	cds_list_del(&X);
	VERIF_ASSERT(cds_list_empty(&H1), "empty again after del");
}
