/*
 * C15.O4/O5, C16.O1/O2 - bp flavor (src/urcu-bp.c): registry arena (slots never move, reuse, doubling),
 * automatic registration with all signals blocked and rcu_registry_lock held, and the fork handlers.
 * mmap / mremap / munmap are stubs with ghost bookkeeping: mmap returns fresh zeroed memory (with slack so that an
 * in-place mremap can be modelled), mremap without MAYMOVE either fails or grows in place (harness choice).
 */
#include <verif/verif.h>
#define OS_LOCK_HOOKS
#define OS_SIGMASK_HOOK
#include <verif/os_stubs.h>
#include <verif/flavor_pre.h>
#include <sys/mman.h>
#ifndef MREMAP_MAYMOVE
#define MREMAP_MAYMOVE 1
#endif
#include <verif/atomics_seq.h>

unsigned long G_mmap_calls, G_mremap_calls, G_mremap_ok, G_munmap_calls;
void *G_last_mmap; unsigned long G_last_mmap_len;
static void *verif_mmap(size_t len);
void *mmap(void *addr, size_t len, int prot, int flags, int fd, off_t off)
{
	(void) addr; (void) prot; (void) flags; (void) fd; (void) off;
	return verif_mmap(len);
}
/* memset is logged, not performed: the stub memory is zero already; what is checked is that the arena clears
 * exactly the freshly mapped / freshly grown byte range */
unsigned long G_ms_calls; void *G_ms_ptr; unsigned long G_ms_len; int G_ms_val;
void *memset(void *p, int c, size_t n) { G_ms_calls++; G_ms_ptr = p; G_ms_len = n; G_ms_val = c; return p; }
void *mremap(void *old, size_t old_size, size_t new_size, int flags, ...)
{
	G_mremap_calls++;
	VERIF_ASSERT(!(flags & MREMAP_MAYMOVE), "the arena never lets the kernel MOVE a chunk (reader threads hold pointers into it)");
	VERIF_ASSERT(new_size <= old_size * 2, "stub slack suffices");
	if (G_mremap_ok) return old;	/* grown in place */
	return MAP_FAILED;
}
int munmap(void *p, size_t len) { (void) p; (void) len; G_munmap_calls++; return 0; }
static pthread_key_t G_key_created; static void *G_tls_val;
int pthread_key_create(pthread_key_t *k, void (*d)(void *)) { (void) d; *k = 5; G_key_created = 5; return 0; }
int pthread_key_delete(pthread_key_t k) { (void) k; return 0; }
int pthread_setspecific(pthread_key_t k, const void *v) { (void) k; G_tls_val = (void *) v; return 0; }

#include "urcu-bp.c"

/* backing store for the mmap stub: TYPED, zero-initialised objects with the layout of a registry_chunk followed by
 * twice the requested number of slots (slack for one in-place doubling).  The arena asks for INIT_READER_COUNT slots
 * first and for twice that afterwards; anything else is reported. */
struct store_a { size_t capacity, used; struct cds_list_head node; struct urcu_bp_reader readers[2 * INIT_READER_COUNT]; };
struct store_b { size_t capacity, used; struct cds_list_head node; struct urcu_bp_reader readers[4 * INIT_READER_COUNT]; };
static void *verif_mmap(size_t len)
{
	void *p;
	VERIF_ASSERT(__builtin_offsetof(struct store_a, readers) == __builtin_offsetof(struct registry_chunk, readers) && __builtin_offsetof(struct store_a, node) == __builtin_offsetof(struct registry_chunk, node), "stub layout equals the chunk layout");
	G_mmap_calls++;
	if (G_mmap_calls == 1) { VERIF_ASSERT(len == chunk_allocation_size(INIT_READER_COUNT), "first mapping holds INIT_READER_COUNT slots"); p = calloc(1, sizeof(struct store_a)); }
	else { VERIF_ASSERT(G_mmap_calls == 2 && len == chunk_allocation_size(2 * INIT_READER_COUNT), "second mapping holds twice as many"); p = calloc(1, sizeof(struct store_b)); }
	VERIF_REQUIRE(p != 0);
	G_last_mmap = p; G_last_mmap_len = len;
	return p;
}

unsigned long G_sig_blocked_at_lock, G_lock_seen, G_sig_at_tlscheck;
static void os_lock_hook(pthread_mutex_t *m) { if (m == &rcu_registry_lock) { G_lock_seen++; G_sig_blocked_at_lock = (G_os_sig_blocked == ~0UL); } }
static void os_unlock_hook(pthread_mutex_t *m) { (void) m; }
/* a signal may arrive at any instant at which it is not blocked - in particular between the caller's test of the TLS
 * pointer and the moment pthread_sigmask(SIG_BLOCK) takes effect.  Its handler uses bp RCU and therefore registers the
 * thread (the real urcu_bp_register, nested). */
unsigned long G_sig_fire, G_sig_fired;
static void os_sigmask_hook(int how, const sigset_t *set)
{
	(void) set;
	if (G_sig_fire && !G_sig_fired && how == SIG_BLOCK && G_os_sig_blocked != ~0UL) {
		G_sig_fired = 1;
		urcu_bp_register();		/* the handler's rcu_read_lock() finds the thread unregistered */
	}
}

unsigned long in_ok, in_used, in_slot, in_pre;
#define CHUNK0 (cds_list_entry(registry_arena.chunk_list.next, struct registry_chunk, node))
#define CHUNKLAST (cds_list_entry(registry_arena.chunk_list.prev, struct registry_chunk, node))

void h_expand(void)
{
	struct registry_chunk *c0; struct urcu_bp_reader *slot; unsigned long w;
	VIN(unsigned long, in_ok); VIN(unsigned long, in_slot);
	CDS_INIT_LIST_HEAD(&registry_arena.chunk_list);
	expand_arena(&registry_arena);				/* first chunk */
	c0 = CHUNK0;
	VERIF_ASSERT(G_mmap_calls == 1 && c0->capacity == INIT_READER_COUNT && c0->used == 0 && CHUNKLAST == c0, "arena: first expansion creates one chunk of INIT_READER_COUNT slots");
	VERIF_ASSERT(G_ms_calls == 1 && G_ms_ptr == (void *) c0 && G_ms_len == chunk_allocation_size(INIT_READER_COUNT) && G_ms_val == 0, "arena: the whole new chunk is cleared");
	w = in_slot % INIT_READER_COUNT; slot = &c0->readers[w];
	VERIF_ASSERT(slot->alloc == 0 && slot->ctr == 0, "arena: new slots are zeroed (free, not in a critical section)");
	slot->alloc = 1; slot->ctr = 0x12345; c0->used = 1;	/* a thread lives in that slot */
	G_mremap_ok = in_ok & 1;
	expand_arena(&registry_arena);				/* second expansion */
	VERIF_ASSERT(CHUNK0 == c0 && &c0->readers[w] == slot && slot->alloc == 1 && slot->ctr == 0x12345, "arena: an existing chunk and its slots never move and keep their contents when the arena grows");
	if (in_ok & 1) {
		VERIF_ASSERT(CHUNKLAST == c0 && c0->capacity == 2 * INIT_READER_COUNT && G_mmap_calls == 1, "arena: in-place growth doubles the capacity of the last chunk");
		VERIF_ASSERT(G_ms_calls == 2 && G_ms_ptr == (void *) ((char *) c0 + chunk_allocation_size(INIT_READER_COUNT)) && G_ms_len == chunk_allocation_size(2 * INIT_READER_COUNT) - chunk_allocation_size(INIT_READER_COUNT) && G_ms_val == 0, "arena: exactly the added byte range (the new slots) is cleared");
		VERIF_ASSERT(c0->readers[INIT_READER_COUNT + w].alloc == 0 && c0->readers[INIT_READER_COUNT + w].ctr == 0, "arena: the added slots are zeroed");
	} else {
		struct registry_chunk *c1 = CHUNKLAST;
		VERIF_ASSERT(c1 != c0 && c0->node.next == &c1->node && c1->capacity == 2 * INIT_READER_COUNT && c1->used == 0 && c0->capacity == INIT_READER_COUNT, "arena: otherwise a new chunk of twice the capacity is appended, the old chunk is untouched");
		VERIF_ASSERT(G_ms_calls == 2 && G_ms_ptr == (void *) c1 && G_ms_len == chunk_allocation_size(2 * INIT_READER_COUNT) && G_ms_val == 0, "arena: the whole new chunk is cleared");
		VERIF_ASSERT(c1->readers[w].alloc == 0, "arena: the new chunk's slots are free");
	}
	VERIF_ASSERT(c0->used == 1, "arena: usage count untouched by expansion");
	VERIF_COVER(in_ok & 1); VERIF_COVER(!(in_ok & 1));
}

void h_arena_alloc(void)
{
	struct registry_chunk *c0; struct urcu_bp_reader *r; unsigned long k, freeidx, used;
	VIN(unsigned long, in_used); VIN(unsigned long, in_ok);
	CDS_INIT_LIST_HEAD(&registry_arena.chunk_list);
	expand_arena(&registry_arena); c0 = CHUNK0;
	/* chunk 0: ARBITRARY occupancy (bit k of in_used: slot k belongs to a live thread) */
	freeidx = INIT_READER_COUNT; used = 0;
	for (k = 0; k < INIT_READER_COUNT; k++) {
		c0->readers[k].alloc = (in_used >> k) & 1;
		if ((in_used >> k) & 1) used++; else if (freeidx == INIT_READER_COUNT) freeidx = k;
	}
	c0->used = used;
	G_mremap_ok = in_ok & 1; G_mremap_calls = 0;
	r = arena_alloc(&registry_arena);
	VERIF_ASSERT(r != 0 && r->alloc == 1, "arena_alloc: returns a slot, now marked allocated");
	if (freeidx < INIT_READER_COUNT) {
		VERIF_ASSERT(r == &c0->readers[freeidx] && c0->used == used + 1 && G_mmap_calls == 1 && G_mremap_calls == 0, "arena_alloc: reuses a free slot of an existing chunk (slots of exited threads are reused), no expansion");
	} else {
		VERIF_ASSERT(G_mremap_calls == 1, "arena_alloc: a full arena is expanded exactly once");
		if (in_ok & 1) VERIF_ASSERT(CHUNKLAST == c0 && r == &c0->readers[INIT_READER_COUNT] && c0->used == INIT_READER_COUNT + 1, "arena_alloc: first slot of the grown part, never a slot that is already allocated");
		else VERIF_ASSERT(CHUNKLAST != c0 && r == &CHUNKLAST->readers[0] && CHUNKLAST->used == 1 && c0->used == INIT_READER_COUNT, "arena_alloc: first slot of the new chunk, never a slot that is already allocated");
	}
	for (k = 0; k < INIT_READER_COUNT; k++)
		VERIF_ASSERT(c0->readers[k].alloc == (int) (((in_used >> k) & 1) || k == freeidx), "arena_alloc: occupied slots stay occupied, no other slot is taken");
	VERIF_COVER(freeidx == 1); VERIF_COVER(freeidx == 5 && used == 6); VERIF_COVER(freeidx == INIT_READER_COUNT && (in_ok & 1)); VERIF_COVER(freeidx == INIT_READER_COUNT && !(in_ok & 1));
}

/* the thread was registered by a signal handler between the caller's test and urcu_bp_register() */
void h_register_already(void)
{
	struct urcu_bp_reader *mine;
	CDS_INIT_LIST_HEAD(&registry_arena.chunk_list); CDS_INIT_LIST_HEAD(&registry);
	urcu_bp_refcount = 1; initialized = 1;
	G_os_sig_blocked = 0x40; G_lock_seen = 0;
	expand_arena(&registry_arena);
	URCU_TLS(urcu_bp_reader) = &CHUNK0->readers[0]; CHUNK0->readers[0].alloc = 1; CHUNK0->used = 1;
	cds_list_add(&CHUNK0->readers[0].node, &registry);
	urcu_bp_register();
	VERIF_ASSERT(G_os_sig_blocked == 0x40, "bp register: previous signal mask restored on every path");
	VERIF_ASSERT(G_os_locks_held == 0, "bp register: registry lock released");
	mine = URCU_TLS(urcu_bp_reader);
	VERIF_ASSERT(G_lock_seen == 0 && G_mmap_calls == 1 && mine == &CHUNK0->readers[0] && CHUNK0->used == 1 && registry.next == &mine->node && mine->node.next == &registry, "bp register: already registered (by a handler) => no second slot, nothing touched");
	VERIF_COVER(mine != 0);
}

void h_register_unregister(void)
{
	struct urcu_bp_reader *mine;
	VIN(unsigned long, in_pre);
	CDS_INIT_LIST_HEAD(&registry_arena.chunk_list); CDS_INIT_LIST_HEAD(&registry);
	urcu_bp_refcount = in_pre & 1; initialized = in_pre & 1;	/* 0: first registration, before the library constructor ran */
	G_os_sig_blocked = 0x40; G_lock_seen = 0;
	URCU_TLS(urcu_bp_reader) = 0;
	urcu_bp_register();
	VERIF_ASSERT(G_os_sig_blocked == 0x40, "bp register: previous signal mask restored on every path");
	VERIF_ASSERT(G_os_locks_held == 0, "bp register: registry lock released");
	mine = URCU_TLS(urcu_bp_reader);
	VERIF_ASSERT(initialized == 1 && ((in_pre & 1) || G_key_created == 5), "bp register: library initialised (thread-exit key created) even when called before the constructor");
	VERIF_ASSERT(G_lock_seen == 1 && G_sig_blocked_at_lock, "bp register: the slot is allocated and linked with ALL signals blocked and rcu_registry_lock held");
	VERIF_ASSERT(mine != 0 && mine->alloc == 1 && mine->ctr == 0 && mine->tid == pthread_self() && registry.next == &mine->node, "bp register: thread owns a fresh slot that is on the registry");
	VERIF_ASSERT(G_tls_val == (void *) mine, "bp register: slot recorded for the thread-exit notifier");
	/* thread exit */
	G_lock_seen = 0; urcu_bp_refcount++;		/* another user keeps the library alive */
	urcu_bp_thread_exit_notifier(mine);
	VERIF_ASSERT(G_lock_seen == 1 && G_sig_blocked_at_lock && G_os_sig_blocked == 0x40 && G_os_locks_held == 0, "bp unregister: under blocked signals + registry lock, mask and lock restored");
	VERIF_ASSERT(mine->alloc == 0 && mine->ctr == 0 && mine->tid == 0 && cds_list_empty(&registry) && URCU_TLS(urcu_bp_reader) == 0 && CHUNK0->used == 0, "bp unregister: slot freed for reuse, off the registry, reader word cleared");
	VERIF_COVER(in_pre & 1); VERIF_COVER(!(in_pre & 1));
}

/* find_chunk / cleanup_thread with TWO chunks: the slot of an exiting thread is released in the chunk that contains it */
unsigned long in_chunk, in_idx;
#ifndef FC_WHICH
#define FC_WHICH 0
#define FC_LAST 0
#endif
void h_find_chunk(void)
{
	struct registry_chunk *c0, *c1, *f; struct urcu_bp_reader *slot; unsigned long idx, which;
	VIN(unsigned long, in_chunk); VIN(unsigned long, in_idx);
	CDS_INIT_LIST_HEAD(&registry_arena.chunk_list); CDS_INIT_LIST_HEAD(&registry);
	expand_arena(&registry_arena); G_mremap_ok = 0; expand_arena(&registry_arena);	/* second chunk (mremap refused) */
	c0 = CHUNK0; c1 = CHUNKLAST;
	VERIF_REQUIRE(c0 != c1);
	which = FC_WHICH; idx = FC_LAST ? (which ? 2 * INIT_READER_COUNT : INIT_READER_COUNT) - 1 : 0;	/* first / last slot of either chunk (the boundary cases of the range test) */
	slot = which ? &c1->readers[idx] : &c0->readers[idx];
	f = find_chunk(slot);
	VERIF_ASSERT(f == (which ? c1 : c0), "find_chunk: the chunk that contains the slot, for every slot of either chunk (first and last slot included)");
	VERIF_ASSERT(find_chunk(&c0->readers[INIT_READER_COUNT]) != c0, "find_chunk: the address one past a chunk's last slot does not belong to it");
	slot->alloc = 1; slot->ctr = 0x10001; slot->tid = pthread_self(); cds_list_add(&slot->node, &registry); c0->used = 3; c1->used = 5; (which ? c1 : c0)->used++;
	remove_thread(slot);
	VERIF_ASSERT(slot->alloc == 0 && slot->ctr == 0 && slot->tid == 0 && cds_list_empty(&registry), "remove_thread: slot released, reader word cleared, off the registry");
	VERIF_ASSERT(c0->used == 3 && c1->used == 5, "remove_thread: the usage count of the chunk that contains the slot - and only that one - goes down (arena_alloc skips chunks whose count says full)");
	VERIF_COVER(f != 0);
}

/* C15.O5 / C19: a signal handler registers the thread inside urcu_bp_register(), just before signals get blocked */
void h_register_signal(void)
{
	struct urcu_bp_reader *mine; struct cds_list_head *p; unsigned long n = 0;
	CDS_INIT_LIST_HEAD(&registry_arena.chunk_list); CDS_INIT_LIST_HEAD(&registry);
	urcu_bp_refcount = 1; initialized = 1;
	G_os_sig_blocked = 0x40; G_lock_seen = 0; G_sig_fire = 1; G_sig_fired = 0;
	URCU_TLS(urcu_bp_reader) = 0;
	urcu_bp_register();
	mine = URCU_TLS(urcu_bp_reader);
	VERIF_ASSERT(G_sig_fired == 1, "the signal was delivered inside urcu_bp_register, before the mask took effect");
	VERIF_ASSERT(G_os_sig_blocked == 0x40 && G_os_locks_held == 0, "bp register interrupted by a registering handler: mask and lock restored");
	for (p = registry.next; p != &registry && n < 3; p = p->next) n++;
	VERIF_ASSERT(mine != 0 && n == 1 && registry.next == &mine->node && CHUNK0->used == 1 && G_lock_seen == 1 && G_mmap_calls == 1,
		     "bp register: the TLS pointer is re-checked AFTER all signals are blocked, so a handler that registered the thread in between is noticed - the thread owns exactly ONE slot and is on the registry once (signals cannot break registration)");
	VERIF_COVER(mine != 0);
}

/* ---- C16: fork handlers ------------------------------------------------------------------------------ */
unsigned long in_child, in_alloc, in_tids;
#define NF 3
/* the list SHAPE is concrete (slots 0..NF-2 allocated and registered, slot NF-1 free); the owners are arbitrary */
#define FORK_ALLOC(k) ((k) < NF - 1)
void h_fork(void)
{
	struct registry_chunk *c0; unsigned long k, me, kept = 0, n = 0; struct cds_list_head *p;
	VIN(unsigned long, in_child); VIN(unsigned long, in_alloc); VIN(unsigned long, in_tids);
	CDS_INIT_LIST_HEAD(&registry_arena.chunk_list); CDS_INIT_LIST_HEAD(&registry);
	expand_arena(&registry_arena); c0 = CHUNK0;
	me = (unsigned long) pthread_self();
	for (k = 0; k < NF; k++) {			/* NF slots with arbitrary occupancy and owners */
		struct urcu_bp_reader *r = &c0->readers[k];
		r->alloc = FORK_ALLOC(k);
		r->tid = ((in_tids >> k) & 1) ? (pthread_t) me : (pthread_t) (1000 + k);
		r->ctr = r->alloc ? 0x10001 : 0;		/* inside a read-side critical section at fork time */
		if (r->alloc) { cds_list_add(&r->node, &registry); c0->used++; }
	}
	G_os_sig_blocked = 0x80;
	urcu_bp_before_fork();
	VERIF_ASSERT(G_os_sig_blocked == ~0UL && OS_HELD(&rcu_gp_lock) == 1 && OS_HELD(&rcu_registry_lock) == 1, "bp before_fork: all signals blocked, gp lock then registry lock held across fork()");
	if (in_child & 1) {
		urcu_bp_after_fork_child();
		for (k = 0; k < NF; k++) {
			struct urcu_bp_reader *r = &c0->readers[k];
			int was = FORK_ALLOC(k), mine = (in_tids >> k) & 1;
			VERIF_ASSERT(r->alloc == (was && mine), "bp after_fork_child: every slot of a thread that does not exist in the child is released; the forking thread keeps its own");
			VERIF_ASSERT((was && mine) ? r->ctr == 0x10001 : r->ctr == 0, "bp after_fork_child: reader words of vanished threads are cleared (they cannot block grace periods in the child); the forking thread's word is kept");
			if (was && mine) kept++;
		}
		VERIF_ASSERT(c0->used == kept, "bp after_fork_child: usage count matches the surviving slots");
		for (p = registry.next; p != &registry && n <= NF; p = p->next) {
			struct urcu_bp_reader *r = cds_list_entry(p, struct urcu_bp_reader, node);
			VERIF_ASSERT(r->alloc == 1 && r->tid == (pthread_t) me, "bp after_fork_child: the child's registry lists only the forking thread");
			n++;
		}
		VERIF_ASSERT(n == kept, "bp after_fork_child: registry = exactly the surviving slots, each once");
	} else {
		urcu_bp_after_fork_parent();
		for (k = 0; k < NF; k++) VERIF_ASSERT(c0->readers[k].alloc == (int) FORK_ALLOC(k) && c0->readers[k].ctr == (c0->readers[k].alloc ? 0x10001UL : 0UL), "bp after_fork_parent: registry untouched");
	}
	VERIF_ASSERT(G_os_locks_held == 0 && OS_HELD(&rcu_gp_lock) == 0 && OS_HELD(&rcu_registry_lock) == 0, "bp fork handlers: nothing left locked in either process");
	VERIF_ASSERT(G_os_sig_blocked == 0x80, "bp fork handlers: the signal mask from before the fork is restored in either process");
	VERIF_COVER((in_child & 1) && (in_tids & 3) == 2); VERIF_COVER(!(in_child & 1)); VERIF_COVER((in_child & 1) && (in_tids & 3) == 0); VERIF_COVER((in_child & 1) && (in_tids & 3) == 3);
}
