/*
 * C15.O3 - a thread registers WHILE a grace period is running (src/urcu.c, memb / mb flavors), bounded.
 * The real synchronize_rcu() and wait_for_readers() run.  One reader R1 is registered at the start; its reader
 * word holds an arbitrary value at every load (it locks / unlocks at will).  Whenever wait_for_readers() drops
 * rcu_registry_lock (between passes, or around sleeping), the environment may register a new thread Rn with
 * the real list primitive, exactly as rcu_register_thread() does.  When synchronize_rcu() returns the registry
 * must hold exactly the scanned reader AND the new thread: a thread that joined during the grace period is
 * never dropped from the registry (later grace periods wait for it).
 */
#include <verif/verif.h>
#define OS_LOCK_HOOKS
#include <verif/os_stubs.h>
#if defined(FLAVOR_MB)
# define RCU_MB
#else
# define RCU_MEMBARRIER
#endif
#include <verif/flavor_pre.h>
static void load_hook(void *addr);
#define VERIF_LOAD_HOOK(addr) load_hook((void *)(addr))
#include <verif/atomics_seq.h>
#include "urcu.c"

struct urcu_reader R1, Rn;
unsigned long G_loads, G_new_registered, G_unlocks_in_scan;
static void load_hook(void *addr)
{
	if (addr == (void *) &R1.ctr) {
		G_loads++;
		R1.ctr = nondet_ulong();
		/* liveness is not the subject: the reader is quiescent from its third observation on */
		if (G_loads >= 3) R1.ctr = 0;
	}
}
static void os_lock_hook(pthread_mutex_t *m) { (void) m; }
static void os_unlock_hook(pthread_mutex_t *m)
{
	/* rcu_register_thread() of another thread gets the lock while the scan has dropped it */
	if (m == &rcu_registry_lock && OS_HELD(&rcu_gp_lock) == 1 && !G_new_registered && nondet_bool()) {
		G_unlocks_in_scan++;
		cds_list_add(&Rn.node, &registry);
		G_new_registered = 1;
	}
}
static int on_list(struct cds_list_head *l, struct cds_list_head *n)
{
	struct cds_list_head *p; unsigned k = 0; int f = 0;
	for (p = l->next; p != l && k < 4; p = p->next, k++) if (p == n) f++;
	return f;
}
unsigned long in_gp;
void h_sync_dynreg(void)
{
	VIN(unsigned long, in_gp);
	rcu_gp.ctr = in_gp; rcu_gp.futex = 0;
	CDS_INIT_LIST_HEAD(&registry); cds_list_add(&R1.node, &registry);
	gp_waiters.stack.head = CDS_WFS_END;
	G_loads = 0; G_new_registered = 0; G_os_futex_ret = 0;
#if defined(RCU_MEMBARRIER)
	urcu_memb_has_sys_membarrier = 0;
#endif
	synchronize_rcu();
	VERIF_ASSERT(on_list(&registry, &R1.node) == 1, "dynamic registration: the scanned reader is back on the registry exactly once");
	VERIF_ASSERT(on_list(&registry, &Rn.node) == (G_new_registered ? 1 : 0), "dynamic registration: a thread that registered during the grace period is still registered afterwards (not dropped when the quiescent readers are put back)");
	VERIF_ASSERT(registry.next->prev == &registry && registry.prev->next == &registry, "dynamic registration: registry list well-formed");
	VERIF_ASSERT(G_os_locks_held == 0, "locks released");
	VERIF_COVER(G_new_registered && G_loads >= 3); VERIF_COVER(!G_new_registered);
}
