/*
 * C12 - RCU lock-free queue (cds_lfq_*_rcu).  Real text: src/rculfqueue.c over
 * include/urcu/static/rculfqueue.h.
 *  SEQ (unbounded): quiescent queue = [leading dummy D0]? ++ S(0..n), n symbolic (pool layout), tail = last.
 *  ENV (bounded shapes): <= 2 real nodes, one concurrent enqueuer of a fresh node B acting between any two
 *       shared accesses of the dequeuer through the only CAS kinds an enqueue performs
 *       (append-at-NULL, tail-advance / help).
 */
#include <verif/verif.h>
#include <verif/os_stubs.h>
#include <urcu/compiler.h>
#include <urcu/arch.h>
#include <urcu/system.h>
#include <urcu/uatomic.h>
#define _LGPL_SOURCE
#include <urcu/pointer.h>
#undef _LGPL_SOURCE
static void env_step(void);
#ifdef ENV_MODE
#define VERIF_ENV() env_step()
#endif
#include <verif/atomics_seq.h>
/* free() is observed (ghost log) before being performed */
unsigned long G_free_calls; void *G_free_last;
static inline void verif_free(void *p) { G_free_calls++; G_free_last = p; free(p); }
#define free(p) verif_free(p)
#include "rculfqueue.c"
#undef free
#include <verif/pool.h>

typedef struct cds_lfq_node_rcu qn_t;
/* pool cells have the (larger) dummy layout so that caa_container_of() on any chain node stays inside one
 * cell type; a real node is the `parent` member of its cell */
typedef struct cds_lfq_node_rcu_dummy cell_t;
POOL_DECL(SC, cell_t);
#define S_n SC_n
#define S(k) (SC[k].parent)
struct cds_lfq_queue_rcu q;
struct cds_lfq_node_rcu_dummy *D0;
unsigned long G_lead;			/* 1: the dummy D0 leads the chain */
unsigned long G_rcu_calls;		/* queue_call_rcu invocations */
struct rcu_head *G_rcu_head; void *G_rcu_func;

qn_t A1, A2, B;
static void rec_call_rcu(struct rcu_head *head, void (*func)(struct rcu_head *head))
{
	G_rcu_calls++; G_rcu_head = head; G_rcu_func = (void *) func;
	/* what call_rcu() does to the rcu_head AT ONCE, long before the grace period ends (src/urcu-call-rcu-impl.h, _call_rcu):
	 * the head is initialised as a queue node and the callback stored.  A retired dummy must survive that: concurrent
	 * dequeuers inside their read-side critical section may still be reading its next / dummy fields. */
	head->next.next = 0; head->func = func;
}
#define SAT(k) ((k) < S_n ? &S(k) : (qn_t *) 0)
#define INST(k) do { if ((k) < S_n) { S(k).next = SAT((k) + 1); S(k).dummy = 0; } } while (0)

static void mk(void)
{
	POOL_ALLOC(SC, cell_t);
	G_lead = nondet_bool();
	VERIF_REQUIRE(G_lead || S_n >= 1);	/* the chain is never empty: it holds at least the dummy */
	D0 = malloc(sizeof(*D0)); VERIF_REQUIRE(D0 != 0);
	D0->parent.dummy = 1; D0->parent.next = SAT(0); D0->q = &q;
	INST(0); INST(1); INST(S_n - 1);
	q.head = G_lead ? &D0->parent : &S(0);
	q.tail = S_n ? &S(S_n - 1) : &D0->parent;
	q.queue_call_rcu = rec_call_rcu;
	G_rcu_calls = 0; G_free_calls = 0;
}

void h_enqueue(void)
{
	qn_t N, *last;
	mk();
	last = q.tail;
	cds_lfq_node_init_rcu(&N);
	cds_lfq_enqueue_rcu(&q, &N);
	VERIF_ASSERT(last->next == &N && q.tail == &N && N.next == 0 && N.dummy == 0, "lfq enqueue: linked after the last node, tail advanced");
	VERIF_ASSERT(q.head == (G_lead ? &D0->parent : &S(0)), "lfq enqueue: head untouched");
	VERIF_ASSERT(G_rcu_calls == 0, "lfq enqueue: nothing reclaimed");
	VERIF_COVER(S_n > 3); VERIF_COVER(S_n == 0);
}

/* dequeue, sequential.  Queue = [D0]? ++ A1 ++ A2 ++ <anything>: dequeue only ever touches the first two nodes
 * (and the tail when exactly one real node is left), so for "two or more" real nodes A2.next and q.tail are
 * UNCONSTRAINED pointers (possibly invalid): any access to them would be flagged - this covers every length. */
void h_dequeue(void)
{
	qn_t *r, *rest; unsigned long nreal, lead;
	nreal = nondet_ulong(); lead = nondet_bool();
	VERIF_REQUIRE(nreal <= 2 && (lead || nreal >= 1));	/* nreal == 2 stands for "2 or more" */
	D0 = malloc(sizeof(*D0)); VERIF_REQUIRE(D0 != 0);
	rest = nondet_ptr();
	A1.dummy = A2.dummy = 0;
	A1.next = nreal >= 2 ? &A2 : 0; A2.next = rest;
	D0->parent.dummy = 1; D0->parent.next = nreal ? &A1 : 0; D0->q = &q;
	q.head = lead ? &D0->parent : &A1;
	q.tail = nreal == 2 ? (qn_t *) nondet_ptr() : (nreal == 1 ? &A1 : &D0->parent);
	q.queue_call_rcu = rec_call_rcu; G_rcu_calls = 0; G_free_calls = 0;

	r = cds_lfq_dequeue_rcu(&q);

	VERIF_ASSERT(r == (nreal ? &A1 : (qn_t *) 0), "lfq dequeue: oldest real node, NULL iff none");
	VERIF_ASSERT(r == 0 || r->dummy == 0, "lfq dequeue: a dummy node is never returned");
	VERIF_ASSERT(G_free_calls == 0, "lfq dequeue: nothing is freed directly (a dummy only after a grace period, through call_rcu)");
	if (nreal == 0) {
		VERIF_ASSERT(q.head == &D0->parent && q.tail == &D0->parent && G_rcu_calls == 0, "lfq dequeue on an empty queue changes nothing");
	} else {
		VERIF_ASSERT(G_rcu_calls == lead, "lfq dequeue: a leading dummy is retired through queue_call_rcu exactly once, never otherwise");
		VERIF_ASSERT(!lead || (G_rcu_head == &D0->head && G_rcu_func == (void *) free_dummy_cb), "lfq dequeue: the dummy is handed to call_rcu with its own rcu_head and free_dummy_cb");
		VERIF_ASSERT(!lead || (D0->parent.next == &A1 && D0->parent.dummy == 1 && D0->q == &q), "lfq dequeue: a retired dummy keeps its next / dummy fields intact after being handed to call_rcu (other dequeuers may still be reading it until the grace period ends; call_rcu writes the rcu_head immediately)");
		if (nreal >= 2) {
			VERIF_ASSERT(q.head == &A2 && A2.next == rest && A1.next == &A2, "lfq dequeue: head advanced to the next real node, rest of the chain untouched");
		} else {
			VERIF_ASSERT(q.head == q.tail && q.head != &A1 && q.head->dummy == 1 && q.head->next == 0, "lfq dequeue of the last node: a fresh dummy keeps the chain non-empty");
			VERIF_ASSERT(A1.next == q.head, "lfq dequeue of the last node: the fresh dummy was linked behind it");
		}
	}
	VERIF_COVER(nreal == 2 && lead); VERIF_COVER(nreal == 1 && !lead); VERIF_COVER(nreal == 0); VERIF_COVER(nreal == 1 && lead); VERIF_COVER(nreal == 2 && !lead);
}

void h_destroy(void)
{
	int r;
	mk();
	r = cds_lfq_destroy_rcu(&q);
	VERIF_ASSERT(r == ((G_lead && S_n == 0) ? 0 : -EPERM), "lfq destroy: succeeds exactly when the queue is empty");
	VERIF_ASSERT(r == 0 ? (G_free_calls == 1 && G_free_last == (void *) D0) : G_free_calls == 0, "lfq destroy: frees exactly the dummy iff it succeeds, nothing otherwise");
	VERIF_ASSERT(G_rcu_calls == 0, "lfq destroy: no call_rcu");
	VERIF_COVER(r == 0); VERIF_COVER(r != 0 && G_lead); VERIF_COVER(r != 0 && !G_lead);
}

/* destroy when the LAST node is a dummy but the queue is not empty: head -> A1 (real) -> D1 (dummy) <- tail.  This state is
 * reachable: a dequeuer that found A1 alone appends a fresh dummy behind it before removing it (and an enqueue may have
 * slipped in between); emptiness is decided at the HEAD. */
void h_destroy_trailing_dummy(void)
{
	struct cds_lfq_node_rcu_dummy *D1; int r; unsigned long two;
	two = nondet_bool();
	D1 = malloc(sizeof(*D1)); VERIF_REQUIRE(D1 != 0);
	A1.dummy = A2.dummy = 0; D1->parent.dummy = 1; D1->parent.next = 0; D1->q = &q;
	A1.next = two ? &A2 : &D1->parent; A2.next = &D1->parent;
	q.head = &A1; q.tail = &D1->parent; q.queue_call_rcu = rec_call_rcu; G_rcu_calls = 0; G_free_calls = 0;
	r = cds_lfq_destroy_rcu(&q);
	VERIF_ASSERT(r == -EPERM && G_free_calls == 0 && G_rcu_calls == 0, "lfq destroy: a queue that still holds real nodes is refused even when its LAST node is a dummy; nothing is freed");
	VERIF_ASSERT(q.head == &A1 && q.tail == &D1->parent && D1->parent.next == 0, "lfq destroy: a refused destroy changes nothing");
	VERIF_COVER(two); VERIF_COVER(!two);
}

void h_init(void)
{
	struct cds_lfq_queue_rcu qq;
	cds_lfq_init_rcu(&qq, rec_call_rcu);
	VERIF_ASSERT(qq.head == qq.tail && qq.head->dummy == 1 && qq.head->next == 0, "lfq init: one dummy, head == tail");
	VERIF_ASSERT(cds_lfq_dequeue_rcu(&qq) == 0, "lfq init: empty");
	VERIF_ASSERT(cds_lfq_destroy_rcu(&qq) == 0, "lfq init: destroy succeeds on the empty queue");
}

/* ---------------- ENV: dequeue racing with one enqueue ------------------------------------------ */
unsigned long G_env_on, G_bstate;	/* 0 not started, 1 appended (tail not yet advanced), 2 done */
qn_t *G_btail;

static void env_sub(void)
{
	unsigned a = nondet_uint();
	if (a == 1 && G_bstate == 0) {
		/* enqueuer: tail = q->tail; CAS(&tail->next, NULL, &B), else help advancing the tail */
		qn_t *t = q.tail;
		if (t->next == 0) { t->next = &B; G_btail = t; G_bstate = 1; }
		else if (q.tail == t) q.tail = t->next;
	} else if (a == 2 && G_bstate == 1) {
		if (q.tail == G_btail) q.tail = &B;	/* CAS(&q->tail, tail, &B) - may fail, that is fine */
		G_bstate = 2;
	}
}
unsigned long G_env_more;
static void env_step(void) { if (G_env_on) { env_sub(); env_sub(); if (G_env_more) { env_sub(); env_sub(); } } }

#ifdef ENV_MODE
void h_dequeue_env(void)
{
	qn_t *r, *p, *seen[6]; unsigned long nreal, lead, i, k = 0, hops;
	nreal = nondet_ulong(); lead = nondet_bool();
	VERIF_REQUIRE(nreal <= 2 && (lead || nreal >= 1));
	D0 = malloc(sizeof(*D0)); VERIF_REQUIRE(D0 != 0);
	A1.dummy = A2.dummy = B.dummy = 0; B.next = 0;
	A1.next = nreal >= 2 ? &A2 : 0; A2.next = 0;
	D0->parent.dummy = 1; D0->parent.next = nreal ? &A1 : 0; D0->q = &q;
	q.head = lead ? &D0->parent : &A1;
	q.tail = nreal == 2 ? &A2 : (nreal == 1 ? &A1 : &D0->parent);
	q.queue_call_rcu = rec_call_rcu; G_rcu_calls = 0; G_free_calls = 0; G_bstate = 0; G_env_on = 1; G_env_more = 1;

	r = cds_lfq_dequeue_rcu(&q);

	env_step(); G_env_on = 0;
	if (G_bstate == 1) { if (q.tail == G_btail) q.tail = &B; G_bstate = 2; }
	VERIF_ASSERT(r == 0 || r->dummy == 0, "ENV lfq dequeue: never returns a dummy");
	if (nreal == 0)
		VERIF_ASSERT(r == 0 || r == &B, "ENV lfq dequeue: NULL (it was empty at some instant) or the concurrently enqueued node");
	else
		VERIF_ASSERT(r == &A1, "ENV lfq dequeue: the oldest node");
	/* walk the chain: every real node except the returned one is still queued, in order, exactly once */
	for (p = q.head, hops = 0; p && hops < 6; p = p->next, hops++)
		if (!p->dummy) { if (k < 6) seen[k] = p; k++; }
	VERIF_ASSERT(hops < 6, "ENV lfq: chain is finite");
	i = 0;
	if (nreal == 2) { VERIF_ASSERT(k > i && seen[i] == &A2, "ENV lfq dequeue: the second node is still queued first"); i++; }
	if (G_bstate == 2 && r != &B) { VERIF_ASSERT(k > i && seen[i] == &B, "ENV lfq dequeue: the concurrently enqueued node is not lost and keeps its place"); i++; }
	VERIF_ASSERT(k == i, "ENV lfq dequeue: no other node in the queue (nothing duplicated)");
	VERIF_ASSERT(G_rcu_calls <= 2 && G_free_calls == 0, "ENV lfq dequeue: dummies retired through call_rcu only, nothing freed directly");
	VERIF_COVER(nreal == 1 && G_bstate == 2 && r == &A1);
	VERIF_COVER(nreal == 0 && r == &B);
	VERIF_COVER(nreal == 2 && G_bstate == 2);
}

/* enqueue of N racing with one concurrent enqueue of B (its two CAS steps and its helping at arbitrary points).
 * In particular: after N was linked, the other enqueuer may help the tail onto N, append B behind N and move the tail
 * to B BEFORE the enqueuer of N gets to its own tail update - which therefore has to be a compare-and-swap against the
 * tail it loaded (a plain store would drag the tail back onto a node that is no longer last). */
void h_enqueue_env(void)
{
	qn_t N, *p, *last = 0; unsigned long nreal, lead, hops, seenN = 0, seenB = 0, seenA = 0;
	nreal = nondet_ulong(); lead = nondet_bool();
	VERIF_REQUIRE(nreal <= 1 && (lead || nreal >= 1));
	D0 = malloc(sizeof(*D0)); VERIF_REQUIRE(D0 != 0);
	A1.dummy = B.dummy = 0; B.next = 0; A1.next = 0;
	D0->parent.dummy = 1; D0->parent.next = nreal ? &A1 : 0; D0->q = &q;
	q.head = lead ? &D0->parent : &A1;
	q.tail = nreal ? &A1 : &D0->parent;
	q.queue_call_rcu = rec_call_rcu; G_rcu_calls = 0; G_free_calls = 0; G_bstate = 0; G_env_on = 1; G_env_more = 1;	/* up to 4 environment steps between two accesses */
	cds_lfq_node_init_rcu(&N);

	cds_lfq_enqueue_rcu(&q, &N);

	env_step(); G_env_on = 0;
	if (G_bstate == 1) { if (q.tail == G_btail) q.tail = &B; G_bstate = 2; }
	for (p = q.head, hops = 0; p && hops < 6; p = p->next, hops++) {
		if (p == &N) seenN++;
		if (p == &B) seenB++;
		if (p == &A1) seenA++;
		last = p;
	}
	VERIF_ASSERT(hops < 6, "ENV lfq enqueue: chain is finite (no cycle)");
	VERIF_ASSERT(seenN == 1 && seenA == nreal && seenB == (G_bstate == 2 ? 1UL : 0UL), "ENV lfq enqueue: the new node, the old node and the concurrently enqueued node are each queued exactly once");
	VERIF_ASSERT(q.tail == last || (last != 0 && q.tail->next == last), "ENV lfq enqueue: the tail designates the last node or its predecessor - it is never dragged back behind a node appended meanwhile");
	VERIF_ASSERT(G_bstate != 2 || q.tail == last, "ENV lfq enqueue: once both enqueues completed their tail updates the tail is the last node");
	VERIF_COVER(G_bstate == 2 && N.next == &B); VERIF_COVER(G_bstate == 2 && B.next == &N); VERIF_COVER(G_bstate == 0);
}
#endif
