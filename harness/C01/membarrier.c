/*
 * C01.O6 - the updater-side barrier smp_mb_master() of the memb flavor and the start-up decision it depends on
 * (src/urcu.c: rcu_sys_membarrier_init / rcu_sys_membarrier_status / rcu_init).  The reader side
 * (urcu_memb_smp_mb_slave, C01.O2) degrades its full barriers to compiler barriers exactly when
 * urcu_memb_has_sys_membarrier is set; that is sound only if, whenever the flag is set, EVERY smp_mb_master() really
 * executes a membarrier system call of a kind the kernel granted:
 *   init   : flag set iff the kernel answered the QUERY with PRIVATE_EXPEDITED (then registration is performed first, and a
 *            failed registration is fatal) or with SHARED; never set when the system call is unavailable;
 *   master : flag set => exactly one membarrier(PRIVATE_EXPEDITED) - or SHARED when private-expedited was not granted -, a
 *            failing call is fatal (the grace period must not proceed without the barrier); flag clear => a full fence.
 */
#include <verif/verif.h>
#define OS_MEMBARRIER_HOOK
#include <verif/os_stubs.h>
#define RCU_MEMBARRIER
#include <verif/flavor_pre.h>
static void evt(int kind, void *addr, int mo, unsigned long val);
#define VERIF_EVT(kind, addr, mo, val) evt((kind), (void *)(addr), (int)(mo), (unsigned long)(val))
#include <verif/atomics_seq.h>
#include "urcu.c"

unsigned long E_mb, G_query_calls, G_register_calls, G_barrier_calls, G_other_calls, G_last_cmd, G_flag_at_register, G_nr_bad;
long G_query_ret, G_register_ret, G_barrier_ret;
static void evt(int kind, void *addr, int mo, unsigned long val) { (void) addr; (void) mo; (void) val; if (kind == EV_MB) E_mb++; }
static long os_membarrier_hook(long nr, int cmd, int flags)
{
	(void) flags;
	if (nr != __NR_membarrier) G_nr_bad = 1;
	G_last_cmd = (unsigned long) cmd;
	if (cmd == MEMBARRIER_CMD_QUERY) { G_query_calls++; if (G_query_ret < 0) errno = ENOSYS; return G_query_ret; }
	if (cmd == MEMBARRIER_CMD_REGISTER_PRIVATE_EXPEDITED) { G_register_calls++; G_flag_at_register = (unsigned long) urcu_memb_has_sys_membarrier; if (G_register_ret) { errno = EPERM; G_os_die_expected = 1; } return G_register_ret; }
	if (cmd == MEMBARRIER_CMD_PRIVATE_EXPEDITED || cmd == MEMBARRIER_CMD_SHARED) { G_barrier_calls++; if (G_barrier_ret) { errno = EINVAL; G_os_die_expected = 1; } return G_barrier_ret; }
	G_other_calls++;
	return -1;
}
unsigned long in_query, in_regfail, in_has, in_priv, in_fail;
void h_membarrier_init(void)
{
	int priv, shared;
	VIN(unsigned long, in_query); VIN(unsigned long, in_regfail);
	G_query_ret = (in_query & 0x100) ? -1 : (long) (in_query & 0x1f);		/* unavailable, or any mask over the 5 command bits */
	G_register_ret = (in_regfail & 1) ? -1 : 0;
	urcu_memb_has_sys_membarrier = 0; urcu_memb_has_sys_membarrier_private_expedited = 0; init_done = 0;
	priv = G_query_ret >= 0 && (G_query_ret & MEMBARRIER_CMD_PRIVATE_EXPEDITED); shared = G_query_ret >= 0 && (G_query_ret & MEMBARRIER_CMD_SHARED);
	rcu_init();
	rcu_init();									/* idempotent */
	VERIF_ASSERT(!(priv && G_register_ret), "membarrier init: a failed PRIVATE_EXPEDITED registration is fatal (unreachable here)");
	VERIF_ASSERT(G_query_calls == 1 && G_other_calls == 0 && !G_nr_bad, "membarrier init: one QUERY, performed once however often rcu_init runs");
	VERIF_ASSERT(urcu_memb_has_sys_membarrier == ((priv || shared) ? 1 : 0), "membarrier init: the flag that lets READERS drop their full barriers is set iff the kernel offers PRIVATE_EXPEDITED or SHARED - never when the system call is unavailable");
	VERIF_ASSERT(urcu_memb_has_sys_membarrier_private_expedited == (priv ? 1 : 0) && G_register_calls == (priv ? 1UL : 0UL) && (!priv || G_flag_at_register == 0), "membarrier init: PRIVATE_EXPEDITED is used only after a successful registration, performed BEFORE the flag is set");
	VERIF_COVER(priv); VERIF_COVER(!priv && shared); VERIF_COVER(G_query_ret < 0); VERIF_COVER(G_query_ret == 0);
}
void h_mb_master(void)
{
	VIN(unsigned long, in_has); VIN(unsigned long, in_priv); VIN(unsigned long, in_fail);
	urcu_memb_has_sys_membarrier = in_has & 1; urcu_memb_has_sys_membarrier_private_expedited = (in_has & 1) ? (in_priv & 1) : 0;
	G_barrier_ret = (in_fail & 1) ? -1 : 0; E_mb = 0;
	smp_mb_master();
	if (in_has & 1) {
		VERIF_ASSERT(!(in_fail & 1), "smp_mb_master: a failing membarrier() is fatal - the grace period never proceeds without the barrier (unreachable here)");
		VERIF_ASSERT(G_barrier_calls == 1 && G_last_cmd == (unsigned long) ((in_priv & 1) ? MEMBARRIER_CMD_PRIVATE_EXPEDITED : MEMBARRIER_CMD_SHARED) && !G_nr_bad, "smp_mb_master: readers rely on membarrier => exactly one membarrier system call, PRIVATE_EXPEDITED iff it was registered, else SHARED");
	} else
		VERIF_ASSERT(G_barrier_calls == 0 && E_mb == 1, "smp_mb_master: without sys_membarrier a full fence (readers then execute full fences too)");
	VERIF_COVER((in_has & 1) && (in_priv & 1)); VERIF_COVER((in_has & 1) && !(in_priv & 1)); VERIF_COVER(!(in_has & 1));
}
