/*
 * C01.O5 - protocol skeleton of synchronize_rcu() for the bp flavor (src/urcu-bp.c) and the 64-bit qsbr
 * flavor (src/urcu-qsbr.c).  Same method as harness/C01/sync.c.
 *
 * bp  : block all signals -> lock gp -> lock registry -> [empty: out] -> mb_master -> scan(registry->cur,qs)
 *       -> ONE store toggling exactly PHASE -> scan(cur->qs) -> splice -> mb_master -> unlock registry
 *       -> unlock gp -> restore the signal mask.
 * qsbr: caller offline (or full barrier) -> wait_add -> [merged: busy_wait -> online] -> lock gp -> move_waiters
 *       -> lock registry -> [empty: out] -> ONE store gp.ctr += GP_CTR -> scan(registry->qs) -> splice
 *       -> unlock registry -> unlock gp -> wake_all -> caller online again iff it was (else full barrier).
 */
#include <verif/verif.h>
#define OS_LOCK_HOOKS
#define OS_SIGMASK_HOOK
#include <verif/os_stubs.h>
#include <verif/flavor_pre.h>
static void evt(int kind, void *addr, int mo, unsigned long val);
#define VERIF_EVT(kind, addr, mo, val) evt((kind), (void *)(addr), (int)(mo), (unsigned long)(val))
#include <verif/atomics_seq.h>
#ifdef FLAVOR_BP
#include "urcu-bp.c"
#else
#include "urcu-qsbr.c"
#endif

unsigned long ST, G_bad, G_flips, G_flip_ok, G_first, G_scan1_cur, G_gp0, G_mb;
struct cds_list_head *G_cur, *G_qs;
#define STEP(from, to, code) do { if (ST != (from) && !G_bad) G_bad = (code); ST = (to); } while (0)
#define EMPTY(l) ((l)->next == (l) && (l)->prev == (l))
#define ONLY(l, n) ((l)->next == (n) && (l)->prev == (n) && (n)->next == (l) && (n)->prev == (l))
#define BADIF(cond, code) (G_bad == ((cond) ? __CPROVER_old(G_bad) : (__CPROVER_old(G_bad) ? __CPROVER_old(G_bad) : (code))))

#ifdef FLAVOR_BP
struct urcu_bp_reader R1;
# define FLIP_FROM 6
# define SCAN2_FROM 7
static void evt(int kind, void *addr, int mo, unsigned long val)
{
	(void) mo;
	if (kind == EV_STORE && addr == (void *) &rcu_gp.ctr) {
		G_flips++; G_flip_ok = ((val ^ G_gp0) == URCU_BP_GP_CTR_PHASE);
		STEP(6, 7, 107);
	}
}
static void os_sigmask_hook(int how, const sigset_t *set)
{
	if (how == SIG_BLOCK) { if (*(const unsigned long *) set != ~0UL && !G_bad) G_bad = 100; STEP(0, 1, 101); }
	else STEP(12, 13, 113);
}
static void os_lock_hook(pthread_mutex_t *m)
{
	if (m == &rcu_gp_lock) { if (G_os_sig_blocked != ~0UL && !G_bad) G_bad = 120; STEP(1, 2, 102); }
	else if (m == &rcu_registry_lock) STEP(2, 4, 104);
}
static void os_unlock_hook(pthread_mutex_t *m)
{
	if (m == &rcu_registry_lock) { if (ST != 10 && ST != 4 && !G_bad) G_bad = 111; ST = 11; }
	else if (m == &rcu_gp_lock) STEP(11, 12, 112);
}
static void smp_mb_master(void)
__CPROVER_assigns(ST, G_bad)
__CPROVER_ensures(ST == (__CPROVER_old(ST) == 4 ? 5 : 10))
__CPROVER_ensures(BADIF(__CPROVER_old(ST) == 4 || __CPROVER_old(ST) == 9, 105))
;
#else	/* qsbr */
struct urcu_qsbr_reader R1;
unsigned long G_was_online;
static void evt(int kind, void *addr, int mo, unsigned long val)
{
	if (kind == EV_MB) G_mb++;
	if (kind == EV_STORE && addr == (void *) &urcu_qsbr_gp.ctr) {
		G_flips++; G_flip_ok = (val == G_gp0 + URCU_QSBR_GP_CTR);
		STEP(4, 7, 107);
	}
	(void) mo;
}
static void os_sigmask_hook(int how, const sigset_t *set) { (void) how; (void) set; }
static void os_lock_hook(pthread_mutex_t *m)
{
	if (m == &rcu_gp_lock) STEP(1, 2, 102);
	else if (m == &rcu_registry_lock) STEP(3, 4, 104);
}
static void os_unlock_hook(pthread_mutex_t *m)
{
	if (m == &rcu_registry_lock) { if (ST != 9 && ST != 4 && !G_bad) G_bad = 111; ST = 11; }
	else if (m == &rcu_gp_lock) STEP(11, 12, 112);
}
/* going offline / online of the caller itself: contracts (bodies proved in C01.O3) */
void urcu_qsbr_thread_offline(void)
__CPROVER_requires(G_was_online)
__CPROVER_assigns(ST, G_bad, URCU_TLS(urcu_qsbr_reader).ctr)
__CPROVER_ensures(ST == 50 && URCU_TLS(urcu_qsbr_reader).ctr == 0 && BADIF(__CPROVER_old(ST) == 0, 150))
;
void urcu_qsbr_thread_online(void)
__CPROVER_requires(G_was_online)
__CPROVER_assigns(ST, G_bad, URCU_TLS(urcu_qsbr_reader).ctr)
__CPROVER_ensures(ST == 99 && URCU_TLS(urcu_qsbr_reader).ctr == urcu_qsbr_gp.ctr && BADIF(__CPROVER_old(ST) == 13 || __CPROVER_old(ST) == 90, 199))
;
static inline bool urcu_wait_add(struct urcu_wait_queue *queue, struct urcu_wait_node *node)
__CPROVER_requires(queue == &gp_waiters && node->state == URCU_WAIT_WAITING)
__CPROVER_requires(URCU_TLS(urcu_qsbr_reader).ctr == 0)		/* the caller never waits for itself */
__CPROVER_assigns(ST, G_bad)
__CPROVER_ensures(ST == 1 && __CPROVER_return_value == (G_first ? 0 : 1))
__CPROVER_ensures(BADIF(__CPROVER_old(ST) == (G_was_online ? 50 : 0) && (G_was_online || G_mb >= 1), 101))
;
static inline void urcu_adaptative_busy_wait(struct urcu_wait_node *wait)
__CPROVER_requires(!G_first)
__CPROVER_assigns(ST, G_bad, wait->state)
__CPROVER_ensures(ST == 90 && (wait->state & URCU_WAIT_TEARDOWN) && BADIF(__CPROVER_old(ST) == 1, 190))
;
static inline void urcu_move_waiters(struct urcu_waiters *waiters, struct urcu_wait_queue *queue)
__CPROVER_requires(queue == &gp_waiters)
__CPROVER_assigns(ST, G_bad, waiters->head)
__CPROVER_ensures(ST == 3 && BADIF(__CPROVER_old(ST) == 2, 103))
;
static inline void urcu_wake_all_waiters(struct urcu_waiters *waiters)
__CPROVER_assigns(ST, G_bad)
__CPROVER_ensures(ST == 13 && BADIF(__CPROVER_old(ST) == 12, 113))
;
#endif

static void wait_for_readers(struct cds_list_head *input_readers, struct cds_list_head *cur_snap_readers,
			     struct cds_list_head *qsreaders, cmm_annotate_t *group)
__CPROVER_requires(OS_HELD(&rcu_registry_lock) == 1 && OS_HELD(&rcu_gp_lock) == 1)
#ifdef FLAVOR_BP
__CPROVER_requires(ST == 5 ? (input_readers == &registry && cur_snap_readers != 0 && ONLY(&registry, &R1.node) && EMPTY(cur_snap_readers) && EMPTY(qsreaders))
			  : (cur_snap_readers == 0 && input_readers == G_cur && qsreaders == G_qs))
__CPROVER_assigns(ST, G_bad, G_cur, G_qs, G_scan1_cur, registry, R1.node, *input_readers, *qsreaders, *cur_snap_readers)
__CPROVER_ensures(EMPTY(input_readers) && EMPTY(&registry))
__CPROVER_ensures(__CPROVER_old(ST) == 5 ? (ST == 6 && G_cur == cur_snap_readers && G_qs == qsreaders
		&& (G_scan1_cur ? (ONLY(cur_snap_readers, &R1.node) && EMPTY(qsreaders)) : (ONLY(qsreaders, &R1.node) && EMPTY(cur_snap_readers))))
	: (ST == 9 && ONLY(qsreaders, &R1.node)))
__CPROVER_ensures(BADIF(__CPROVER_old(ST) == 5 || __CPROVER_old(ST) == 7, 108))
#else
__CPROVER_requires(input_readers == &registry && cur_snap_readers == 0 && ONLY(&registry, &R1.node) && EMPTY(qsreaders))
__CPROVER_assigns(ST, G_bad, registry, R1.node, *qsreaders)
__CPROVER_ensures(EMPTY(&registry) && ONLY(qsreaders, &R1.node) && ST == 9)
__CPROVER_ensures(BADIF(__CPROVER_old(ST) == 7, 108))		/* the single scan follows the counter increment */
#endif
;

unsigned long in_first, in_empty, in_gp, in_online;

void h_sync(void)
{
	VIN(unsigned long, in_first); VIN(unsigned long, in_empty); VIN(unsigned long, in_gp); VIN(unsigned long, in_online);
	G_first = in_first & 1;
	rcu_gp.ctr = in_gp; G_gp0 = in_gp;
	CDS_INIT_LIST_HEAD(&registry);
	if (!(in_empty & 1)) cds_list_add(&R1.node, &registry);
	ST = 0; G_bad = 0; G_flips = 0; G_flip_ok = 0; G_mb = 0; G_os_sig_blocked = 0x10;
#ifndef FLAVOR_BP
	VERIF_REQUIRE(in_gp & URCU_QSBR_GP_ONLINE);
	G_was_online = in_online & 1;
	URCU_TLS(urcu_qsbr_reader).ctr = G_was_online ? in_gp : 0;
	URCU_TLS(urcu_qsbr_reader).registered = 1;
#else
	G_first = 1;
#endif

	synchronize_rcu();

	VERIF_ASSERT(G_bad == 0, "synchronize_rcu: events occur in the protocol order (see the trace for the code of the first offending transition)");
	VERIF_ASSERT(G_os_locks_held == 0, "both locks released");
#ifdef FLAVOR_BP
	VERIF_ASSERT(ST == 13 && G_os_sig_blocked == 0x10, "bp: all signals blocked for the whole grace period, previous mask restored at the end");
#else
	VERIF_ASSERT(G_was_online ? ST == 99 : (ST == (G_first ? 13 : 90) && G_mb >= 2), "qsbr: caller back online iff it was online; otherwise a full barrier on each side");
	VERIF_ASSERT(URCU_TLS(urcu_qsbr_reader).ctr == (G_was_online ? urcu_qsbr_gp.ctr : 0), "qsbr: caller's reader word = current counter iff it was online");
#endif
	if (!G_first) {
		VERIF_ASSERT(G_flips == 0, "merged caller: does not touch the counter");
	} else if (in_empty & 1) {
		VERIF_ASSERT(G_flips == 0 && rcu_gp.ctr == in_gp, "empty registry: counter untouched");
	} else {
		VERIF_ASSERT(G_flips == 1 && G_flip_ok, "exactly one store to gp.ctr (bp: toggles exactly PHASE; qsbr: += GP_CTR)");
		VERIF_ASSERT(ONLY(&registry, &R1.node), "the registry holds the same readers afterwards");
	}
	VERIF_COVER(G_first && !(in_empty & 1)); VERIF_COVER(G_first && (in_empty & 1));
#ifndef FLAVOR_BP
	VERIF_COVER(!G_first && G_was_online); VERIF_COVER(G_first && !G_was_online && !(in_empty & 1));
#endif
}
