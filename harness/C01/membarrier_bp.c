/*
 * C01.O6 (bp flavor) - smp_mb_master() and urcu_bp_sys_membarrier_init() of src/urcu-bp.c: same obligation as C01/membarrier.c.
 * bp only ever uses PRIVATE_EXPEDITED: the flag is set iff the QUERY offers it and the registration succeeded.
 */
#include <verif/verif.h>
#define OS_MEMBARRIER_HOOK
#include <verif/os_stubs.h>
#include <verif/flavor_pre.h>
#include <sys/mman.h>
static void evt(int kind, void *addr, int mo, unsigned long val);
#define VERIF_EVT(kind, addr, mo, val) evt((kind), (void *)(addr), (int)(mo), (unsigned long)(val))
#include <verif/atomics_seq.h>
#include "urcu-bp.c"

unsigned long E_mb, G_query_calls, G_register_calls, G_barrier_calls, G_other_calls, G_last_cmd, G_flag_at_register, G_nr_bad;
long G_query_ret, G_register_ret, G_barrier_ret;
static void evt(int kind, void *addr, int mo, unsigned long val) { (void) addr; (void) mo; (void) val; if (kind == EV_MB) E_mb++; }
static long os_membarrier_hook(long nr, int cmd, int flags)
{
	(void) flags;
	if (nr != __NR_membarrier) G_nr_bad = 1;
	G_last_cmd = (unsigned long) cmd;
	if (cmd == MEMBARRIER_CMD_QUERY) { G_query_calls++; if (G_query_ret < 0) errno = ENOSYS; return G_query_ret; }
	if (cmd == MEMBARRIER_CMD_REGISTER_PRIVATE_EXPEDITED) { G_register_calls++; G_flag_at_register = (unsigned long) urcu_bp_has_sys_membarrier; if (G_register_ret) { errno = EPERM; G_os_die_expected = 1; } return G_register_ret; }
	if (cmd == MEMBARRIER_CMD_PRIVATE_EXPEDITED) { G_barrier_calls++; if (G_barrier_ret) { errno = EINVAL; G_os_die_expected = 1; } return G_barrier_ret; }
	G_other_calls++;
	return -1;
}
unsigned long in_query, in_regfail, in_has, in_fail;
void h_membarrier_init(void)
{
	int priv;
	VIN(unsigned long, in_query); VIN(unsigned long, in_regfail);
	G_query_ret = (in_query & 0x100) ? -1 : (long) (in_query & 0x1f);
	G_register_ret = (in_regfail & 1) ? -1 : 0;
	urcu_bp_has_sys_membarrier = 0;
	priv = G_query_ret >= 0 && (G_query_ret & MEMBARRIER_CMD_PRIVATE_EXPEDITED);
	urcu_bp_sys_membarrier_init();
	VERIF_ASSERT(!(priv && G_register_ret), "bp membarrier init: a failed registration is fatal (unreachable here)");
	VERIF_ASSERT(G_query_calls == 1 && G_other_calls == 0 && !G_nr_bad, "bp membarrier init: one QUERY");
	VERIF_ASSERT(urcu_bp_has_sys_membarrier == (priv ? 1 : 0) && G_register_calls == (priv ? 1UL : 0UL) && (!priv || G_flag_at_register == 0), "bp membarrier init: the flag that lets readers drop their full barriers is set iff PRIVATE_EXPEDITED is offered AND was registered first; never when the system call is unavailable or only offers other commands");
	VERIF_COVER(priv); VERIF_COVER(G_query_ret >= 0 && !priv && G_query_ret != 0); VERIF_COVER(G_query_ret < 0);
}
void h_mb_master(void)
{
	VIN(unsigned long, in_has); VIN(unsigned long, in_fail);
	urcu_bp_has_sys_membarrier = in_has & 1; G_barrier_ret = (in_fail & 1) ? -1 : 0; E_mb = 0;
	smp_mb_master();
	if (in_has & 1) {
		VERIF_ASSERT(!(in_fail & 1), "bp smp_mb_master: a failing membarrier() is fatal (unreachable here)");
		VERIF_ASSERT(G_barrier_calls == 1 && G_last_cmd == (unsigned long) MEMBARRIER_CMD_PRIVATE_EXPEDITED && !G_nr_bad, "bp smp_mb_master: readers rely on membarrier => exactly one membarrier(PRIVATE_EXPEDITED)");
	} else
		VERIF_ASSERT(G_barrier_calls == 0 && E_mb == 1, "bp smp_mb_master: otherwise a full fence");
	VERIF_COVER(in_has & 1); VERIF_COVER(!(in_has & 1));
}
