/*
 * C01.O5/O6 - protocol skeleton of synchronize_rcu() in src/urcu.c (memb and mb flavors).
 * The real synchronize_rcu() body runs; its callees are used through (ghost-event) contracts:
 *   urcu_wait_add, urcu_adaptative_busy_wait, urcu_move_waiters, urcu_wake_all_waiters  (urcu-wait.h)
 *   wait_for_readers (contract = what C01.O4 establishes for the scan), smp_mb_master
 * and pthread mutexes through the ghost-state stubs.  A ghost automaton ST checks the ORDER of the events:
 *
 *   wait_add -> [not first: busy_wait -> return]
 *   -> lock gp -> move_waiters -> lock registry -> [registry empty: unlock registry -> unlock gp -> wake_all]
 *   -> mb_master -> scan(registry -> cur_snap, qs) -> compiler barrier -> ONE store to gp.ctr toggling exactly
 *   the PHASE bit -> compiler barrier -> scan(cur_snap -> qs) -> splice(qs -> registry) -> mb_master
 *   -> unlock registry -> unlock gp -> wake_all
 *
 * The two cmm_smp_mb() around the flip are documented as "not formally required" and are NOT demanded.
 */
#include <verif/verif.h>
#define OS_LOCK_HOOKS
#include <verif/os_stubs.h>
#if defined(FLAVOR_MB)
# define RCU_MB
#else
# define RCU_MEMBARRIER
#endif
#include <verif/flavor_pre.h>
static void evt(int kind, void *addr, int mo, unsigned long val);
#define VERIF_EVT(kind, addr, mo, val) evt((kind), (void *)(addr), (int)(mo), (unsigned long)(val))
#include <verif/atomics_seq.h>
#include "urcu.c"

unsigned long ST;			/* automaton state */
unsigned long G_bad;			/* first violated transition (0 = none) */
unsigned long G_cb;			/* a compiler (or stronger) barrier was executed since the last event */
unsigned long G_flips, G_flip_ok;
unsigned long G_first;			/* harness choice: this caller is the first waiter (leader) */
unsigned long G_scan1_cur;		/* scan #1 put the reader into cur_snap (else qsreaders) */
struct urcu_reader R1;
struct cds_list_head *G_cur, *G_qs;
unsigned long G_gp0;

#define STEP(from, to, code) do { if (ST != (from) && !G_bad) G_bad = (code); ST = (to); G_cb = 0; } while (0)

static void evt(int kind, void *addr, int mo, unsigned long val)
{
	(void) mo;
	if (kind == EV_BARRIER || kind == EV_MB) G_cb = 1;
	if (kind == EV_STORE && addr == (void *) &rcu_gp.ctr) {
		G_flips++;
		/* toggles exactly the phase bit; it goes through a primitive, which is what orders it for the compiler
		 * relative to the reader-word loads of the scans (the cmm_barrier() next to it is therefore not demanded) */
		G_flip_ok = ((val ^ G_gp0) == URCU_GP_CTR_PHASE);
		STEP(6, 7, 107);
	}
}
static void os_lock_hook(pthread_mutex_t *m)
{
	if (m == &rcu_gp_lock) STEP(1, 2, 102);
	else if (m == &rcu_registry_lock) STEP(3, 4, 104);
}
static void os_unlock_hook(pthread_mutex_t *m)
{
	if (m == &rcu_registry_lock) { if (ST != 10 && ST != 4 && !G_bad) G_bad = 111; ST = 11; }
	else if (m == &rcu_gp_lock) STEP(11, 12, 112);
}

/* ---- contracts of the callees ------------------------------------------------------------------ */
static inline bool urcu_wait_add(struct urcu_wait_queue *queue, struct urcu_wait_node *node)
__CPROVER_requires(queue == &gp_waiters && node->state == URCU_WAIT_WAITING)
__CPROVER_assigns(ST, G_bad, G_cb)
__CPROVER_ensures(ST == 1 && __CPROVER_return_value == (G_first ? 0 : 1))	/* non-zero iff the queue was non-empty (wfstack push, C11) */
__CPROVER_ensures(G_bad == (__CPROVER_old(ST) == 0 ? __CPROVER_old(G_bad) : (__CPROVER_old(G_bad) ? __CPROVER_old(G_bad) : 101)))
;
static inline void urcu_adaptative_busy_wait(struct urcu_wait_node *wait)
__CPROVER_requires(!G_first)			/* only a merged (non-leader) caller waits */
__CPROVER_assigns(ST, G_bad, wait->state)
__CPROVER_ensures(ST == 90 && (wait->state & URCU_WAIT_TEARDOWN))
__CPROVER_ensures(G_bad == (__CPROVER_old(ST) == 1 ? __CPROVER_old(G_bad) : (__CPROVER_old(G_bad) ? __CPROVER_old(G_bad) : 190)))
;
static inline void urcu_move_waiters(struct urcu_waiters *waiters, struct urcu_wait_queue *queue)
__CPROVER_requires(queue == &gp_waiters)
__CPROVER_assigns(ST, G_bad, G_cb, waiters->head)
__CPROVER_ensures(ST == 3)
/* the leader takes over the waiters right after it holds rcu_gp_lock and BEFORE any reader is examined */
__CPROVER_ensures(G_bad == (__CPROVER_old(ST) == 2 ? __CPROVER_old(G_bad) : (__CPROVER_old(G_bad) ? __CPROVER_old(G_bad) : 103)))
;
static inline void urcu_wake_all_waiters(struct urcu_waiters *waiters)
__CPROVER_assigns(ST, G_bad)
__CPROVER_ensures(ST == 13)
/* waiters are woken only after both locks are released, i.e. after the closing barrier of the grace period */
__CPROVER_ensures(G_bad == (__CPROVER_old(ST) == 12 ? __CPROVER_old(G_bad) : (__CPROVER_old(G_bad) ? __CPROVER_old(G_bad) : 113)))
;
static void smp_mb_master(void)
__CPROVER_assigns(ST, G_bad, G_cb)
__CPROVER_ensures(ST == (__CPROVER_old(ST) == 4 ? 5 : 10))
__CPROVER_ensures(G_bad == ((__CPROVER_old(ST) == 4 || __CPROVER_old(ST) == 9) ? __CPROVER_old(G_bad) : (__CPROVER_old(G_bad) ? __CPROVER_old(G_bad) : 105)))
;
#define EMPTY(l) ((l)->next == (l) && (l)->prev == (l))
#define ONLY(l, n) ((l)->next == (n) && (l)->prev == (n) && (n)->next == (l) && (n)->prev == (l))
/* contract of the scan as established by C01.O4 (one registered reader R1): the input list is emptied; the
 * reader went to cur_snap_readers (only if supplied, observation CURRENT) or to qsreaders */
static void wait_for_readers(struct cds_list_head *input_readers, struct cds_list_head *cur_snap_readers,
			     struct cds_list_head *qsreaders, cmm_annotate_t *group)
__CPROVER_requires(OS_HELD(&rcu_registry_lock) == 1 && OS_HELD(&rcu_gp_lock) == 1)
__CPROVER_requires(ST == 5 ? (input_readers == &registry && cur_snap_readers != 0 && ONLY(&registry, &R1.node) && EMPTY(cur_snap_readers) && EMPTY(qsreaders))
			  : (cur_snap_readers == 0 && input_readers == G_cur && qsreaders == G_qs))
__CPROVER_assigns(ST, G_bad, G_cb, G_cur, G_qs, G_scan1_cur, registry, R1.node, *input_readers, *qsreaders, *cur_snap_readers)
__CPROVER_ensures(EMPTY(input_readers) && EMPTY(&registry))
__CPROVER_ensures(__CPROVER_old(ST) == 5 ? (ST == 6 && G_cur == cur_snap_readers && G_qs == qsreaders
		&& (G_scan1_cur ? (ONLY(cur_snap_readers, &R1.node) && EMPTY(qsreaders)) : (ONLY(qsreaders, &R1.node) && EMPTY(cur_snap_readers))))
	: (ST == 9 && ONLY(qsreaders, &R1.node)))
__CPROVER_ensures(G_bad == ((__CPROVER_old(ST) == 5 || __CPROVER_old(ST) == 7) ? __CPROVER_old(G_bad) : (__CPROVER_old(G_bad) ? __CPROVER_old(G_bad) : 108)))
;

unsigned long in_first, in_empty, in_gp;

void h_sync(void)
{
	VIN(unsigned long, in_first); VIN(unsigned long, in_empty); VIN(unsigned long, in_gp);
	G_first = in_first & 1;
	rcu_gp.ctr = in_gp; G_gp0 = in_gp;
	CDS_INIT_LIST_HEAD(&registry);
	if (!(in_empty & 1)) cds_list_add(&R1.node, &registry);
	ST = 0; G_bad = 0; G_flips = 0; G_flip_ok = 0; G_cb = 0;

	synchronize_rcu();

	VERIF_ASSERT(G_bad == 0, "synchronize_rcu: events occur in the protocol order (code of the first offending transition in the trace: 101 wait_add, 102 lock gp, 103 move_waiters right after lock gp, 104 lock registry, 105 mb_master, 107 flip after scan #1, 108 scan, 111/112 unlock order, 113 wake_all after the unlocks, 190 busy_wait)");
	if (!G_first) {
		VERIF_ASSERT(ST == 90 && G_flips == 0 && G_os_locks_held == 0, "merged caller: waits for the leader's grace period and does nothing else");
	} else {
		VERIF_ASSERT(ST == 13, "leader: runs to the end and wakes the waiters last");
		VERIF_ASSERT(G_os_locks_held == 0, "leader: both locks released");
		if (in_empty & 1) {
			VERIF_ASSERT(G_flips == 0 && rcu_gp.ctr == in_gp, "empty registry: no phase flip");
		} else {
			VERIF_ASSERT(G_flips == 1 && G_flip_ok, "exactly one store to gp.ctr, toggling exactly the PHASE bit, through a primitive store, after scan #1");
			VERIF_ASSERT(rcu_gp.ctr == (in_gp ^ URCU_GP_CTR_PHASE), "gp.ctr: phase toggled, nest part untouched");
			VERIF_ASSERT(ONLY(&registry, &R1.node), "the registry holds the same readers afterwards");
		}
	}
	VERIF_COVER(G_first && !(in_empty & 1) && G_scan1_cur); VERIF_COVER(G_first && !(in_empty & 1) && !G_scan1_cur);
	VERIF_COVER(G_first && (in_empty & 1)); VERIF_COVER(!G_first);
}
