/*
 * C01.O1/O3, C02.O1 (qsbr flavor) - reader side of src/urcu-qsbr.c / include/urcu/static/urcu-qsbr.h:
 * classification, quiescent_state / thread_offline / thread_online word updates, and the reader half of the
 * sleep/wake handshake (store of the reader word -> full barrier -> test of `waiting`; waiting cleared -> full
 * barrier -> test of the futex; FUTEX_WAKE iff waiting && futex == -1).
 */
#include <verif/verif.h>
#include <verif/os_stubs.h>
#include <verif/flavor_pre.h>
static void evt(int kind, void *addr, int mo, unsigned long val);
#define VERIF_EVT(kind, addr, mo, val) evt((kind), (void *)(addr), (int)(mo), (unsigned long)(val))
#include <verif/atomics_seq.h>
#include "urcu-qsbr.c"

#define RD (URCU_TLS(urcu_qsbr_reader))
struct evs { unsigned long ctr_stores, ctr_val, ctr_mo, full_after_ctr, waiting_loads, waiting_load_fenced, waiting_stores, full_after_waiting,
	     futex_loads, futex_load_fenced, futex_stores, other_stores, gp_loads, rd_loads; } EV;

static void evt(int kind, void *addr, int mo, unsigned long val)
{
	if (kind == EV_MB) { if (EV.ctr_stores) EV.full_after_ctr = 1; if (EV.waiting_stores) EV.full_after_waiting = 1; }
	if (kind == EV_STORE) {
		if (addr == (void *) &RD.ctr) { EV.ctr_stores++; EV.ctr_val = val; EV.ctr_mo = mo; EV.full_after_ctr = mo >= CMM_SEQ_CST; }
		else if (addr == (void *) &RD.waiting) { EV.waiting_stores++; EV.full_after_waiting = mo >= CMM_SEQ_CST; }
		else if (addr == (void *) &urcu_qsbr_gp.futex) EV.futex_stores++;
		else EV.other_stores++;
	}
	if (kind == EV_LOAD) {
		if (addr == (void *) &RD.waiting) { EV.waiting_loads++; EV.waiting_load_fenced = EV.full_after_ctr; }
		if (addr == (void *) &urcu_qsbr_gp.futex) { EV.futex_loads++; EV.futex_load_fenced = EV.full_after_waiting; }
		if (addr == (void *) &urcu_qsbr_gp.ctr) EV.gp_loads++;
		if (addr == (void *) &RD.ctr) EV.rd_loads++;
	}
}

unsigned long in_word, in_gp, in_waiting, in_futex, in_op;
static void setup(void)
{
	VIN(unsigned long, in_word); VIN(unsigned long, in_gp); VIN(unsigned long, in_waiting); VIN(unsigned long, in_futex);
	RD.ctr = in_word; RD.registered = 1; RD.waiting = in_waiting & 1;
	urcu_qsbr_gp.ctr = in_gp; urcu_qsbr_gp.futex = (in_futex & 1) ? -1 : 0;
	VERIF_REQUIRE(in_gp & URCU_QSBR_GP_ONLINE);	/* invariant: the global counter starts at ONLINE (1) and moves by GP_CTR (2): always odd, never 0 (0 = offline) */
	G_os_futex_ret = 0; G_os_futex_wake = 0;
	memset(&EV, 0, sizeof(EV));
}
static void check_wake(const char *who)
{
	(void) who;
	VERIF_ASSERT(EV.waiting_loads == 1 && EV.waiting_load_fenced, "reader-word store -> full barrier (seq-cst store) -> test of `waiting` (no lost wake-up)");
	if (in_waiting & 1) {
		VERIF_ASSERT(RD.waiting == 0 && EV.futex_loads == 1 && EV.futex_load_fenced, "waiting cleared -> full barrier -> test of the futex");
		if (in_futex & 1) VERIF_ASSERT(urcu_qsbr_gp.futex == 0 && G_os_futex_wake == 1, "waiting && futex == -1 => futex reset and FUTEX_WAKE");
		else VERIF_ASSERT(urcu_qsbr_gp.futex == 0 && G_os_futex_wake == 0 && EV.futex_stores == 0, "futex != -1 => no store, no system call");
	} else {
		VERIF_ASSERT(EV.futex_loads == 0 && EV.futex_stores == 0 && G_os_futex_wake == 0 && EV.waiting_stores == 0, "not flagged as waited-for => no wake-up traffic");
	}
}

void h_state(void)
{
	int st;
	setup();
	st = (int) urcu_qsbr_reader_state(&RD.ctr, 0);
	VERIF_ASSERT(st == (in_word == 0 ? URCU_READER_INACTIVE : (in_word == in_gp ? URCU_READER_ACTIVE_CURRENT : URCU_READER_ACTIVE_OLD)),
		     "qsbr reader_state: INACTIVE iff offline (0); CURRENT iff equal to gp.ctr; else OLD");
	VERIF_ASSERT(EV.rd_loads == 1 && EV.ctr_stores == 0 && EV.other_stores == 0, "qsbr reader_state: one snapshot of the reader word, read-only");
	VERIF_COVER(st == URCU_READER_ACTIVE_OLD); VERIF_COVER(st == URCU_READER_ACTIVE_CURRENT); VERIF_COVER(st == URCU_READER_INACTIVE);
}

void h_quiescent_state(void)
{
	setup();
	urcu_qsbr_quiescent_state();
	VERIF_ASSERT(RD.ctr == (in_word == in_gp ? in_word : in_gp), "quiescent_state: publishes the current grace-period counter");
	if (in_word == in_gp) {
		VERIF_ASSERT(EV.ctr_stores == 0 && EV.waiting_loads == 0 && G_os_futex_wake == 0, "quiescent_state: nothing to do when already current");
	} else {
		VERIF_ASSERT(EV.ctr_stores == 1 && EV.ctr_mo >= CMM_SEQ_CST, "quiescent_state: one seq-cst store of the reader word");
		check_wake("quiescent_state");
	}
	VERIF_ASSERT(urcu_qsbr_gp.ctr == in_gp && EV.other_stores == 0, "quiescent_state: gp.ctr untouched");
	VERIF_COVER(in_word != in_gp && (in_waiting & 1) && (in_futex & 1)); VERIF_COVER(in_word == in_gp); VERIF_COVER(in_word == 0);
}
void h_offline(void)
{
	setup();
	urcu_qsbr_thread_offline();
	VERIF_ASSERT(RD.ctr == 0 && EV.ctr_stores == 1 && EV.ctr_mo >= CMM_SEQ_CST, "thread_offline: reader word 0 (seq-cst store)");
	check_wake("thread_offline");
	VERIF_ASSERT(urcu_qsbr_read_ongoing() == 0, "thread_offline: read_ongoing false");
	VERIF_COVER((in_waiting & 1) && (in_futex & 1)); VERIF_COVER(!(in_waiting & 1));
}
void h_online(void)
{
	setup();
	urcu_qsbr_thread_online();
	VERIF_ASSERT(RD.ctr == in_gp && EV.ctr_stores == 1 && EV.gp_loads == 1, "thread_online: snapshot of gp.ctr");
	VERIF_ASSERT(EV.full_after_ctr, "thread_online: full barrier after the store, before the thread's next reads");
	VERIF_ASSERT(urcu_qsbr_read_ongoing() != 0, "thread_online: read_ongoing true (gp.ctr is never 0)");
	VERIF_COVER(in_word == 0);
}
