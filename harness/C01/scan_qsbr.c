/*
 * C01.O4 / C02.O2 (qsbr flavor) - the registry scan wait_for_readers() of src/urcu-qsbr.c, bounded:
 * N <= 2 registered readers, <= 3 passes, spin count RCU_QS_ACTIVE_ATTEMPTS reduced to 2.
 * Every load of a reader counter returns an ARBITRARY value (ENV: readers report quiescent states, go offline /
 * online at will between any two accesses of the updater).  wait_gp() is used through a ghost-event contract.
 *
 *  - a reader leaves the input list only on an observation INACTIVE (offline) or CURRENT, never on OLD; to
 *    cur_snap_readers iff supplied and CURRENT, else to qsreaders; nothing lost or duplicated;
 *  - C02.O2 (updater half of the sleep/wake handshake; the reader half is C01.O3): before sleeping in wait_gp()
 *    the futex was armed (-1), THEN `waiting` was set on every reader still awaited, THEN a full barrier, THEN each
 *    of them was re-examined and one was still OLD.  (A reader that passes a quiescent state stores its counter,
 *    executes a full barrier and tests `waiting`: were `waiting` set only after the scan, the reader could find it
 *    clear, send no wake-up, and the updater would sleep for ever.)
 *  - when the list empties after arming, the futex is reset to 0 with release ordering before returning;
 *  - registry lock held during every pass, released around every wait.
 */
#include <verif/verif.h>
#define OS_LOCK_HOOKS
#include <verif/os_stubs.h>
#include <verif/flavor_pre.h>
static void evt(int kind, void *addr, int mo, unsigned long val);
static void load_hook(void *addr);
#define VERIF_EVT(kind, addr, mo, val) evt((kind), (void *)(addr), (int)(mo), (unsigned long)(val))
#define VERIF_LOAD_HOOK(addr) load_hook((void *)(addr))
#include <verif/atomics_seq.h>
#include "urcu-qsbr.c"

#define NR 2
struct urcu_qsbr_reader R[NR];
unsigned long G_n;
int G_obs[NR];
unsigned long G_seen_since_mb[NR], G_wset[NR], G_wset_at_mb[NR];
unsigned long G_armed, G_mb_since_arm, G_wmb_since_arm, G_wait_gp_calls, G_bad, G_lock_bad, G_reset_ok, G_waiting_before_wmb;

static int classify(unsigned long v)
{
	if (v == 0) return URCU_READER_INACTIVE;
	if (v == urcu_qsbr_gp.ctr) return URCU_READER_ACTIVE_CURRENT;
	return URCU_READER_ACTIVE_OLD;
}
static void load_hook(void *addr)
{
	unsigned long i;
	for (i = 0; i < NR; i++)
		if (addr == (void *) &R[i].ctr) {
			R[i].ctr = nondet_ulong();
			G_obs[i] = classify(R[i].ctr);
			G_seen_since_mb[i] = 1;
			if (OS_HELD(&rcu_registry_lock) != 1) G_lock_bad = 1;
		}
}
static void evt(int kind, void *addr, int mo, unsigned long val)
{
	unsigned long i;
	if (kind == EV_STORE && addr == (void *) &urcu_qsbr_gp.futex) {
		if ((int32_t) val == -1) { G_armed = 1; G_mb_since_arm = 0; G_wmb_since_arm = 0; for (i = 0; i < NR; i++) G_wset[i] = G_wset_at_mb[i] = 0; }
		else { G_reset_ok = G_armed && G_mb_since_arm && mo >= CMM_RELEASE; G_armed = 0; }
	}
	if (kind == EV_WMB && G_armed) G_wmb_since_arm = 1;
	if (kind == EV_STORE)
		for (i = 0; i < NR; i++)
			if (addr == (void *) &R[i].waiting && val == 1) {
				if (G_armed && !G_mb_since_arm) G_wset[i] = 1;
				if (!G_wmb_since_arm) G_waiting_before_wmb = 1;	/* the reader reads waiting then futex: futex must be written first */
			}
	if (kind == EV_MB && G_armed) {
		G_mb_since_arm = 1;
		for (i = 0; i < NR; i++) { G_seen_since_mb[i] = 0; G_wset_at_mb[i] = G_wset[i]; }
	}
}
static int in_list(struct cds_list_head *l, struct cds_list_head *n)
{
	struct cds_list_head *p; unsigned k = 0; int found = 0;
	for (p = l->next; p != l && k < NR + 1; p = p->next, k++)
		if (p == n) found++;
	return found;
}
struct cds_list_head *G_input;
#define AWAITED_OK(i, j) (!in_list(G_input, &R[i].node) || (G_wset_at_mb[i] && G_seen_since_mb[i]))
/* sleeping: only when armed, waiting set on every awaited reader before the full barrier, each re-examined after it, one OLD */
static void wait_gp(void)
__CPROVER_requires(OS_HELD(&rcu_registry_lock) == 0)
__CPROVER_assigns(G_wait_gp_calls, G_bad, G_armed, urcu_qsbr_gp.futex)
__CPROVER_ensures(G_wait_gp_calls == __CPROVER_old(G_wait_gp_calls) + 1 && urcu_qsbr_gp.futex == 0 && G_armed == 0)
__CPROVER_ensures(G_bad == ((__CPROVER_old(G_armed) && __CPROVER_old(G_mb_since_arm) && AWAITED_OK(0, 1) && AWAITED_OK(1, 0)
	&& ((in_list(G_input, &R[0].node) && G_obs[0] == URCU_READER_ACTIVE_OLD) || (in_list(G_input, &R[1].node) && G_obs[1] == URCU_READER_ACTIVE_OLD)))
	? __CPROVER_old(G_bad) : 1))
;

unsigned long in_n, in_with_cur, in_gp;
void h_scan(void)
{
	CDS_LIST_HEAD(input); CDS_LIST_HEAD(cur); CDS_LIST_HEAD(qs);
	unsigned long i, with_cur;
	VIN(unsigned long, in_n); VIN(unsigned long, in_with_cur); VIN(unsigned long, in_gp);
	G_n = in_n; VERIF_REQUIRE(G_n >= 1 && G_n <= NRMAX);
	with_cur = in_with_cur & 1;
	urcu_qsbr_gp.ctr = in_gp | 1; urcu_qsbr_gp.futex = 0;	/* the grace-period counter is odd (C01.O3) */
	for (i = 0; i < NR; i++) { G_obs[i] = -1; G_seen_since_mb[i] = 0; R[i].waiting = 0; if (i < G_n) cds_list_add(&R[i].node, &input); }
	G_input = &input; G_armed = 0; G_mb_since_arm = 0; G_wait_gp_calls = 0; G_bad = 0; G_lock_bad = 0; G_reset_ok = 1; G_waiting_before_wmb = 0;
	OS_HELD(&rcu_registry_lock) = 1; G_os_locks_held = 1;

	wait_for_readers(&input, with_cur ? &cur : 0, &qs, 0);

	VERIF_ASSERT(cds_list_empty(&input), "qsbr scan: returns only when every reader has left the input list");
	for (i = 0; i < NR; i++) {
		int a = in_list(&cur, &R[i].node), b = in_list(&qs, &R[i].node);
		if (i < G_n) {
			VERIF_ASSERT(a + b == 1, "qsbr scan: no reader lost or duplicated across the lists");
			VERIF_ASSERT(G_obs[i] != URCU_READER_ACTIVE_OLD, "qsbr scan: a reader is NEVER retired on an OLD observation");
			VERIF_ASSERT(a == (with_cur && G_obs[i] == URCU_READER_ACTIVE_CURRENT), "qsbr scan: to cur_snap_readers iff supplied and observed CURRENT, else to qsreaders");
		} else
			VERIF_ASSERT(a + b == 0, "qsbr scan: only registered readers appear");
	}
	VERIF_ASSERT(!G_bad, "C02.O2 qsbr: sleeps only after arming the futex, THEN setting `waiting` on every awaited reader, THEN a full barrier, THEN re-examining each of them with one still OLD (no lost wake-up)");
	VERIF_ASSERT(!G_waiting_before_wmb, "C02.O2 qsbr: futex armed and write barrier before `waiting` is set (the reader reads them in the opposite order)");
	VERIF_ASSERT(!G_lock_bad && OS_HELD(&rcu_registry_lock) == 1, "qsbr scan: readers examined only under the registry lock; lock held on return");
	VERIF_ASSERT(G_reset_ok && urcu_qsbr_gp.futex == 0 && !G_armed, "C02.O2 qsbr: an armed futex is reset to 0 (release, after the barrier) before returning");
#if NRMAX >= 2
	VERIF_COVER(G_wait_gp_calls >= 1 && G_n == 2); VERIF_COVER(G_n == 2 && with_cur && in_list(&cur, &R[0].node) && in_list(&qs, &R[1].node));
#else
	VERIF_COVER(G_wait_gp_calls >= 1);
#endif
	VERIF_COVER(G_wait_gp_calls == 0 && G_os_lock_events >= 2);
}
