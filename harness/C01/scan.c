/*
 * C01.O4, C02.O2, C15.O3 - the registry scan wait_for_readers() of src/urcu.c (memb / mb flavors), bounded:
 * N <= 2 registered readers, <= 3 passes over the registry, spin count RCU_QS_ACTIVE_ATTEMPTS reduced to 2.
 * Every load of a reader word returns an ARBITRARY value (ENV: readers lock/unlock at will between any two
 * accesses of the updater).  wait_gp() and smp_mb_master() are used through ghost-event contracts.
 *
 *  - a reader is moved out of the input list only on an observation INACTIVE or CURRENT, never on OLD;
 *    to cur_snap_readers iff that list was supplied and the observation was CURRENT, else to qsreaders;
 *    no reader lost or duplicated across the three lists; the function returns only with the input list empty;
 *  - C02.O2: before sleeping in wait_gp() the futex was armed (decremented to -1), then smp_mb_master, THEN every
 *    remaining reader was re-examined and one of them was still OLD; when the list empties after arming, the
 *    futex is reset to 0 after a barrier;
 *  - the registry lock is held during every pass and released around every wait.
 */
#include <verif/verif.h>
#define OS_LOCK_HOOKS
#include <verif/os_stubs.h>
#if defined(FLAVOR_MB)
# define RCU_MB
#else
# define RCU_MEMBARRIER
#endif
#include <verif/flavor_pre.h>
static void evt(int kind, void *addr, int mo, unsigned long val);
static void load_hook(void *addr);
#define VERIF_EVT(kind, addr, mo, val) evt((kind), (void *)(addr), (int)(mo), (unsigned long)(val))
#define VERIF_LOAD_HOOK(addr) load_hook((void *)(addr))
#include <verif/atomics_seq.h>
#include "urcu.c"

#define NR 2
struct urcu_reader R[NR];
unsigned long G_n;				/* registered readers */
int G_obs[NR];					/* classification computed from the last value loaded from reader i */
unsigned long G_seen_since_mb[NR];		/* reader i was re-examined since the last smp_mb_master */
unsigned long G_armed, G_mb_since_arm, G_wait_gp_calls, G_bad, G_lock_bad, G_reset_ok;

static int classify(unsigned long v)
{
	if (!(v & URCU_GP_CTR_NEST_MASK)) return URCU_READER_INACTIVE;
	if (!((v ^ rcu_gp.ctr) & URCU_GP_CTR_PHASE)) return URCU_READER_ACTIVE_CURRENT;
	return URCU_READER_ACTIVE_OLD;
}
/* ENV: the reader's word holds anything at the instant it is loaded */
static void load_hook(void *addr)
{
	unsigned long i;
	for (i = 0; i < NR; i++)
		if (addr == (void *) &R[i].ctr) {
			R[i].ctr = nondet_ulong();
			G_obs[i] = classify(R[i].ctr);
			G_seen_since_mb[i] = 1;
			if (OS_HELD(&rcu_registry_lock) != 1) G_lock_bad = 1;	/* readers are only examined under the registry lock */
		}
}
static void evt(int kind, void *addr, int mo, unsigned long val)
{
	(void) mo;
	if ((kind == EV_ADD || kind == EV_ADDRET) && addr == (void *) &rcu_gp.futex) { G_armed = 1; G_mb_since_arm = 0; }
	if (kind == EV_STORE && addr == (void *) &rcu_gp.futex) {
		if (val == 0) { G_reset_ok = G_armed && G_mb_since_arm; G_armed = 0; }
	}
}
static int in_list(struct cds_list_head *l, struct cds_list_head *n)
{
	struct cds_list_head *p; unsigned k = 0; int found = 0;
	for (p = l->next; p != l && k < NR + 1; p = p->next, k++)
		if (p == n) found++;
	return found;
}
struct cds_list_head *G_input;
static void smp_mb_master(void)
__CPROVER_requires(1)
__CPROVER_assigns(G_mb_since_arm, G_seen_since_mb)
__CPROVER_ensures(G_mb_since_arm == 1 && G_seen_since_mb[0] == 0 && G_seen_since_mb[1] == 0)
;
/* sleeping: only when armed, after the barrier, after re-examining every remaining reader, one of them OLD */
static void wait_gp(void)
__CPROVER_requires(OS_HELD(&rcu_registry_lock) == 1)
__CPROVER_assigns(G_wait_gp_calls, G_bad, G_armed, rcu_gp.futex)
__CPROVER_ensures(G_wait_gp_calls == __CPROVER_old(G_wait_gp_calls) + 1 && rcu_gp.futex == 0 && G_armed == 0)
__CPROVER_ensures(G_bad == ((__CPROVER_old(G_armed) && __CPROVER_old(G_mb_since_arm)
	&& (!in_list(G_input, &R[0].node) || (G_seen_since_mb[0] && G_obs[0] == URCU_READER_ACTIVE_OLD) || (in_list(G_input, &R[1].node) && G_seen_since_mb[0]))
	&& (!in_list(G_input, &R[1].node) || (G_seen_since_mb[1] && G_obs[1] == URCU_READER_ACTIVE_OLD) || (in_list(G_input, &R[0].node) && G_seen_since_mb[1]))
	&& ((in_list(G_input, &R[0].node) && G_obs[0] == URCU_READER_ACTIVE_OLD) || (in_list(G_input, &R[1].node) && G_obs[1] == URCU_READER_ACTIVE_OLD)))
	? __CPROVER_old(G_bad) : 1))
;

unsigned long in_n, in_with_cur, in_gp;
void h_scan(void)
{
	CDS_LIST_HEAD(input); CDS_LIST_HEAD(cur); CDS_LIST_HEAD(qs);
	unsigned long i, with_cur;
	VIN(unsigned long, in_n); VIN(unsigned long, in_with_cur); VIN(unsigned long, in_gp);
	G_n = in_n; VERIF_REQUIRE(G_n >= 1 && G_n <= NRMAX);
	with_cur = in_with_cur & 1;
	rcu_gp.ctr = in_gp; rcu_gp.futex = 0;
	for (i = 0; i < NR; i++) { G_obs[i] = -1; G_seen_since_mb[i] = 0; if (i < G_n) cds_list_add(&R[i].node, &input); }
	G_input = &input; G_armed = 0; G_mb_since_arm = 0; G_wait_gp_calls = 0; G_bad = 0; G_lock_bad = 0; G_reset_ok = 1;
	OS_HELD(&rcu_registry_lock) = 1; G_os_locks_held = 1;

	wait_for_readers(&input, with_cur ? &cur : 0, &qs, 0);

	VERIF_ASSERT(cds_list_empty(&input), "scan: returns only when every reader has left the input list");
	for (i = 0; i < NR; i++) {
		int a = in_list(&cur, &R[i].node), b = in_list(&qs, &R[i].node);
		if (i < G_n) {
			VERIF_ASSERT(a + b == 1, "scan: no reader lost or duplicated across the lists");
			VERIF_ASSERT(G_obs[i] != URCU_READER_ACTIVE_OLD, "scan: a reader is NEVER retired on an OLD observation (it is still inside a pre-existing critical section)");
			VERIF_ASSERT(a == (with_cur && G_obs[i] == URCU_READER_ACTIVE_CURRENT), "scan: to cur_snap_readers iff supplied and observed CURRENT, else (INACTIVE, or CURRENT in the second pass) to qsreaders");
		} else {
			VERIF_ASSERT(a + b == 0, "scan: only registered readers appear");
		}
	}
	VERIF_ASSERT(!G_bad, "C02.O2: sleeps only after arming the futex, then smp_mb_master, then re-examining every remaining reader with one still OLD");
	VERIF_ASSERT(!G_lock_bad && OS_HELD(&rcu_registry_lock) == 1, "scan: readers examined only under the registry lock; lock held on return");
	VERIF_ASSERT(G_reset_ok && rcu_gp.futex == 0 && !G_armed, "C02.O2: an armed futex is reset to 0 (after a barrier) before returning");
#if NRMAX >= 2
	VERIF_COVER(G_wait_gp_calls >= 1 && G_n == 2); VERIF_COVER(G_n == 2 && with_cur && in_list(&cur, &R[0].node) && in_list(&qs, &R[1].node));
#else
	VERIF_COVER(G_wait_gp_calls >= 1);
#endif
	VERIF_COVER(G_wait_gp_calls == 0 && G_os_lock_events >= 2);
}
