/*
 * C01.O4 (bp flavor) - the registry scan wait_for_readers() of src/urcu-bp.c, bounded: N <= 2 readers, <= 3 passes.
 * Every load of a reader word returns an ARBITRARY value (ENV).  bp has no futex: between passes it drops the registry
 * lock and spins / polls.
 *  - a reader leaves the input list only on an observation INACTIVE or CURRENT, never on OLD; to cur_snap_readers iff
 *    supplied and CURRENT, else to qsreaders; nothing lost or duplicated; returns only with the input list empty;
 *  - registry lock held during every pass, released around every wait, held on return; never sleeps holding it.
 */
#include <verif/verif.h>
#define OS_LOCK_HOOKS
#define OS_POLL_HOOK
#include <verif/os_stubs.h>
#include <verif/flavor_pre.h>
#include <sys/mman.h>
static void evt(int kind, void *addr, int mo, unsigned long val);
static void load_hook(void *addr);
#define VERIF_EVT(kind, addr, mo, val) evt((kind), (void *)(addr), (int)(mo), (unsigned long)(val))
#define VERIF_LOAD_HOOK(addr) load_hook((void *)(addr))
#include <verif/atomics_seq.h>
#include "urcu-bp.c"

#define NR 2
struct urcu_bp_reader R[NR];
unsigned long G_n;
int G_obs[NR];
unsigned long G_lock_bad, G_wait_events, G_wait_locked;
static void os_lock_hook(pthread_mutex_t *m) { (void) m; }
static void os_unlock_hook(pthread_mutex_t *m) { (void) m; }
static int os_poll_hook(void) { G_wait_events++; if (OS_HELD(&rcu_registry_lock)) G_wait_locked = 1; return 0; }

static int classify(unsigned long v)
{
	if (!(v & URCU_BP_GP_CTR_NEST_MASK)) return URCU_BP_READER_INACTIVE;
	if (!((v ^ urcu_bp_gp.ctr) & URCU_BP_GP_CTR_PHASE)) return URCU_BP_READER_ACTIVE_CURRENT;
	return URCU_BP_READER_ACTIVE_OLD;
}
static void load_hook(void *addr)
{
	unsigned long i;
	for (i = 0; i < NR; i++)
		if (addr == (void *) &R[i].ctr) {
			R[i].ctr = nondet_ulong();
			G_obs[i] = classify(R[i].ctr);
			if (OS_HELD(&rcu_registry_lock) != 1) G_lock_bad = 1;
		}
}
static void evt(int kind, void *addr, int mo, unsigned long val)
{
	(void) addr; (void) mo; (void) val;
	if (kind == EV_RELAX) { G_wait_events++; if (OS_HELD(&rcu_registry_lock)) G_wait_locked = 1; }
}
static int in_list(struct cds_list_head *l, struct cds_list_head *n)
{
	struct cds_list_head *p; unsigned k = 0; int found = 0;
	for (p = l->next; p != l && k < NR + 1; p = p->next, k++)
		if (p == n) found++;
	return found;
}

unsigned long in_n, in_with_cur, in_gp;
void h_scan(void)
{
	CDS_LIST_HEAD(input); CDS_LIST_HEAD(cur); CDS_LIST_HEAD(qs);
	unsigned long i, with_cur;
	VIN(unsigned long, in_n); VIN(unsigned long, in_with_cur); VIN(unsigned long, in_gp);
	G_n = in_n; VERIF_REQUIRE(G_n >= 1 && G_n <= NRMAX);
	with_cur = in_with_cur & 1;
	urcu_bp_gp.ctr = in_gp;
	for (i = 0; i < NR; i++) { G_obs[i] = -1; if (i < G_n) cds_list_add(&R[i].node, &input); }
	G_lock_bad = 0; G_wait_events = 0; G_wait_locked = 0;
	OS_HELD(&rcu_registry_lock) = 1; G_os_locks_held = 1;

	wait_for_readers(&input, with_cur ? &cur : 0, &qs, 0);

	VERIF_ASSERT(cds_list_empty(&input), "bp scan: returns only when every reader has left the input list");
	for (i = 0; i < NR; i++) {
		int a = in_list(&cur, &R[i].node), b = in_list(&qs, &R[i].node);
		if (i < G_n) {
			VERIF_ASSERT(a + b == 1, "bp scan: no reader lost or duplicated across the lists");
			VERIF_ASSERT(G_obs[i] != URCU_BP_READER_ACTIVE_OLD, "bp scan: a reader is NEVER retired on an OLD observation (it is still inside a pre-existing critical section)");
			VERIF_ASSERT(a == (with_cur && G_obs[i] == URCU_BP_READER_ACTIVE_CURRENT), "bp scan: to cur_snap_readers iff supplied and observed CURRENT, else to qsreaders");
		} else
			VERIF_ASSERT(a + b == 0, "bp scan: only registered readers appear");
	}
	VERIF_ASSERT(!G_lock_bad && !G_wait_locked && OS_HELD(&rcu_registry_lock) == 1, "bp scan: readers examined only under the registry lock; never waits while holding it (threads must be able to register/unregister); lock held on return");
#if NRMAX >= 2
	VERIF_COVER(G_wait_events >= 2 && G_n == 2); VERIF_COVER(G_n == 2 && with_cur && in_list(&cur, &R[0].node) && in_list(&qs, &R[1].node));
#else
	VERIF_COVER(G_wait_events >= 2);
#endif
	VERIF_COVER(G_wait_events == 0);
}
