/*
 * C01.O1/O2, C02.O1, C19.O1 - reader side of the memb, mb and bp flavors.
 * Real text: the flavor TU (src/urcu.c with RCU_MEMBARRIER / RCU_MB, src/urcu-bp.c) and through it
 * include/urcu/static/urcu-{memb,mb,bp,common}.h; entry points are the exported rcu_read_lock /
 * rcu_read_unlock / rcu_read_ongoing wrappers.
 *
 *  - classification (urcu_common_reader_state / urcu_bp_reader_state) = spec function of (word, gp.ctr), one snapshot;
 *  - reader word arithmetic of lock / unlock for every word and every gp.ctr with nest part 1;
 *  - fence placement around the reader-word store (full barrier for mb and for memb/bp without sys_membarrier,
 *    compiler barrier when sys_membarrier orders the reader from the updater side);
 *  - outermost unlock of memb/mb: store -> barrier -> futex test; wake-up iff futex == -1 (C02.O1);
 *  - ENV_MODE (C19): a signal handler doing a balanced rcu_read_lock(); rcu_read_unlock(); may run before every
 *    primitive of the interrupted lock/unlock (this includes the window between the plain read of the reader
 *    word and the store derived from it), recursively (contract of the handler, --enforce-contract-rec), while
 *    the updater may flip the phase and arm the futex; the interrupted function keeps its postcondition.
 */
#include <verif/verif.h>
#include <verif/os_stubs.h>
#if defined(FLAVOR_BP)
# define SRC "urcu-bp.c"
#elif defined(FLAVOR_MB)
# define RCU_MB
# define SRC "urcu.c"
#else
# define RCU_MEMBARRIER
# define SRC "urcu.c"
#endif
#include <verif/flavor_pre.h>

static void evt(int kind, void *addr, int mo, unsigned long val);
#define VERIF_EVT(kind, addr, mo, val) evt((kind), (void *)(addr), (int)(mo), (unsigned long)(val))
#ifdef ENV_MODE
void sig_handler(void);
#define VERIF_ENV() sig_handler()
#endif
#include <verif/atomics_seq.h>
#include SRC

#ifdef FLAVOR_BP
static struct urcu_bp_reader G_slot;
# define RD_CTR		(G_slot.ctr)
# define NEST_MASK	URCU_BP_GP_CTR_NEST_MASK
# define PHASE		URCU_BP_GP_CTR_PHASE
# define COUNT		URCU_BP_GP_COUNT
# define HAS_SYSMB	urcu_bp_has_sys_membarrier
# define HAS_FUTEX	0
# define STATE_FN(p)	((int) urcu_bp_reader_state((p), 0))
# define ST_CUR		URCU_BP_READER_ACTIVE_CURRENT
# define ST_OLD		URCU_BP_READER_ACTIVE_OLD
# define ST_INA		URCU_BP_READER_INACTIVE
# define FUTEX_WORD	G_no_futex
static int32_t G_no_futex;
#else
# define RD_CTR		(URCU_TLS(rcu_reader).ctr)
# define NEST_MASK	URCU_GP_CTR_NEST_MASK
# define PHASE		URCU_GP_CTR_PHASE
# define COUNT		URCU_GP_COUNT
# define HAS_FUTEX	1
# define STATE_FN(p)	((int) urcu_common_reader_state(&rcu_gp, (p), 0))
# define ST_CUR		URCU_READER_ACTIVE_CURRENT
# define ST_OLD		URCU_READER_ACTIVE_OLD
# define ST_INA		URCU_READER_INACTIVE
# define FUTEX_WORD	(rcu_gp.futex)
# ifdef FLAVOR_MB
static int G_always_mb = 0;
#  define HAS_SYSMB	G_always_mb	/* mb flavor: always a real barrier */
# else
#  define HAS_SYSMB	urcu_memb_has_sys_membarrier
# endif
#endif

/* ---- event bookkeeping ---------------------------------------------------------------------- */
struct evs {
	unsigned long ctr_stores, ctr_val, gp_loads, gp_val, rd_loads;
	unsigned long fence_before_store, fence_after_store;	/* 2 = full barrier, 1 = compiler barrier, 0 = none */
	unsigned long fence_now, futex_loads, futex_load_fenced, futex_stores, other_stores;
} EV;
#define E_ctr_stores EV.ctr_stores
#define E_ctr_val EV.ctr_val
#define E_gp_loads EV.gp_loads
#define E_gp_val EV.gp_val
#define E_rd_loads EV.rd_loads
#define E_fence_before_store EV.fence_before_store
#define E_fence_after_store EV.fence_after_store
#define E_fence_now EV.fence_now
#define E_futex_loads EV.futex_loads
#define E_futex_load_fenced EV.futex_load_fenced
#define E_futex_stores EV.futex_stores
#define E_other_stores EV.other_stores
unsigned long E_track;

static void evt(int kind, void *addr, int mo, unsigned long val)
{
	if (!E_track) return;
	if (kind == EV_MB) { E_fence_now = 2; if (E_ctr_stores) E_fence_after_store = 2; }
	if (kind == EV_BARRIER) { if (E_fence_now < 1) E_fence_now = 1; if (E_ctr_stores && E_fence_after_store < 1) E_fence_after_store = 1; }
	if (kind == EV_STORE) {
		if (addr == (void *) &RD_CTR) {
			E_ctr_stores++; E_ctr_val = val; E_fence_before_store = E_fence_now; E_fence_after_store = 0;
			/* release / seq-cst store: ordered after everything before it (compiler level; on x86-TSO also in
			 * hardware); a seq-cst store is in addition a full barrier AFTER the store (xchg / mov+mfence) */
			if (mo >= CMM_RELEASE && E_fence_before_store < 1) E_fence_before_store = 1;
			if (mo >= CMM_SEQ_CST) E_fence_after_store = 2;
		}
		else if (addr == (void *) &FUTEX_WORD) E_futex_stores++;
		else E_other_stores++;
	}
	if (kind == EV_LOAD) {
		if (addr == (void *) &rcu_gp.ctr) { E_gp_loads++; E_gp_val = rcu_gp.ctr; }
		if (addr == (void *) &RD_CTR) E_rd_loads++;
		if (addr == (void *) &FUTEX_WORD) { E_futex_loads++; E_futex_load_fenced = E_fence_after_store; }
	}
}
static void reset_evt(void)
{
	E_ctr_stores = E_gp_loads = E_rd_loads = 0; E_fence_before_store = E_fence_after_store = E_fence_now = 0;
	E_futex_loads = E_futex_load_fenced = E_futex_stores = E_other_stores = 0; E_track = 1;
}

unsigned long in_word, in_gp, in_sysmb, in_futex, in_isnull;
#define NEED_FENCE (HAS_SYSMB ? 1UL : 2UL)	/* what the slave side must execute */

static void setup(void)
{
	VIN(unsigned long, in_word); VIN(unsigned long, in_gp); VIN(unsigned long, in_sysmb); VIN(unsigned long, in_futex);
#ifdef FLAVOR_BP
	URCU_TLS(urcu_bp_reader) = &G_slot;	/* registered thread path */
	urcu_bp_has_sys_membarrier = in_sysmb & 1;
#elif !defined(FLAVOR_MB)
	urcu_memb_has_sys_membarrier = in_sysmb & 1;
	URCU_TLS(rcu_reader).registered = 1;
#else
	URCU_TLS(rcu_reader).registered = 1;
#endif
	RD_CTR = in_word;
	rcu_gp.ctr = in_gp;
	/* invariant of the global counter: nest part is exactly one count (reader fast path) */
	VERIF_REQUIRE((in_gp & NEST_MASK) == COUNT);
	FUTEX_WORD = (in_futex & 1) ? -1 : 0;
	G_os_futex_ret = 0; G_os_futex_wake = 0;
}

/* ---- O1: classification ----------------------------------------------------------------------- */
void h_state(void)
{
	unsigned long w, g; int st;
	VIN(unsigned long, in_word); VIN(unsigned long, in_gp); VIN(unsigned long, in_isnull);
	w = in_word; g = in_gp;
#ifdef FLAVOR_BP
	URCU_TLS(urcu_bp_reader) = &G_slot;
#endif
	RD_CTR = w; rcu_gp.ctr = g; reset_evt();
#ifdef FLAVOR_BP
	if (in_isnull & 1) {
		VERIF_ASSERT(STATE_FN((unsigned long *) 0) == ST_INA, "bp: a NULL reader word is INACTIVE");
		return;
	}
#endif
	st = STATE_FN(&RD_CTR);
	VERIF_ASSERT(st == (!(w & NEST_MASK) ? ST_INA : (((w ^ g) & PHASE) ? ST_OLD : ST_CUR)),
		     "reader_state = INACTIVE iff nest part 0; else CURRENT iff the phase bits agree; else OLD");
	VERIF_ASSERT(E_rd_loads == 1, "reader_state: ONE load of the reader word (both tests on the same snapshot)");
	VERIF_ASSERT(E_ctr_stores == 0 && E_other_stores == 0, "reader_state: read-only");
	VERIF_COVER(st == ST_OLD); VERIF_COVER(st == ST_CUR && (w & NEST_MASK) > 1); VERIF_COVER(st == ST_INA && w != 0);
}

#ifndef ENV_MODE
/* ---- O2: lock ------------------------------------------------------------------------------------- */
void h_lock(void)
{
	unsigned long w, g;
	setup(); w = in_word; g = in_gp;
	VERIF_REQUIRE((w & NEST_MASK) != NEST_MASK);	/* documented nesting limit */
	reset_evt();
	rcu_read_lock();
	E_track = 0;
	if (!(w & NEST_MASK)) {
		VERIF_ASSERT(RD_CTR == g, "outermost lock: the reader word becomes the snapshot of gp.ctr (phase + one nesting count)");
		VERIF_ASSERT(E_gp_loads == 1, "outermost lock: gp.ctr is read exactly once");
		VERIF_ASSERT(E_fence_after_store >= NEED_FENCE, "outermost lock: the store of the reader word is followed by the slave barrier (full barrier unless sys_membarrier orders readers from the updater side) before the critical section");
	} else {
		VERIF_ASSERT(RD_CTR == w + COUNT, "nested lock: adds one nesting count");
		VERIF_ASSERT(((RD_CTR ^ w) & ~NEST_MASK) == 0, "nested lock: phase and upper bits unchanged");
	}
	VERIF_ASSERT(E_ctr_stores == 1 && E_other_stores == 0 && E_futex_stores == 0, "lock: exactly one store, to the reader word");
	VERIF_ASSERT((rcu_read_ongoing() != 0) && rcu_gp.ctr == g, "lock: read_ongoing() true afterwards, gp.ctr untouched");
#ifndef FLAVOR_MB
	VERIF_COVER(!(w & NEST_MASK) && HAS_SYSMB);
#endif
	VERIF_COVER(!(w & NEST_MASK) && !HAS_SYSMB); VERIF_COVER((w & NEST_MASK) == NEST_MASK - 1);
}

/* ---- O2 + C02.O1: unlock ------------------------------------------------------------------------ */
void h_unlock(void)
{
	unsigned long w, g;
	setup(); w = in_word; g = in_gp;
	VERIF_REQUIRE((w & NEST_MASK) != 0);		/* inside a critical section */
	reset_evt();
	rcu_read_unlock();
	E_track = 0;
	VERIF_ASSERT(RD_CTR == w - COUNT, "unlock: removes exactly one nesting count");
	VERIF_ASSERT(((RD_CTR ^ w) & ~NEST_MASK) == 0, "unlock: phase and upper bits unchanged (only the outermost unlock ends the section)");
	VERIF_ASSERT(E_ctr_stores == 1 && E_other_stores == 0, "unlock: exactly one store to the reader word");
	VERIF_ASSERT(rcu_gp.ctr == g, "unlock: gp.ctr untouched");
	if ((w & NEST_MASK) == COUNT) {
		/* critical section -> store is not a store->load pair: compiler ordering is what x86-TSO formally needs */
		VERIF_ASSERT(E_fence_before_store >= 1, "outermost unlock: the critical section is ordered before the store of the reader word (barrier or release/seq-cst store)");
#if HAS_FUTEX
		VERIF_ASSERT(E_futex_loads == 1 && E_futex_load_fenced >= NEED_FENCE, "outermost unlock: reader-word store -> slave barrier -> test of the grace-period futex (no lost wake-up)");
		if (in_futex & 1) {
			VERIF_ASSERT(FUTEX_WORD == 0 && G_os_futex_wake == 1, "outermost unlock: futex == -1 => reset to 0 and FUTEX_WAKE");
		} else {
			VERIF_ASSERT(FUTEX_WORD == 0 && G_os_futex_wake == 0 && E_futex_stores == 0, "outermost unlock: futex != -1 => no store, no system call");
		}
#endif
		VERIF_ASSERT(rcu_read_ongoing() == 0, "outermost unlock: read_ongoing() false afterwards");
	} else {
		VERIF_ASSERT(E_futex_loads == 0 && E_futex_stores == 0 && G_os_futex_wake == 0, "nested unlock: no wake-up traffic");
		VERIF_ASSERT(rcu_read_ongoing() != 0, "nested unlock: still inside the critical section");
	}
	VERIF_COVER((w & NEST_MASK) == COUNT && (in_futex & 1)); VERIF_COVER((w & NEST_MASK) == 2 && (w & PHASE)); VERIF_COVER((w & NEST_MASK) == COUNT && !HAS_SYSMB);
}
#endif

/* ---- C19: signal handler steps ----------------------------------------------------------------- */
#ifdef ENV_MODE
unsigned long G_depth, G_handlers, G_in_handler;
#if HAS_FUTEX
/* assumed contract of the futex wrapper (the variadic syscall stub is not usable under dfcc) */
static inline int futex_async(int32_t *uaddr, int op, int32_t val, const struct timespec *timeout, int32_t *uaddr2, int32_t val3)
__CPROVER_requires(uaddr == &FUTEX_WORD && op == FUTEX_WAKE)
__CPROVER_assigns(G_os_futex_wake)
__CPROVER_ensures(G_os_futex_wake == __CPROVER_old(G_os_futex_wake) + 1 && __CPROVER_return_value == 0)
;
#endif
/* the updater may flip the phase and arm the futex at any time */
static void updater_step(void)
{
	if (nondet_bool()) rcu_gp.ctr ^= PHASE;
#if HAS_FUTEX
	if (nondet_bool()) FUTEX_WORD = -1;
#endif
}
void sig_handler(void)
__CPROVER_requires((RD_CTR & NEST_MASK) < NEST_MASK - 8 && (rcu_gp.ctr & NEST_MASK) == COUNT)
__CPROVER_assigns(RD_CTR, rcu_gp.ctr, FUTEX_WORD, G_handlers, G_os_futex_wake, G_os_futex_wait, EV)
/* nesting restored; inside a critical section the whole word (its phase snapshot) is restored; with nesting 0
 * the phase bit carries no information and may be left at the handler's snapshot */
__CPROVER_ensures((RD_CTR & NEST_MASK) == (__CPROVER_old(RD_CTR) & NEST_MASK))
__CPROVER_ensures((__CPROVER_old(RD_CTR) & NEST_MASK) == 0 || RD_CTR == __CPROVER_old(RD_CTR))
__CPROVER_ensures(((RD_CTR ^ __CPROVER_old(RD_CTR)) & ~(NEST_MASK | PHASE)) == 0 || ((RD_CTR ^ rcu_gp.ctr) & ~(NEST_MASK | PHASE)) == 0)
__CPROVER_ensures(((rcu_gp.ctr ^ __CPROVER_old(rcu_gp.ctr)) & ~PHASE) == 0)	/* the updater only flips the phase */
__CPROVER_ensures(G_handlers >= __CPROVER_old(G_handlers))
{
	unsigned long on;
	updater_step();
	if (nondet_bool()) {
		G_handlers++;
		on = rcu_read_ongoing();
		rcu_read_lock();
		/* rcu_dereference() ... the handler's own critical section */
		VERIF_ASSERT(rcu_read_ongoing() != 0, "handler: inside a critical section after its rcu_read_lock()");
		rcu_read_unlock();
		VERIF_ASSERT((rcu_read_ongoing() != 0) == (on != 0), "handler: rcu_read_ongoing() as before");
	}
	updater_step();
}

/* (A) the handler's own contract, for arbitrary nesting of further handlers (single top-level call) */
void h_handler(void)
{
	setup();
	VERIF_REQUIRE((in_word & NEST_MASK) < NEST_MASK - 16);
	reset_evt(); E_track = 0; G_handlers = 0;
	sig_handler();
	VERIF_COVER(G_handlers >= 1 && (in_word & NEST_MASK) == 0); VERIF_COVER(G_handlers >= 1 && (in_word & NEST_MASK) > 1);
}

/* (B) interrupted lock / unlock: every handler invocation is used through its contract */
void h_lock_env(void)
{
	unsigned long w;
	setup(); w = in_word;
	VERIF_REQUIRE((w & NEST_MASK) < NEST_MASK - 16);
	reset_evt(); E_track = 0; G_handlers = 0;
	rcu_read_lock();
	if (!(w & NEST_MASK)) {
		VERIF_ASSERT((RD_CTR & NEST_MASK) == COUNT, "interrupted outermost lock: nesting count one");
		VERIF_ASSERT(((RD_CTR ^ rcu_gp.ctr) & ~(NEST_MASK | PHASE)) == 0, "interrupted outermost lock: the word is a snapshot of gp.ctr taken during the call");
	} else {
		VERIF_ASSERT(RD_CTR == w + COUNT, "interrupted nested lock: exactly one more nesting count, phase kept");
	}
	VERIF_COVER(!(w & NEST_MASK)); VERIF_COVER((w & NEST_MASK) > 2);
}
void h_unlock_env(void)
{
	unsigned long w;
	setup(); w = in_word;
	VERIF_REQUIRE((w & NEST_MASK) != 0 && (w & NEST_MASK) < NEST_MASK - 16);
	reset_evt(); E_track = 0; G_handlers = 0;
	rcu_read_unlock();
	VERIF_ASSERT((RD_CTR & NEST_MASK) == ((w - COUNT) & NEST_MASK), "interrupted unlock: exactly one nesting count removed");
	VERIF_ASSERT((w & NEST_MASK) == COUNT || RD_CTR == w - COUNT, "interrupted nested unlock: phase snapshot of the enclosing section kept");
	VERIF_COVER((w & NEST_MASK) == COUNT); VERIF_COVER((w & NEST_MASK) > COUNT);
}
#endif
