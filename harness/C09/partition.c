/*
 * C09.O4 - partition_resize_helper() of src/rculfhash.c: the work of one resize step (populate / unlink the `len`
 * bucket nodes of an order) is split over worker threads; when thread creation runs out of resources the leftovers are
 * processed by the caller.  Decided here, for EVERY len = 2^k (k <= 40), every CPU-count mask, an allocation failure of
 * the work array, and pthread_create failing with EAGAIN at ANY worker (first, middle, none):
 *   the ranges handed to `fct` - by the created workers (recorded when the thread is created; all are joined before
 *   the function returns) and by the caller's fallback - are consecutive, start at 0 and end at len:
 *   every bucket index of the order is processed EXACTLY ONCE (this is the contract init_table / fini_table assume of
 *   init_table_populate / remove_table in C09.O3);
 *   all signals are blocked while threads are created, the mask is restored, the work array is freed once.
 */
#include <verif/verif.h>
#define OS_CREATE_HOOK
#define OS_CREATE_FAIL_HOOK
#define OS_JOIN_HOOK
#include <verif/os_stubs.h>
#include <verif/lfht_pre.h>
#include <verif/atomics_seq.h>
#define printf(...) (0)
#include "rculfhash.c"
/* proved in C09.O1.count_order (same contract text as harness/C09/resize.c): ceil(log2(x)) */
#define BIT(i) (1UL << (i))
int cds_lfht_get_count_order_ulong(unsigned long x)
__CPROVER_assigns()
__CPROVER_ensures(x == 0 ? __CPROVER_return_value == -1 :
	(__CPROVER_return_value >= 0 && __CPROVER_return_value <= 64
	 && (__CPROVER_return_value == 64 || x <= BIT(__CPROVER_return_value))
	 && (__CPROVER_return_value == 0 || x > BIT(__CPROVER_return_value - 1))))
;

struct cds_lfht HT; struct cds_lfht_alloc AL;
unsigned long G_cursor, G_bad, G_len0, G_i0, G_ranges, G_created, G_joined, G_fail_at, G_calloc_fail, G_calloc_calls, G_free_calls, G_sig_bad, G_fct_calls;
void *G_work;
static void rec_range(unsigned long start, unsigned long len)
{
	if (start != G_cursor) G_bad |= 1;			/* gap or overlap */
	if (len == 0 || len > G_len0 - G_cursor) G_bad |= 2;
	G_cursor = start + len; G_ranges++;
}
static void rec_fct(struct cds_lfht *ht, unsigned long i, unsigned long start, unsigned long len)
{
	if (ht != &HT || i != G_i0) G_bad |= 4;
	if (G_joined != G_created) G_bad |= 8;			/* the caller's share comes after all workers were joined */
	G_fct_calls++; rec_range(start, len);
}
static int os_create_fail_hook(void) { return G_created == G_fail_at ? EAGAIN : 0; }
static void os_create_hook(void *(*fn)(void *), void *arg)
{
	struct partition_resize_work *w = arg;
	if (fn != partition_resize_thread || w->ht != &HT || w->i != G_i0 || w->fct != rec_fct) G_bad |= 16;
	if (G_os_sig_blocked != ~0UL) G_sig_bad = 1;		/* workers must not inherit an open signal mask */
	G_created++; rec_range(w->start, w->len);		/* the worker will run fct on exactly this range */
}
static void os_join_hook(void) { G_joined++; }
static void *my_calloc(void *state, size_t n, size_t sz) { (void) state; G_calloc_calls++; if (G_calloc_fail) return 0; G_work = calloc(n, sz); return G_work; }
static void my_free(void *state, void *p) { (void) state; if (p != G_work) G_bad |= 32; G_free_calls++; }

unsigned long in_k, in_cpus, in_fail, in_calloc_fail, in_i;
void h_partition(void)
{
	unsigned long len, k, cm;
	VIN(unsigned long, in_k); VIN(unsigned long, in_cpus); VIN(unsigned long, in_fail); VIN(unsigned long, in_calloc_fail); VIN(unsigned long, in_i);
	k = in_k % 41; len = 1UL << k; G_len0 = len; G_i0 = in_i;
	cm = in_cpus % 7;					/* -2 (init failed), 0, 1, 3, 7, 15 CPUs-1 */
	nr_cpus_mask = cm == 0 ? -2 : (cm == 1 ? 0 : (long) ((1UL << (cm - 1)) - 1));
	G_fail_at = in_fail % 18;				/* index of the worker whose creation fails (>= number of workers: none) */
	G_calloc_fail = in_calloc_fail & 1;
	AL.calloc = my_calloc; AL.free = my_free; HT.alloc = &AL; HT.caller_resize_attr = 0;
	G_os_sig_blocked = 0x10;
	partition_resize_helper(&HT, G_i0, len, rec_fct);
	VERIF_ASSERT(!G_bad && G_cursor == len, "partition_resize_helper: the ranges processed by the workers and by the caller are consecutive from 0 to len - every bucket of the order exactly once, whichever pthread_create fails");
	VERIF_ASSERT(G_joined == G_created, "partition_resize_helper: every created worker is joined before returning");
	VERIF_ASSERT(!G_sig_bad && G_os_sig_blocked == 0x10, "partition_resize_helper: workers are created with all signals blocked; the caller's mask is restored");
	VERIF_ASSERT(G_calloc_calls <= 1 && G_free_calls == ((G_calloc_calls && !G_calloc_fail) ? 1UL : 0UL), "partition_resize_helper: the work array is freed exactly once");
	VERIF_ASSERT(G_fct_calls <= 1, "partition_resize_helper: at most one share is processed by the caller");
	VERIF_COVER(G_created == 16 && G_fct_calls == 0); VERIF_COVER(G_created == 0 && G_fail_at == 0 && G_calloc_calls == 1 && !G_calloc_fail); VERIF_COVER(G_created == 3 && G_fct_calls == 1); VERIF_COVER(G_calloc_fail && G_calloc_calls == 1); VERIF_COVER(nr_cpus_mask < 0);
}
