/*
 * C09.O6 - lazy (automatic) resizing and destruction behind queued resizes (src/rculfhash.c).  The resize loop terminates only
 * if resize_target is ALWAYS a power of two within [1, max_nr_buckets] (C09.O2); cds_lfht_resize establishes that (C09.O1);
 * these obligations show that every OTHER writer of resize_target keeps it:
 *   cds_lfht_resize_lazy_grow  : target' = max(target, min(size << growth, max)) - only ever raised, still a power of two <= max;
 *                                resize work queued iff the target was raised and no resize is initiated and no destroy is in
 *                                progress (and the work item could be allocated); then resize_initiated = 1; at most one item;
 *   cds_lfht_resize_lazy_count : (power-of-two count, as its callers pass - proved below) no-op without AUTO_RESIZE; count clamped to
 *                                [1, max]; a grow request only raises, a shrink request only lowers (not while a grow beyond `size` is pending); target stays
 *                                a power of two in [1, max];
 *   ht_count_add / ht_count_del: call lazy_count only with a power-of-two count (and only past the documented thresholds);
 *   do_resize_cb               : register, lock resize_mutex, resize, unlock, unregister, free the work item once;
 *   cds_lfht_destroy           : AUTO_RESIZE: non-empty => -EPERM, nothing changed; else in_progress_destroy set (queued resizes
 *                                then stop at once: C09.O2/O3) and ONE destroy work item queued behind them (FIFO work queue: C10);
 *                                otherwise delete_bucket, counters freed, table freed once.
 */
#include <verif/verif.h>
#define OS_LOCK_HOOKS
#include <verif/os_stubs.h>
#include <verif/lfht_pre.h>
#include <verif/atomics_seq.h>
#define printf(...) (0)
#include "rculfhash.c"

#define POW2(x) ((x) != 0 && ((x) & ((x) - 1)) == 0)
struct cds_lfht HT; struct cds_lfht_alloc AL; static struct rcu_flavor_struct FL;
unsigned long G_queued, G_malloc_fail, G_mallocs, G_frees, G_seq, G_q_seq, G_init_seq, G_reg, G_resize_calls, G_resize_locked, G_resize_reg, G_empty, G_delb_calls, G_delb_ret, G_splitfree;
void *G_q_work, *G_q_fn, *G_malloced, *G_freed; unsigned long G_delb_reg;
static void *my_malloc(void *st, size_t n) { (void) st; G_mallocs++; if (G_malloc_fail) return 0; G_malloced = malloc(n); return G_malloced; }
/* releasing the table itself: from here on its memory belongs to the allocator (the C07 demo allocator unmaps it).  The harness poisons
 * every pointer field, so that a later read of the table by the library is observed: a call through ht->flavor lands in h_after_release */
unsigned long G_ht_released, G_use_after_release;
static void h_after_release(void) { G_use_after_release = 1; }
static struct rcu_flavor_struct FL_POISON;
static void my_free(void *st, void *p)
{
	(void) st; G_frees++; G_freed = p;
	if (p == (void *) &HT) {
		G_ht_released = 1;
		FL_POISON.register_thread = FL_POISON.unregister_thread = h_after_release;
		HT.flavor = &FL_POISON; HT.caller_resize_attr = (pthread_attr_t *) 0xdeadUL; HT.split_count = (struct ht_items_count *) 0xdeadUL;
	}
}
void urcu_workqueue_queue_work(struct urcu_workqueue *wq, struct urcu_work *work, void (*func)(struct urcu_work *work))
{ (void) wq; G_queued++; G_q_work = work; G_q_fn = (void *) func; G_q_seq = ++G_seq; if (HT.resize_initiated && func == do_resize_cb) G_init_seq = 1; /* initiated must be set AFTER queuing, else a failed queue leaves it stuck - informational */ }
static void os_lock_hook(pthread_mutex_t *m) { (void) m; }
static void os_unlock_hook(pthread_mutex_t *m) { (void) m; }
static void h_reg(void) { G_reg++; }
static void h_unreg(void) { G_reg--; }
void _do_cds_lfht_resize(struct cds_lfht *ht)
__CPROVER_requires(ht == &HT)
__CPROVER_assigns(G_resize_calls, G_resize_locked, G_resize_reg)
__CPROVER_ensures(G_resize_calls == __CPROVER_old(G_resize_calls) + 1 && G_resize_locked == (unsigned long) OS_HELD(&HT.resize_mutex) && G_resize_reg == G_reg)
;
bool cds_lfht_is_empty(struct cds_lfht *ht) __CPROVER_requires(ht == &HT) __CPROVER_assigns() __CPROVER_ensures(__CPROVER_return_value == (G_empty != 0));
int cds_lfht_delete_bucket(struct cds_lfht *ht) __CPROVER_requires(ht == &HT && !G_ht_released) __CPROVER_assigns(G_delb_calls, G_delb_reg) __CPROVER_ensures(G_delb_calls == __CPROVER_old(G_delb_calls) + 1 && G_delb_reg == G_reg && __CPROVER_return_value == (int) G_delb_ret);
static void free_split_items_count(struct cds_lfht *ht) __CPROVER_requires(ht == &HT && !G_ht_released) __CPROVER_assigns(G_splitfree) __CPROVER_ensures(G_splitfree == __CPROVER_old(G_splitfree) + 1);
int cds_lfht_get_count_order_ulong(unsigned long x) __CPROVER_assigns()
__CPROVER_ensures(x == 0 ? __CPROVER_return_value == -1 : (__CPROVER_return_value >= 0 && __CPROVER_return_value <= 64 && (__CPROVER_return_value == 64 || x <= (1UL << __CPROVER_return_value)) && (__CPROVER_return_value == 0 || x > (1UL << (__CPROVER_return_value - 1)))));

unsigned long in_max_o, in_size_o, in_tgt_o, in_growth, in_init, in_destroy, in_mfail, in_flags, in_count_o, in_empty, in_ret, in_attr;
static unsigned long mx, sz, tg;
static void mk(void)
{
	VIN(unsigned long, in_max_o); VIN(unsigned long, in_size_o); VIN(unsigned long, in_tgt_o); VIN(unsigned long, in_growth); VIN(unsigned long, in_init); VIN(unsigned long, in_destroy); VIN(unsigned long, in_mfail); VIN(unsigned long, in_flags);
	VERIF_REQUIRE(in_max_o <= 62 && in_size_o <= in_max_o && in_tgt_o <= in_max_o);
	mx = 1UL << in_max_o; sz = 1UL << in_size_o; tg = 1UL << in_tgt_o;
	HT.max_nr_buckets = mx; HT.size = sz; HT.resize_target = tg; HT.resize_initiated = (in_init & 1); HT.in_progress_destroy = (in_destroy & 1);
	HT.flags = (int) (in_flags & 3); AL.malloc = my_malloc; AL.free = my_free; HT.alloc = &AL; FL.register_thread = h_reg; FL.unregister_thread = h_unreg; HT.flavor = &FL;
	G_malloc_fail = in_mfail & 1; G_queued = G_mallocs = G_frees = G_seq = G_reg = 0; G_ht_released = G_use_after_release = 0;
}
void h_lazy_grow(void)
{
	unsigned long want, raised; int growth;
	mk(); growth = (int) (in_growth % 33);			/* check_resize derives growth from a 32-bit chain length: 0..32 */
	cds_lfht_resize_lazy_grow(&HT, sz, growth);
	want = sz << growth; if (want > mx) want = mx;		/* (sz <= 2^62 and growth <= 32 may wrap to 0: then nothing is raised) */
	raised = want > tg;
	VERIF_ASSERT(HT.resize_target == (raised ? want : tg), "lazy_grow: the target is only ever raised, to min(size << growth, max)");
	VERIF_ASSERT(POW2(HT.resize_target) && HT.resize_target <= mx, "lazy_grow: the target stays a power of two within [1, max] (what the resize loop needs to terminate)");
	VERIF_ASSERT(G_queued == ((raised && !(in_init & 1) && !(in_destroy & 1) && !G_malloc_fail) ? 1UL : 0UL), "lazy_grow: resize work queued iff the target was raised, no resize is initiated and no destroy is in progress (one item at most)");
	VERIF_ASSERT(!G_queued || (G_q_fn == (void *) do_resize_cb && G_q_work == G_malloced && ((struct resize_work *) G_malloced)->ht == &HT && HT.resize_initiated == 1), "lazy_grow: the queued item names this table and runs do_resize_cb; resize_initiated set");
	VERIF_ASSERT(G_queued || HT.resize_initiated == (int) (in_init & 1), "lazy_grow: resize_initiated untouched when nothing is queued");
	VERIF_COVER(G_queued == 1); VERIF_COVER(raised && (in_destroy & 1)); VERIF_COVER(!raised && growth > 0);
}
void h_lazy_count(void)
{
	unsigned long count, c, exp;
	mk(); VIN(unsigned long, in_count_o); VERIF_REQUIRE(in_count_o <= 63); count = 1UL << in_count_o;
	cds_lfht_resize_lazy_count(&HT, sz, count);
	c = count < 1 ? 1 : count; if (c > mx) c = mx;
	if (!(HT.flags & CDS_LFHT_AUTO_RESIZE) || c == sz) exp = tg;
	else if (c > sz) exp = c > tg ? c : tg;
	else exp = (tg > sz || tg <= c) ? tg : c;		/* shrink request: not while a grow beyond `size` is pending, never upwards */
	VERIF_ASSERT(HT.resize_target == exp, "lazy_count: no-op without AUTO_RESIZE or when the clamped count equals the size; a grow request only raises the target; a shrink request lowers it to the clamped count unless a grow beyond `size` is pending or the target is already that low");
	VERIF_ASSERT(POW2(HT.resize_target) && HT.resize_target <= mx && HT.resize_target >= 1, "lazy_count: the target stays a power of two within [1, max]");
	VERIF_ASSERT(G_queued <= 1 && (!G_queued || (HT.resize_target != tg && !(in_init & 1) && !(in_destroy & 1))), "lazy_count: work queued only when the target changed, nothing initiated, no destroy in progress");
	VERIF_COVER(exp < tg); VERIF_COVER(exp > tg && G_queued == 1); VERIF_COVER(c < sz && tg > sz);
}
/* contract-replaced lazy_count for the two counters' callers */
#ifdef COUNT_PART
unsigned long G_lc_calls, G_lc_count, G_lc_size;
static void cds_lfht_resize_lazy_count(struct cds_lfht *ht, unsigned long size, unsigned long count)
__CPROVER_requires(ht == &HT) __CPROVER_assigns(G_lc_calls, G_lc_count, G_lc_size)
__CPROVER_ensures(G_lc_calls == __CPROVER_old(G_lc_calls) + 1 && G_lc_count == count && G_lc_size == size);
static int ht_get_split_count_index(unsigned long hash) __CPROVER_assigns() __CPROVER_ensures(__CPROVER_return_value == 0);
struct ht_items_count SC[1];
unsigned long in_split, in_cnt, in_add;
void h_count_adddel(void)
{
	unsigned long c1;
	mk(); VIN(unsigned long, in_split); VIN(unsigned long, in_cnt); VIN(unsigned long, in_add);
	HT.split_count = SC; SC[0].add = SC[0].del = in_split; HT.count = in_cnt; split_count_mask = 0;
	VERIF_REQUIRE((long) in_cnt >= 0 && in_cnt <= (1UL << 62));
	G_lc_calls = 0;
	if (in_add & 1) ht_count_add(&HT, sz, 12345); else ht_count_del(&HT, sz, 12345);
	if (G_lc_calls) {
		c1 = (in_add & 1) ? in_cnt + (1UL << COUNT_COMMIT_ORDER) : in_cnt - (1UL << COUNT_COMMIT_ORDER);
		VERIF_ASSERT(G_lc_calls == 1 && G_lc_size == sz && G_lc_count == (c1 >> (CHAIN_LEN_TARGET - 1)) && POW2(G_lc_count), "ht_count_add/del: the resize request carries a POWER-OF-TWO node count (the global count is only acted upon when it is a power of two)");
		VERIF_ASSERT(((in_split + 1) & ((1UL << COUNT_COMMIT_ORDER) - 1)) == 0, "ht_count_add/del: only every 2^COUNT_COMMIT_ORDER-th operation of a counter touches the global count");
		VERIF_ASSERT((in_add & 1) ? ((c1 >> CHAIN_LEN_RESIZE_THRESHOLD) >= sz) : ((c1 >> CHAIN_LEN_RESIZE_THRESHOLD) < sz), "ht_count_add/del: grow only past the load threshold, shrink only below it");
	}
	VERIF_ASSERT(HT.count == ((((in_split + 1) & ((1UL << COUNT_COMMIT_ORDER) - 1)) == 0) ? ((in_add & 1) ? in_cnt + (1UL << COUNT_COMMIT_ORDER) : in_cnt - (1UL << COUNT_COMMIT_ORDER)) : in_cnt), "ht_count_add/del: global count adjusted by exactly one batch when a counter completes one");
	VERIF_COVER(G_lc_calls == 1 && (in_add & 1)); VERIF_COVER(G_lc_calls == 1 && !(in_add & 1)); VERIF_COVER(G_lc_calls == 0 && (((in_split + 1) & 1023) == 0));
}
#endif
void h_resize_cb(void)
{
	struct resize_work *w;
	mk();
	w = malloc(sizeof(*w)); VERIF_REQUIRE(w != 0); w->ht = &HT; G_resize_calls = 0;
	do_resize_cb(&w->work);
	VERIF_ASSERT(G_resize_calls == 1 && G_resize_locked == 1 && G_resize_reg == 1, "do_resize_cb: the resize runs once, as a registered RCU thread, under the table's resize mutex");
	VERIF_ASSERT(G_os_locks_held == 0 && G_reg == 0 && G_frees == 1 && G_freed == (void *) w, "do_resize_cb: mutex released, thread unregistered, work item freed exactly once");
	VERIF_COVER(G_frees == 1);
}
void h_destroy(void)
{
	int r; pthread_attr_t *attr = (pthread_attr_t *) 0x11, **ap; pthread_attr_t A;
	mk(); VIN(unsigned long, in_empty); VIN(unsigned long, in_ret); VIN(unsigned long, in_attr);
	G_empty = in_empty & 1; G_delb_ret = (in_ret & 1) ? (unsigned long) -EPERM : 0; G_delb_calls = 0; G_splitfree = 0; HT.in_progress_destroy = 0; HT.caller_resize_attr = &A;
	ap = (in_attr & 1) ? &attr : 0;
	r = cds_lfht_destroy(&HT, ap);
	if (HT.flags & CDS_LFHT_AUTO_RESIZE) {
		if (!G_empty) VERIF_ASSERT(r == -EPERM && G_queued == 0 && HT.in_progress_destroy == 0 && G_frees == 0 && attr == (pthread_attr_t *) 0x11, "destroy (AUTO_RESIZE) of a non-empty table: -EPERM, nothing changed, nothing queued");
		else {
			VERIF_ASSERT(r == 0 && HT.in_progress_destroy == 1, "destroy (AUTO_RESIZE): in_progress_destroy set - resizes still queued stop at once");
			VERIF_ASSERT(G_queued == 1 && G_q_work == (void *) &HT.destroy_work && G_q_fn == (void *) do_auto_resize_destroy_cb && G_frees == 0 && G_delb_calls == 0, "destroy (AUTO_RESIZE): exactly ONE destroy item queued BEHIND the queued resizes; the table itself is only torn down by that item");
			VERIF_ASSERT(!ap || attr == &A, "destroy: the caller's resize attributes are handed back");
		}
	} else {
		VERIF_ASSERT(G_delb_calls == 1 && G_queued == 0, "destroy (no AUTO_RESIZE): synchronous, nothing queued");
		if (G_delb_ret) VERIF_ASSERT(r == -EPERM && G_frees == 0 && G_splitfree == 0, "destroy of a non-empty table: error of delete_bucket returned, nothing freed");
		else VERIF_ASSERT(r == 0 && G_splitfree == 1 && G_frees == 1 && G_freed == (void *) &HT && (!ap || attr == &A), "destroy: counters and the table freed exactly once; attributes handed back");
	}
	VERIF_ASSERT(!G_use_after_release, "destroy: nothing of the table is used after it was handed back to the allocator");
	VERIF_COVER((HT.flags & 1) && G_empty); VERIF_COVER(!(HT.flags & 1) && !G_delb_ret); VERIF_COVER((HT.flags & 1) && !G_empty);
}
/* the deferred half of destroy, run by the resize worker behind every queued resize */
void h_destroy_cb(void)
{
	mk(); G_delb_ret = 0; G_delb_calls = 0; G_splitfree = 0; G_delb_reg = 0; HT.in_progress_destroy = 1;
	do_auto_resize_destroy_cb(&HT.destroy_work);
	VERIF_ASSERT(G_delb_calls == 1 && G_delb_reg == 1, "destroy work item: the bucket nodes are removed once, by a REGISTERED RCU thread");
	VERIF_ASSERT(G_splitfree == 1 && G_frees == 1 && G_freed == (void *) &HT && G_ht_released, "destroy work item: counters and the table itself released exactly once");
	VERIF_ASSERT(G_reg == 0, "destroy work item: the worker thread is unregistered again");
	VERIF_ASSERT(!G_use_after_release, "destroy work item: releasing the table is its LAST use of it - the flavor's unregister_thread is reached through the table and must run before (an allocator that unmaps or recycles the memory makes any later read a use-after-free)");
	VERIF_COVER(G_frees == 1);
}
