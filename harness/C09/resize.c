/*
 * C09 - hash-table resize: target arithmetic, termination of the resize loop, order of
 * allocate / populate / publish (grow) and publish / GP / unlink / GP / free (shrink).
 * Real text: src/rculfhash.c.  Modular chain of contracts:
 *   cds_lfht_resize -> resize_target_update_count, _do_cds_lfht_resize
 *   _do_cds_lfht_resize -> _do_cds_lfht_grow / _do_cds_lfht_shrink   (contracts GROW / SHRINK)
 *   _do_cds_lfht_grow   -> cds_lfht_get_count_order_ulong, init_table (contract INIT_TABLE)
 *   _do_cds_lfht_shrink -> cds_lfht_get_count_order_ulong, fini_table (contract FINI_TABLE)
 *   init_table -> cds_lfht_alloc_bucket_table, init_table_populate (ghost-event contracts), store of size
 *   fini_table -> store of size, update_synchronize_rcu, remove_table, cds_lfht_free_bucket_table
 *   cds_lfht_get_count_order_ulong -> fls_u64 (inline asm `bsr`: ASSUMED instruction contract)
 * "Quiescent" = no other thread moves resize_target / in_progress_destroy during the call.
 */
#include <verif/verif.h>
#include <verif/os_stubs.h>
#include <verif/lfht_pre.h>

/* ---- ghost state ---------------------------------------------------------------------------- */
unsigned long G_gp;			/* grace periods elapsed */
unsigned long G_alloc_mask;		/* bit i: bucket table of order i allocated during this call */
unsigned long G_pop_mask;		/* bit i: order i populated (all its buckets linked) */
unsigned long G_unlink_mask;		/* bit i: order i unlinked (remove_table done) */
unsigned long G_free_mask;		/* bit i: order i freed */
unsigned long G_unlink_gp;		/* G_gp when the most recent order was unlinked */
unsigned long G_sizepub_gp;		/* G_gp when size was last published (shrink) */
unsigned long G_size_stores;		/* number of stores to ht->size */
unsigned long G_wmb_before_size;	/* a write barrier was executed since the last populate/unlink */
unsigned long G_bad_publish;		/* a size store violated the publication discipline */
unsigned long *G_size_addr;
unsigned long G_grow_calls, G_shrink_calls;

static inline void store_hook(void *addr, unsigned long v, int mo);
static inline void evt_hook(int kind);
#define VERIF_EVT(kind, addr, mo, val)	do_evt((kind), (void *)(addr), (int)(mo), (unsigned long)(val))
static inline void do_evt(int kind, void *addr, int mo, unsigned long val);
#include <verif/atomics_seq.h>

#define POW2(x) ((x) != 0 && ((x) & ((x) - 1)) == 0)
#define BIT(i) (1UL << (i))
#define MASK_BETWEEN(lo, hi) (((hi) | ((hi) - 1)) & ~((lo) | ((lo) - 1)))	/* bits of the orders in (log2 lo, log2 hi] */

#ifdef LOOP_CONTRACTS
unsigned long G_size0, G_bad0;
#undef URCU_VERIF_LOOP_init_table
#define URCU_VERIF_LOOP_init_table								\
	__CPROVER_assigns(i, ht->size, G_alloc_mask, G_pop_mask, G_size_stores, G_bad_publish, G_wmb_before_size)	\
	__CPROVER_loop_invariant(first_order <= i && i <= last_order + 1 && ht->size == BIT(i - 1))	\
	__CPROVER_loop_invariant(i == first_order || ht->size <= ht->resize_target)		\
	__CPROVER_loop_invariant(i == first_order || !ht->in_progress_destroy)			\
	__CPROVER_loop_invariant(G_alloc_mask == G_pop_mask && G_pop_mask == MASK_BETWEEN(G_size0, ht->size))	\
	__CPROVER_loop_invariant(G_bad_publish == G_bad0)					\
	__CPROVER_decreases(last_order + 1 - i)
#undef URCU_VERIF_LOOP_fini_table
#define URCU_VERIF_LOOP_fini_table								\
	__CPROVER_assigns(i, free_by_rcu_order, ht->size, G_unlink_mask, G_free_mask, G_unlink_gp, G_sizepub_gp, G_gp, G_size_stores, G_bad_publish, G_wmb_before_size)	\
	__CPROVER_loop_invariant(first_order - 1 <= i && i <= last_order && ht->size == BIT(i))	\
	__CPROVER_loop_invariant(free_by_rcu_order == (i == last_order ? 0 : i + 1))		\
	__CPROVER_loop_invariant(G_unlink_mask == MASK_BETWEEN(ht->size, G_size0))		\
	__CPROVER_loop_invariant(G_free_mask == (G_unlink_mask & ~(i == last_order ? 0UL : BIT(i + 1))))	\
	__CPROVER_loop_invariant(G_unlink_gp <= G_gp && G_sizepub_gp <= G_gp && G_gp <= (last_order - i) + 1)	\
	__CPROVER_loop_invariant(i == last_order || ht->size >= ht->resize_target)		\
	__CPROVER_loop_invariant(i == last_order || !ht->in_progress_destroy)			\
	__CPROVER_loop_invariant(G_bad_publish == G_bad0)					\
	__CPROVER_decreases(i)
#endif

#include "rculfhash.c"

static inline void do_evt(int kind, void *addr, int mo, unsigned long val)
{
	if (kind == EV_WMB || kind == EV_MB)
		G_wmb_before_size = 1;
	if (kind == EV_STORE && addr == (void *) G_size_addr) {
		G_size_stores++;
#ifdef GROW_SIDE
		/* grow: size 2^i is published only after order i was allocated and populated, with release order */
		if (!(val & G_pop_mask) || (val & (val - 1)) || mo < CMM_RELEASE)
			G_bad_publish = 1;
#else
		/* shrink: the smaller size is published (after a write barrier) before anything is unlinked */
		if ((val & (val - 1)) || !G_wmb_before_size)
			G_bad_publish = 1;
		G_sizepub_gp = G_gp;
#endif
	}
}

/* ---- assumed instruction contract: bsr-based fls ---------------------------------------------- */
static inline unsigned int fls_u64(uint64_t x)
__CPROVER_assigns()
__CPROVER_ensures(x == 0 ? __CPROVER_return_value == 0 :
	(__CPROVER_return_value >= 1 && __CPROVER_return_value <= 64 && (x >> (__CPROVER_return_value - 1)) == 1))
;

/* ---- proved: ceil(log2(x)) ------------------------------------------------------------------------ */
int cds_lfht_get_count_order_ulong(unsigned long x)
__CPROVER_assigns()
__CPROVER_ensures(x == 0 ? __CPROVER_return_value == -1 :
	(__CPROVER_return_value >= 0 && __CPROVER_return_value <= 64
	 && (__CPROVER_return_value == 64 || x <= BIT(__CPROVER_return_value))
	 && (__CPROVER_return_value == 0 || x > BIT(__CPROVER_return_value - 1))))
;

/* ---- ghost-event contracts of the leaves of grow ------------------------------------------------ */
static void cds_lfht_alloc_bucket_table(struct cds_lfht *ht, unsigned long order)
__CPROVER_requires(order >= 1 && order <= 63)
__CPROVER_requires(!(G_alloc_mask & BIT(order)))		/* never allocated twice */
__CPROVER_requires(ht->size == BIT(order - 1))			/* lower orders are in place, this one not yet published */
__CPROVER_assigns(G_alloc_mask)
__CPROVER_ensures(G_alloc_mask == (__CPROVER_old(G_alloc_mask) | BIT(order)))
;
static void init_table_populate(struct cds_lfht *ht, unsigned long i, unsigned long len)
__CPROVER_requires(i >= 1 && i <= 63 && len == BIT(i - 1))
__CPROVER_requires(G_alloc_mask & BIT(i))			/* allocated before populated */
__CPROVER_requires(ht->size == BIT(i - 1))			/* populated before published */
__CPROVER_assigns(G_pop_mask, G_wmb_before_size)
__CPROVER_ensures(G_pop_mask == (__CPROVER_old(G_pop_mask) | BIT(i)))
;

/* ---- ghost-event contracts of the leaves of shrink ---------------------------------------------- */
static void remove_table(struct cds_lfht *ht, unsigned long i, unsigned long len)
__CPROVER_requires(i >= 1 && i <= 63 && len == BIT(i - 1))
__CPROVER_requires(ht->size <= BIT(i - 1))			/* smaller size published first */
__CPROVER_requires(G_gp > G_sizepub_gp)				/* and a grace period since then */
__CPROVER_requires(!(G_unlink_mask & BIT(i)))
__CPROVER_assigns(G_unlink_mask, G_unlink_gp, G_wmb_before_size)
__CPROVER_ensures(G_unlink_mask == (__CPROVER_old(G_unlink_mask) | BIT(i)) && G_unlink_gp == G_gp)
__CPROVER_ensures(G_wmb_before_size == 0)
;
static void cds_lfht_free_bucket_table(struct cds_lfht *ht, unsigned long order)
__CPROVER_requires(order >= 1 && order <= 63)
__CPROVER_requires(G_unlink_mask & BIT(order))			/* unlinked first */
__CPROVER_requires(G_gp > G_unlink_gp)				/* a grace period after the (latest) unlink */
__CPROVER_requires(!(G_free_mask & BIT(order)))			/* freed once */
__CPROVER_requires(ht->size < BIT(order))
__CPROVER_assigns(G_free_mask)
__CPROVER_ensures(G_free_mask == (__CPROVER_old(G_free_mask) | BIT(order)))
;

#ifdef RESIZE_LEVEL	/* the callers' proof additionally counts the calls (ghost) */
#define COUNT_CALL(c) __CPROVER_ensures(c == __CPROVER_old(c) + 1)
#else
#define COUNT_CALL(c)
#endif
/* ---- contracts of the middle layer --------------------------------------------------------------- */
#define T (ht->resize_target)
static void init_table(struct cds_lfht *ht, unsigned long first_order, unsigned long last_order)
__CPROVER_requires(first_order >= 1 && first_order <= last_order && last_order <= 63)
__CPROVER_requires(ht->size == BIT(first_order - 1) && G_alloc_mask == 0 && G_pop_mask == 0)
__CPROVER_assigns(ht->size, G_alloc_mask, G_pop_mask, G_size_stores, G_bad_publish, G_wmb_before_size)
__CPROVER_ensures(POW2(ht->size) && ht->size >= __CPROVER_old(ht->size) && ht->size <= BIT(last_order))
__CPROVER_ensures(T < BIT(first_order) ==> ht->size == __CPROVER_old(ht->size))
__CPROVER_ensures((T >= BIT(first_order) && !ht->in_progress_destroy) ==> (ht->size <= T && (ht->size > T / 2 || ht->size == BIT(last_order))))
__CPROVER_ensures((T >= BIT(first_order) && ht->in_progress_destroy) ==> ht->size == BIT(first_order))
__CPROVER_ensures(G_alloc_mask == G_pop_mask && G_pop_mask == ((ht->size | (ht->size - 1)) & ~(__CPROVER_old(ht->size) | (__CPROVER_old(ht->size) - 1))))
__CPROVER_ensures(G_bad_publish == __CPROVER_old(G_bad_publish))
;
static void fini_table(struct cds_lfht *ht, unsigned long first_order, unsigned long last_order)
__CPROVER_requires(first_order >= 1 && first_order <= last_order + 1 && last_order <= 63)
__CPROVER_requires(ht->size == BIT(last_order) && G_unlink_mask == 0 && G_free_mask == 0)
__CPROVER_assigns(ht->size, G_unlink_mask, G_free_mask, G_unlink_gp, G_sizepub_gp, G_gp, G_size_stores, G_bad_publish, G_wmb_before_size)
__CPROVER_ensures(POW2(ht->size) && ht->size <= __CPROVER_old(ht->size) && ht->size >= BIT(first_order - 1))
__CPROVER_ensures((first_order > last_order || T > BIT(last_order - 1)) ==> ht->size == __CPROVER_old(ht->size))
__CPROVER_ensures((first_order <= last_order && T <= BIT(last_order - 1) && !ht->in_progress_destroy) ==> (ht->size >= T && (ht->size / 2 < T || ht->size == BIT(first_order - 1))))
__CPROVER_ensures((first_order <= last_order && T <= BIT(last_order - 1) && ht->in_progress_destroy) ==> ht->size == BIT(last_order - 1))
/* exactly the orders above the new size were unlinked and freed (each once, each after unlink + grace period) */
__CPROVER_ensures(G_unlink_mask == G_free_mask && G_free_mask == ((__CPROVER_old(ht->size) | (__CPROVER_old(ht->size) - 1)) & ~(ht->size | (ht->size - 1))))
__CPROVER_ensures(G_bad_publish == __CPROVER_old(G_bad_publish))
;

static void _do_cds_lfht_grow(struct cds_lfht *ht, unsigned long old_size, unsigned long new_size)
__CPROVER_requires(POW2(old_size) && old_size == ht->size && new_size == T && new_size > old_size && new_size <= BIT(63))
__CPROVER_requires(G_alloc_mask == 0 && G_pop_mask == 0)
__CPROVER_assigns(ht->size, G_alloc_mask, G_pop_mask, G_size_stores, G_bad_publish, G_wmb_before_size, G_grow_calls)
__CPROVER_ensures(POW2(ht->size) && ht->size >= old_size && ht->size <= T)
__CPROVER_ensures(!ht->in_progress_destroy ==> ht->size > T / 2)		/* = largest power of two <= target */
__CPROVER_ensures(ht->in_progress_destroy ==> (ht->size == 2 * old_size || (ht->size == old_size && T < 2 * old_size)))
__CPROVER_ensures(G_alloc_mask == G_pop_mask && G_pop_mask == ((ht->size | (ht->size - 1)) & ~(old_size | (old_size - 1))))
__CPROVER_ensures(G_bad_publish == __CPROVER_old(G_bad_publish))
COUNT_CALL(G_grow_calls)
;
static void _do_cds_lfht_shrink(struct cds_lfht *ht, unsigned long old_size, unsigned long new_size)
__CPROVER_requires(POW2(old_size) && old_size == ht->size && new_size == T && new_size >= 1 && new_size < old_size && old_size <= BIT(63))
__CPROVER_requires(G_unlink_mask == 0 && G_free_mask == 0)
__CPROVER_assigns(ht->size, G_unlink_mask, G_free_mask, G_unlink_gp, G_sizepub_gp, G_gp, G_size_stores, G_bad_publish, G_wmb_before_size, G_shrink_calls)
__CPROVER_ensures(POW2(ht->size) && ht->size <= old_size && ht->size >= T && ht->size >= 1)
__CPROVER_ensures(!ht->in_progress_destroy ==> (ht->size / 2 < T || ht->size == 1))	/* = smallest power of two >= target */
__CPROVER_ensures((ht->in_progress_destroy && T <= old_size / 2) ==> ht->size == old_size / 2)
__CPROVER_ensures(G_unlink_mask == G_free_mask && G_free_mask == ((old_size | (old_size - 1)) & ~(ht->size | (ht->size - 1))))
__CPROVER_ensures(G_bad_publish == __CPROVER_old(G_bad_publish))
COUNT_CALL(G_shrink_calls)
;
#undef T

/* ---- harness plumbing ---------------------------------------------------------------------------- */
static void h_sync(void) { G_gp++; }
static void h_nop(void) { }
static struct rcu_flavor_struct G_flavor;
static struct cds_lfht G_ht;
unsigned long in_size_order, in_target, in_max_order, in_destroy, in_first, in_last, in_x, in_new_size, in_count, in_growth;

static struct cds_lfht *mk_ht(void)
{
	struct cds_lfht *ht = &G_ht;
	VIN(unsigned long, in_size_order); VIN(unsigned long, in_target); VIN(unsigned long, in_max_order); VIN(unsigned long, in_destroy);
	VERIF_REQUIRE(in_max_order <= 63 && in_size_order <= in_max_order);
#ifdef VERIF_SMALL
	VERIF_REQUIRE(in_max_order <= 10);
#endif
	ht->max_nr_buckets = BIT(in_max_order);
	ht->size = BIT(in_size_order);
	ht->resize_target = in_target;
	ht->in_progress_destroy = in_destroy & 1;
	ht->resize_initiated = 0;
	G_flavor.update_synchronize_rcu = h_sync;
	G_flavor.read_lock = h_nop; G_flavor.read_unlock = h_nop;
	G_flavor.register_thread = h_nop; G_flavor.unregister_thread = h_nop;
	ht->flavor = &G_flavor;
	G_size_addr = &ht->size;
	G_gp = 1; G_alloc_mask = G_pop_mask = G_unlink_mask = G_free_mask = 0; G_unlink_gp = 0; G_sizepub_gp = 0;
	G_size_stores = 0; G_bad_publish = 0; G_wmb_before_size = 0; G_grow_calls = G_shrink_calls = 0;
	return ht;
}

/* O1a: count order (enforced contract) */
void h_count_order(void)
{
	VIN(unsigned long, in_x);
	(void) cds_lfht_get_count_order_ulong(in_x);
}

/* O3a: init_table (enforced), leaves replaced */
void h_init_table(void)
{
	struct cds_lfht *ht = mk_ht();
	VIN(unsigned long, in_first); VIN(unsigned long, in_last);
#ifdef LOOP_CONTRACTS
	G_size0 = ht->size; G_bad0 = G_bad_publish;
#endif
	init_table(ht, in_first, in_last);
	VERIF_ASSERT(!G_bad_publish, "init_table: every size store publishes 2^i after order i was allocated and populated, with release ordering");
	VERIF_COVER(ht->size == BIT(in_last) && in_last - in_first >= 3);
	VERIF_COVER(ht->size < BIT(in_last) && ht->size > BIT(in_first));
	VERIF_COVER((in_destroy & 1) && ht->size == BIT(in_first));
}

void h_fini_table(void)
{
	struct cds_lfht *ht = mk_ht();
	VIN(unsigned long, in_first); VIN(unsigned long, in_last);
#ifdef LOOP_CONTRACTS
	G_size0 = ht->size; G_bad0 = G_bad_publish;
#endif
	fini_table(ht, in_first, in_last);
	VERIF_ASSERT(!G_bad_publish, "fini_table: the smaller size is published (after a write barrier) before the order is unlinked");
	VERIF_COVER(ht->size == BIT(in_first - 1) && in_last - in_first >= 3);
	VERIF_COVER(ht->size > BIT(in_first - 1) && ht->size < BIT(in_last));
}

/* O3b: grow / shrink (enforced), init_table / fini_table / count_order replaced */
void h_grow(void)
{
	struct cds_lfht *ht = mk_ht();
	_do_cds_lfht_grow(ht, ht->size, ht->resize_target);
	VERIF_COVER(POW2(in_target) && in_target > 4); VERIF_COVER(!POW2(in_target));
}
void h_shrink(void)
{
	struct cds_lfht *ht = mk_ht();
	_do_cds_lfht_shrink(ht, ht->size, ht->resize_target);
	VERIF_COVER(in_target == 1); VERIF_COVER(POW2(in_target) && in_target > 4); VERIF_COVER(!POW2(in_target) && in_target > 4);
}

/* O1b: the stored target of cds_lfht_resize() is a power of two in [1, max] */
void h_target_update(void)
{
	struct cds_lfht *ht = mk_ht();
	VIN(unsigned long, in_count);
	resize_target_update_count(ht, in_count);
	VERIF_ASSERT(ht->resize_target >= 1 && ht->resize_target <= ht->max_nr_buckets, "resize target within [1, max_nr_buckets]");
	VERIF_ASSERT(ht->resize_target >= in_count || ht->resize_target == ht->max_nr_buckets, "resize target not below the request (unless clamped to max)");
	VERIF_ASSERT(ht->resize_target / 2 < in_count || ht->resize_target == 1, "resize target is the smallest admissible size for the request");
	VERIF_ASSERT(POW2(ht->resize_target), "resize target is a power of two (a size the table can actually reach)");
	VERIF_COVER(in_count == 3); VERIF_COVER(in_count > ht->max_nr_buckets); VERIF_COVER(in_count == 0);
}

/* O2: the resize loop terminates on a quiescent table for EVERY requested size, and ends at the target */
void h_resize(void)
{
	struct cds_lfht *ht = mk_ht();
	VIN(unsigned long, in_new_size);
	cds_lfht_resize(ht, in_new_size);
	/* (--unwind 2 --unwinding-assertions on the do-while of _do_cds_lfht_resize: at most one pass is needed) */
	if (!(in_destroy & 1)) {
		VERIF_ASSERT(ht->size == ht->resize_target, "resize: table has the target size on return");
		VERIF_ASSERT(ht->size >= in_new_size || ht->size == ht->max_nr_buckets, "resize: at least the requested number of buckets (or max)");
		VERIF_ASSERT(G_grow_calls + G_shrink_calls <= 1, "resize: a single grow or shrink pass");
	} else {
		VERIF_ASSERT(ht->size == BIT(in_size_order), "resize: nothing is done on a table being destroyed");
	}
	VERIF_ASSERT(POW2(ht->size) && ht->size >= 1 && ht->size <= ht->max_nr_buckets, "resize: size stays a power of two in [1, max_nr_buckets]");
	VERIF_ASSERT(!G_bad_publish, "resize: publication discipline");
	VERIF_ASSERT(G_os_locks_held == 0, "resize: resize_mutex released");
	VERIF_COVER(G_grow_calls == 1); VERIF_COVER(G_shrink_calls == 1); VERIF_COVER(in_new_size == 3); VERIF_COVER(in_new_size > ht->max_nr_buckets);
}

#ifdef VERIF_NATIVE
int main(void) { VERIF_ENTRY(); printf("REPLAY-PASS\n"); return 0; }
#endif
