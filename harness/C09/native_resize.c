/* native replay of C09.O2 against the real sources of the working tree:
 * create a table with 2^a buckets (max 2^m), call cds_lfht_resize(ht, n); must return and keep contents. */
#define _LGPL_SOURCE
#include <stdio.h>
#include <stdlib.h>
#include <unistd.h>
#include <urcu/urcu-memb.h>
#include <urcu/rculfhash.h>

struct node { struct cds_lfht_node n; unsigned long k; };
static int match(struct cds_lfht_node *n, const void *k) { return ((struct node *) n)->k == *(const unsigned long *) k; }

int main(int argc, char **argv)
{
	unsigned long a = argc > 1 ? strtoul(argv[1], 0, 0) : 0, m = argc > 2 ? strtoul(argv[2], 0, 0) : 6;
	unsigned long n = argc > 3 ? strtoul(argv[3], 0, 0) : 3, i, cnt = 0;
	struct cds_lfht *ht;
	struct cds_lfht_iter it;
	struct node nodes[8];

	if (a > 20) a = 20;
	if (m > 22) m = 22;
	if (m < a) m = a;
	alarm(10);			/* a resize that never returns is killed by SIGALRM */
	urcu_memb_register_thread();
	ht = cds_lfht_new_flavor(1UL << a, 1, 1UL << m, 0, &urcu_memb_flavor, NULL);
	if (!ht) return 3;
	for (i = 0; i < 8; i++) {
		nodes[i].k = i * 7;
		urcu_memb_read_lock();
		cds_lfht_add(ht, nodes[i].k * 0x9e3779b97f4a7c15UL, &nodes[i].n);
		urcu_memb_read_unlock();
	}
	printf("resize(%lu) on a table of %lu buckets (max %lu)...\n", n, 1UL << a, 1UL << m);
	fflush(stdout);
	cds_lfht_resize(ht, n);
	urcu_memb_read_lock();
	for (i = 0; i < 8; i++) {
		cds_lfht_lookup(ht, nodes[i].k * 0x9e3779b97f4a7c15UL, match, &nodes[i].k, &it);
		if (cds_lfht_iter_get_node(&it) == &nodes[i].n) cnt++;
	}
	urcu_memb_read_unlock();
	printf("returned; %lu of 8 nodes still found\n", cnt);
	if (cnt != 8) { printf("REPLAY-FAIL: contents changed by resize\n"); return 1; }
	printf("REPLAY-PASS\n");
	return 0;
}
