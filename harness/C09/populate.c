/*
 * C09.O5 / C05 - one share of a resize step (src/rculfhash.c):
 *   init_table_populate_partition(ht, i, start, len): for EVERY j in [2^(i-1)+start, 2^(i-1)+start+len), in order and
 *     exactly once: the bucket node of index j gets reverse_hash = bit_reverse(j) and is linked with
 *     _cds_lfht_add(ht, j, NULL, NULL, size = 2^(i-1), node, NULL, bucket_flag = 1) - i.e. looked up through the OLD size, so
 *     that it lands behind its parent bucket j - 2^(i-1) - all inside one read-side critical section;
 *   remove_table_partition: for every such j: REMOVED is or-ed into the bucket node's own next word (pointer part kept)
 *     and the node is unlinked by _cds_lfht_gc_bucket(parent = bucket j - 2^(i-1), node), inside one read-side section.
 * Loop invariants: any len, any start, any order i in (MIN_TABLE_ORDER, 63].  _cds_lfht_add / _cds_lfht_gc_bucket are used
 * through contracts whose preconditions are the call shapes above (their bodies: C08.O5.add_bucket, C07.O2.gc_bucket).
 */
#include <verif/verif.h>
#include <verif/os_stubs.h>
#include <verif/lfht_pre.h>
static void evt(int kind, void *addr, int mo, unsigned long val);
#define VERIF_EVT(kind, addr, mo, val) evt((kind), (void *)(addr), (int)(mo), (unsigned long)(val))
#include <verif/atomics_seq.h>
#define printf(...) (0)
struct cds_lfht_node;
unsigned long G_next_j, G_size, G_lo, G_hi, G_rl, G_rl_calls, G_bad, G_last_idx, G_parent_idx, G_or_seen;
#undef URCU_VERIF_LOOP_populate_partition
#define URCU_VERIF_LOOP_populate_partition						\
	__CPROVER_assigns(j, G_next_j, G_last_idx, G_parent_idx, G_bad, BK[0], BK[1])		\
	__CPROVER_loop_invariant(G_lo <= j && j <= G_hi && G_next_j == j && !G_bad && size == G_size && G_rl == 1)	\
	__CPROVER_decreases(G_hi - j)
#undef URCU_VERIF_LOOP_remove_partition
#define URCU_VERIF_LOOP_remove_partition						\
	__CPROVER_assigns(j, G_next_j, G_last_idx, G_parent_idx, G_bad, G_or_seen, BK[0], BK[1])	\
	__CPROVER_loop_invariant(G_lo <= j && j <= G_hi && G_next_j == j && !G_bad && size == G_size && G_rl == 1)	\
	__CPROVER_decreases(G_hi - j)
struct cds_lfht_node_fwd;
#include <urcu/rculfhash.h>
struct cds_lfht_node BK[2];			/* BK[0]: the bucket node of the index asked last, BK[1]: its parent */
#include "rculfhash.c"

struct cds_lfht HT; static struct rcu_flavor_struct FL;
/* ht->bucket_at: the node of the current index j, or of its parent j - size; anything else is reported */
static struct cds_lfht_node *h_bucket_at(struct cds_lfht *ht, unsigned long index)
{
	if (ht != &HT) G_bad |= 1;
	if (index == G_next_j) { G_last_idx = index; return &BK[0]; }
	if (index + G_size == G_next_j) { G_parent_idx = index; return &BK[1]; }
	G_bad |= 2;
	return &BK[0];
}
static void h_read_lock(void) { if (G_rl) G_bad |= 4; G_rl = 1; G_rl_calls++; }
static void h_read_unlock(void) { if (!G_rl) G_bad |= 4; G_rl = 0; }
static void evt(int kind, void *addr, int mo, unsigned long val)
{
	(void) mo;
	if (kind == EV_OR && addr == (void *) &BK[0].next && val == REMOVED_FLAG) G_or_seen = 1;
}
static void _cds_lfht_add(struct cds_lfht *ht, unsigned long hash, cds_lfht_match_fct match, const void *key,
		unsigned long size, struct cds_lfht_node *node, struct cds_lfht_iter *unique_ret, int bucket_flag)
__CPROVER_requires(ht == &HT && hash == G_next_j && G_last_idx == G_next_j && node == &BK[0] && size == G_size && bucket_flag == 1 && match == 0 && key == 0 && unique_ret == 0)
__CPROVER_requires(BK[0].reverse_hash == bit_reverse_ulong(G_next_j) && G_rl == 1)
__CPROVER_assigns(G_next_j)
__CPROVER_ensures(G_next_j == __CPROVER_old(G_next_j) + 1)
;
static void _cds_lfht_gc_bucket(struct cds_lfht_node *bucket, struct cds_lfht_node *node)
__CPROVER_requires(node == &BK[0] && bucket == &BK[1] && G_last_idx == G_next_j && G_parent_idx + G_size == G_next_j && G_rl == 1)
__CPROVER_requires(G_or_seen == 1 && ((unsigned long) BK[0].next & REMOVED_FLAG))	/* frozen (REMOVED) before it is unlinked */
__CPROVER_assigns(G_next_j, G_or_seen)
__CPROVER_ensures(G_next_j == __CPROVER_old(G_next_j) + 1 && G_or_seen == 0)
;

unsigned long in_i, in_start, in_len, in_next;
static unsigned long i0;
static void mk(void)
{
	VIN(unsigned long, in_i); VIN(unsigned long, in_start); VIN(unsigned long, in_len); VIN(unsigned long, in_next);
	i0 = in_i; VERIF_REQUIRE(i0 > MIN_TABLE_ORDER && i0 <= 63);
	G_size = 1UL << (i0 - 1);
	VERIF_REQUIRE(in_start <= G_size && in_len <= G_size - in_start);	/* a share of the order's 2^(i-1) buckets */
	G_lo = G_size + in_start; G_hi = G_lo + in_len; G_next_j = G_lo;
	FL.read_lock = h_read_lock; FL.read_unlock = h_read_unlock; HT.flavor = &FL; HT.bucket_at = h_bucket_at;
	BK[0].next = (struct cds_lfht_node *) (in_next & ~7UL); G_rl = 0; G_rl_calls = 0; G_bad = 0; G_or_seen = 0;
}
void h_populate(void)
{
	mk();
	init_table_populate_partition(&HT, i0, in_start, in_len);
	VERIF_ASSERT(!G_bad && G_next_j == G_hi, "init_table_populate_partition: every index of the share, in order, exactly once, each through _cds_lfht_add(hash = j, size = 2^(i-1), bucket_flag = 1) with reverse_hash = bit_reverse(j) set first");
	VERIF_ASSERT(G_rl == 0 && G_rl_calls == 1, "init_table_populate_partition: inside ONE read-side critical section, left on return");
	VERIF_COVER(in_len > 5 && in_start > 0); VERIF_COVER(in_len == 0);
}
void h_remove(void)
{
	mk();
	remove_table_partition(&HT, i0, in_start, in_len);
	VERIF_ASSERT(!G_bad && G_next_j == G_hi, "remove_table_partition: every index of the share, in order, exactly once: REMOVED or-ed into the bucket node's next, then unlinked from its PARENT bucket j - 2^(i-1)");
	VERIF_ASSERT(G_rl == 0 && G_rl_calls == 1, "remove_table_partition: inside ONE read-side critical section, left on return");
	VERIF_COVER(in_len > 5 && in_start > 0); VERIF_COVER(in_len == 0);
}
