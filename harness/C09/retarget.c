/*
 * C09.O2 (re-targeting) - _do_cds_lfht_resize when the resize target MOVES while a pass is running (a second cds_lfht_resize(), or
 * the lazy resize of a concurrent add/del: both only store resize_target, they never take the resize mutex).
 * _do_cds_lfht_grow / _do_cds_lfht_shrink are replaced by contracts (their bodies: C09.O3) that bring the table to the size they
 * were asked for and - once, if the harness says so - let the environment store a new power-of-two target meanwhile.
 * Decided: every pass of the "re-do if the target size has changed under us" loop starts from the table's CURRENT size and the
 * CURRENT target; the loop ends with size == target after at most two passes.
 */
#include <verif/verif.h>
#include <verif/os_stubs.h>
#include <verif/lfht_pre.h>
#include <verif/atomics_seq.h>
#define printf(...) (0)
#include "rculfhash.c"

#define POW2(x) ((x) != 0 && ((x) & ((x) - 1)) == 0)
struct cds_lfht HT;
unsigned long G_passes, G_retargets, G_next_target, G_want_retarget, G_bad_start, G_grows, G_shrinks;
#define PASS_CONTRACT(dir_ok, counter)											\
__CPROVER_requires(ht == &HT)												\
__CPROVER_assigns(HT.size, HT.resize_target, G_passes, G_retargets, G_bad_start, counter)				\
__CPROVER_ensures(G_passes == __CPROVER_old(G_passes) + 1 && counter == __CPROVER_old(counter) + 1)			\
__CPROVER_ensures(G_bad_start == (__CPROVER_old(G_bad_start) || old_size != __CPROVER_old(HT.size) || new_size != __CPROVER_old(HT.resize_target) || !(dir_ok)))	\
__CPROVER_ensures(HT.size == new_size)											\
__CPROVER_ensures((__CPROVER_old(G_retargets) == 0 && G_want_retarget)							\
	? (HT.resize_target == G_next_target && G_retargets == 1)							\
	: (HT.resize_target == __CPROVER_old(HT.resize_target) && G_retargets == __CPROVER_old(G_retargets)))
static void _do_cds_lfht_grow(struct cds_lfht *ht, unsigned long old_size, unsigned long new_size)
PASS_CONTRACT(new_size > old_size, G_grows);
static void _do_cds_lfht_shrink(struct cds_lfht *ht, unsigned long old_size, unsigned long new_size)
PASS_CONTRACT(new_size < old_size, G_shrinks);

unsigned long in_size_o, in_tgt_o, in_next_o, in_retarget;
void h_retarget(void)
{
	VIN(unsigned long, in_size_o); VIN(unsigned long, in_tgt_o); VIN(unsigned long, in_next_o); VIN(unsigned long, in_retarget);
	VERIF_REQUIRE(in_size_o <= 62 && in_tgt_o <= 62 && in_next_o <= 62);
	HT.max_nr_buckets = 1UL << 62; HT.size = 1UL << in_size_o; HT.resize_target = 1UL << in_tgt_o; G_next_target = 1UL << in_next_o;
	G_want_retarget = in_retarget & 1; HT.in_progress_destroy = 0; HT.resize_initiated = 1;
	G_passes = G_retargets = G_bad_start = G_grows = G_shrinks = 0;
	_do_cds_lfht_resize(&HT);
	VERIF_ASSERT(!G_bad_start, "resize loop: EVERY pass starts from the table's current size and the current target, in the right direction (a pass that re-uses the size sampled before an earlier pass re-allocates bucket orders that are already live, or unlinks orders that are gone)");
	VERIF_ASSERT(HT.size == HT.resize_target, "resize loop: ends with the size equal to the LATEST target");
	VERIF_ASSERT(G_passes <= 2 && HT.resize_initiated == 0, "resize loop: one pass per target value; resize_initiated cleared");
	VERIF_COVER(G_grows == 2); VERIF_COVER(G_grows == 1 && G_shrinks == 1); VERIF_COVER(G_passes == 1 && G_retargets == 1); VERIF_COVER(G_passes == 0);
}
#ifdef VERIF_NATIVE
int main(void) { VERIF_ENTRY(); printf("REPLAY-PASS\n"); return 0; }
#endif
