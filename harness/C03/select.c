/*
 * C03.O3 - which helper a callback goes to, and the public call_rcu() wrapper (src/urcu-call-rcu-impl.h, memb TU):
 *  - get_cpu_call_rcu_data(cpu): NULL without a per-CPU table or for a CPU number outside [0, cpus_array_len), else
 *    exactly that table entry - never an access outside the table (for EVERY int cpu);
 *  - set_cpu_call_rcu_data: -EINVAL outside the range, -EEXIST over an occupied entry (unless clearing), else stores
 *    exactly that entry; nothing else written; call_rcu_mutex released on every path;
 *  - get_call_rcu_data(): the thread's own helper first, then the helper of the CPU it runs on, then the default
 *    helper, which is created (once, with its thread) if it does not exist yet;
 *  - call_rcu(): the helper is selected AND the callback enqueued inside one read-side critical section of the caller
 *    (a per-CPU helper cannot be freed in between), one enqueue on exactly the selected helper, reader nesting restored.
 */
#include <verif/verif.h>
#define OS_LOCK_HOOKS
#define OS_CREATE_HOOK
#include <verif/os_stubs.h>
#define RCU_MEMBARRIER
#define HAVE_SYSCONF 1
#define HAVE_SCHED_GETCPU 1
#include <verif/flavor_pre.h>
static void evt(int kind, void *addr, int mo, unsigned long val);
#define VERIF_EVT(kind, addr, mo, val) evt((kind), (void *)(addr), (int)(mo), (unsigned long)(val))
#include <verif/atomics_seq.h>
int G_cpu;
int sched_getcpu(void) { return G_cpu; }
#define fprintf(...) (0)
#include "urcu.c"
#undef fprintf
/* the number of possible CPUs comes from sysfs / sysconf: any value (not reached when the table length is already known) */
static inline int get_possible_cpus_array_len(void) __CPROVER_assigns() __CPROVER_ensures(__CPROVER_return_value >= -1 && __CPROVER_return_value <= 3);

static void os_lock_hook(pthread_mutex_t *m) { (void) m; }
static void os_unlock_hook(pthread_mutex_t *m) { (void) m; }
void *G_created_fn, *G_created_arg;
static void os_create_hook(void *(*fn)(void *), void *arg) { G_created_fn = (void *) fn; G_created_arg = arg; }
struct call_rcu_data CT, CC[3], CD;		/* thread's helper, per-CPU helpers, default helper */
struct call_rcu_data *TBL[3];
unsigned long G_xchg, G_nest_at_xchg; void *G_xchg_addr;
unsigned long G_gp, G_unpub_gp[3], G_freed[3], G_free_bad;
static void evt(int kind, void *addr, int mo, unsigned long val)
{
	unsigned long k;
	(void) mo;
	for (k = 0; k < 3; k++) if (kind == EV_STORE && addr == (void *) &TBL[k] && val == 0) G_unpub_gp[k] = G_gp;	/* helper k unpublished now */
	if (kind == EV_XCHG) { G_xchg++; G_xchg_addr = addr; G_nest_at_xchg = URCU_TLS(rcu_reader).ctr & URCU_GP_CTR_NEST_MASK; }
}
static void q_init(struct call_rcu_data *c) { memset(c, 0, sizeof(*c)); cds_wfcq_init(&c->cbs_head, &c->cbs_tail); }

unsigned long in_len, in_cpu, in_have_tbl, in_occ, in_thread, in_default, in_clear, in_word;
static unsigned long L;
static void mk(void)
{
	unsigned long k;
	VIN(unsigned long, in_len); VIN(unsigned long, in_cpu); VIN(unsigned long, in_have_tbl); VIN(unsigned long, in_occ); VIN(unsigned long, in_thread); VIN(unsigned long, in_default); VIN(unsigned long, in_clear);
	L = in_len % 4;						/* 0..3 possible CPUs */
	q_init(&CT); q_init(&CD); for (k = 0; k < 3; k++) { q_init(&CC[k]); TBL[k] = ((in_occ >> k) & 1) ? &CC[k] : 0; }
	cpus_array_len = (long) L;
	per_cpu_call_rcu_data = ((in_have_tbl & 1) && L) ? &TBL[0] : (struct call_rcu_data **) 0;
	G_cpu = (int) in_cpu;					/* ANY int: sched_getcpu may fail (-1) or exceed the table */
	URCU_TLS(thread_call_rcu_data) = (in_thread & 1) ? &CT : 0;
	default_call_rcu_data = (in_default & 1) ? &CD : 0;
	CDS_INIT_LIST_HEAD(&call_rcu_data_list);
	G_os_thread_created = 0; G_xchg = 0;
}
#define IN_RANGE (G_cpu >= 0 && (unsigned long) G_cpu < L)
#define CPU_ENTRY ((per_cpu_call_rcu_data && IN_RANGE) ? TBL[G_cpu] : (struct call_rcu_data *) 0)

void h_get_cpu(void)
{
	struct call_rcu_data *r;
	mk();
	r = get_cpu_call_rcu_data(G_cpu);
	VERIF_ASSERT(r == CPU_ENTRY, "get_cpu_call_rcu_data: NULL without a table or outside [0, cpus_array_len), else exactly that entry");
	VERIF_COVER(r != 0); VERIF_COVER(G_cpu < 0); VERIF_COVER(per_cpu_call_rcu_data && G_cpu >= 0 && (unsigned long) G_cpu >= L);
}
void h_set_cpu(void)
{
	int r; struct call_rcu_data *newc, *old[3]; unsigned long k;
	mk(); VERIF_REQUIRE(L >= 1); per_cpu_call_rcu_data = (in_have_tbl & 1) ? &TBL[0] : (struct call_rcu_data **) 0;
	newc = (in_clear & 1) ? 0 : &CT;
	for (k = 0; k < 3; k++) old[k] = TBL[k];
	r = set_cpu_call_rcu_data(G_cpu, newc);
	VERIF_ASSERT(G_os_locks_held == 0, "set_cpu_call_rcu_data: call_rcu_mutex released on every path");
	if (!IN_RANGE) VERIF_ASSERT(r == -EINVAL, "set_cpu_call_rcu_data: CPU number outside the table => -EINVAL");
	else if (!per_cpu_call_rcu_data) VERIF_ASSERT(r == -ENOMEM, "set_cpu_call_rcu_data: no table => -ENOMEM");
	else if (old[G_cpu] != 0 && newc != 0) VERIF_ASSERT(r == -EEXIST && TBL[G_cpu] == old[G_cpu], "set_cpu_call_rcu_data: occupied entry is not overwritten (-EEXIST)");
	else VERIF_ASSERT(r == 0 && TBL[G_cpu] == newc, "set_cpu_call_rcu_data: entry set / cleared");
	for (k = 0; k < 3; k++) if (!(IN_RANGE && k == (unsigned long) G_cpu)) VERIF_ASSERT(TBL[k] == old[k], "set_cpu_call_rcu_data: no other entry touched");
	VERIF_COVER(r == 0 && newc == 0); VERIF_COVER(r == -EEXIST); VERIF_COVER(r == -EINVAL && G_cpu > 2);
}
void h_get_call_rcu_data(void)
{
	struct call_rcu_data *r;
	mk();
	r = get_call_rcu_data();
	VERIF_ASSERT(URCU_TLS(thread_call_rcu_data) == ((in_thread & 1) ? &CT : (struct call_rcu_data *) 0) && TBL[0] == (((in_occ >> 0) & 1) ? &CC[0] : (struct call_rcu_data *) 0) && TBL[1] == (((in_occ >> 1) & 1) ? &CC[1] : (struct call_rcu_data *) 0) && TBL[2] == (((in_occ >> 2) & 1) ? &CC[2] : (struct call_rcu_data *) 0),
		     "get_call_rcu_data: a pure selection - the thread's helper pointer and the per-CPU table are left as they are (a cached per-CPU helper would outlive free_all_cpu_call_rcu_data)");
	if (in_thread & 1) VERIF_ASSERT(r == &CT, "get_call_rcu_data: the thread's own helper has first priority");
	else if (L > 0 && CPU_ENTRY) VERIF_ASSERT(r == CPU_ENTRY, "get_call_rcu_data: then the helper of the CPU the thread runs on");
	else if (in_default & 1) VERIF_ASSERT(r == &CD && G_os_thread_created == 0, "get_call_rcu_data: then the existing default helper");
	else VERIF_ASSERT(r != 0 && r == default_call_rcu_data && G_os_thread_created == 1 && G_created_fn == (void *) call_rcu_thread && G_created_arg == (void *) r && call_rcu_data_list.next == &r->list && G_os_locks_held == 0,
			  "get_call_rcu_data: a missing default helper is created once, with its own thread, and listed");
	VERIF_COVER((in_thread & 1)); VERIF_COVER(!(in_thread & 1) && CPU_ENTRY != 0 && r == CPU_ENTRY); VERIF_COVER(G_os_thread_created == 1); VERIF_COVER(!(in_thread & 1) && G_cpu < 0 && r == &CD);
}
struct rcu_head HD;
static void cb(struct rcu_head *h) { (void) h; }
void h_call_rcu_public(void)
{
	struct call_rcu_data *exp; unsigned long w0;
	mk(); VIN(unsigned long, in_word);
	VERIF_REQUIRE((in_default & 1));				/* default exists (creation is h_get_call_rcu_data's subject) */
	w0 = in_word & (URCU_GP_CTR_NEST_MASK >> 1);			/* caller possibly already inside a critical section */
	URCU_TLS(rcu_reader).ctr = w0 ? (w0 | (rcu_gp.ctr & URCU_GP_CTR_PHASE)) : 0; URCU_TLS(rcu_reader).registered = 1;
	exp = (in_thread & 1) ? &CT : ((L > 0 && CPU_ENTRY) ? CPU_ENTRY : &CD);
	G_os_futex_ret = 0;
	call_rcu(&HD, cb);
	VERIF_ASSERT(G_xchg == 1 && G_xchg_addr == (void *) &exp->cbs_tail.p && exp->cbs_tail.p == &HD.next && exp->qlen == 1 && HD.func == cb, "call_rcu: exactly one enqueue, on exactly the helper get_call_rcu_data selects");
	VERIF_ASSERT(G_nest_at_xchg >= 1, "call_rcu: the helper is selected and the callback enqueued INSIDE a read-side critical section of the caller");
	VERIF_ASSERT((URCU_TLS(rcu_reader).ctr & URCU_GP_CTR_NEST_MASK) == w0, "call_rcu: reader nesting restored");
	VERIF_COVER(exp == &CD && w0 == 0); VERIF_COVER(exp != &CD && exp != &CT && w0 > 0);
}

/* ---- free_all_cpu_call_rcu_data: unpublish ALL per-CPU helpers, ONE grace period, then free them ---------------- */
#ifdef FREE_ALL
void urcu_memb_synchronize_rcu(void) __CPROVER_requires(1) __CPROVER_assigns(G_gp) __CPROVER_ensures(G_gp == __CPROVER_old(G_gp) + 1);
#define IDX_OF(c) ((c) == &CC[0] ? 0UL : ((c) == &CC[1] ? 1UL : ((c) == &CC[2] ? 2UL : 3UL)))
/* a helper may be freed only when (a) it is no longer reachable through the per-CPU table and (b) a grace period has
 * elapsed SINCE it was unpublished: call_rcu() looks the helper up and enqueues on it inside one read-side critical
 * section (C03.O3.call_rcu_public), so only such a grace period guarantees that nobody is still about to enqueue on it */
void urcu_memb_call_rcu_data_free(struct call_rcu_data *crdp)
__CPROVER_requires(IDX_OF(crdp) < 3)
__CPROVER_assigns(G_freed[0], G_freed[1], G_freed[2], G_free_bad)
__CPROVER_ensures(G_freed[0] == __CPROVER_old(G_freed[0]) + (crdp == &CC[0] ? 1UL : 0UL) && G_freed[1] == __CPROVER_old(G_freed[1]) + (crdp == &CC[1] ? 1UL : 0UL) && G_freed[2] == __CPROVER_old(G_freed[2]) + (crdp == &CC[2] ? 1UL : 0UL))
__CPROVER_ensures(G_free_bad == ((TBL[0] != crdp && TBL[1] != crdp && TBL[2] != crdp && G_gp > G_unpub_gp[IDX_OF(crdp)]) ? __CPROVER_old(G_free_bad) : 1UL))
;
void h_free_all(void)
{
	unsigned long k, occ[3];
	mk(); VERIF_REQUIRE(L >= 1); per_cpu_call_rcu_data = &TBL[0];
	for (k = 0; k < 3; k++) { occ[k] = (k < L && TBL[k] != 0); G_freed[k] = 0; G_unpub_gp[k] = ~0UL; }
	G_gp = 10; G_free_bad = 0;
	free_all_cpu_call_rcu_data();
	for (k = 0; k < 3; k++) {
		VERIF_ASSERT(G_freed[k] == occ[k], "free_all_cpu_call_rcu_data: every per-CPU helper is freed exactly once, nothing else");
		VERIF_ASSERT(k >= L || TBL[k] == 0, "free_all_cpu_call_rcu_data: every per-CPU entry is cleared");
	}
	VERIF_ASSERT(!G_free_bad, "free_all_cpu_call_rcu_data: a helper is freed only after it was unpublished AND a grace period elapsed since (a call_rcu() that already looked it up has finished its enqueue)");
	VERIF_ASSERT(G_os_locks_held == 0, "free_all_cpu_call_rcu_data: mutex released");
	VERIF_COVER(L == 3 && occ[0] && occ[2] && !occ[1]); VERIF_COVER(L == 2 && !occ[0] && !occ[1]);
}
#endif
