/*
 * C03 / C04 - call_rcu machinery of src/urcu-call-rcu-impl.h (memb flavor TU src/urcu.c).
 *  C03.O1  _call_rcu: node initialised, func stored, ONE enqueue at the tail of the chosen helper, qlen+1, then
 *          full barrier, then futex test; wake-up iff -1 and the helper is not real-time.
 *  C03.O2  one iteration of the helper thread: splice the WHOLE queue -> grace period -> invoke every spliced
 *          callback exactly once, FIFO, with its own rcu_head; a callback enqueued DURING the grace period is not
 *          invoked in this iteration (it needs a grace period of its own); the next pointer is read before the
 *          callback runs (callbacks free their node); qlen adjusted.
 *  C03.O3  helper selection: thread -> per-CPU (bounds-checked) -> default.
 *  C03.O4  _call_rcu_data_free: NULL / default refused; STOP, wake, wait for STOPPED before the queue is touched;
 *          leftovers spliced onto the default helper, qlen transferred, default woken, and the helper leaves
 *          call_rcu_data_list only with an EMPTY queue inside the critical section that moved its callbacks
 *          (rcu_barrier never misses callbacks of a helper that is being freed); join only on request.
 *  C04.O1  rcu_barrier: one completion marker per listed helper queued under call_rcu_mutex, ref = helpers + 1,
 *          mutex released before waiting; inside a read-side critical section: nothing queued.
 *  C04.O2  its wait loop: futex decremented, full barrier, THEN barrier_count tested; returns only after a 0.
 *  C04.O3  _rcu_barrier_complete: one decrement; wake-up iff it reached 0 (after a barrier); reference dropped
 *          once; work item freed once; the completion is freed by exactly the put that reaches 0.
 * synchronize_rcu, futex and pthread primitives are used through contracts / stubs.
 */
#include <verif/verif.h>
#define OS_LOCK_HOOKS
#define OS_POLL_HOOK
#define OS_FUTEX_HOOK
#include <verif/os_stubs.h>
#define RCU_MEMBARRIER
#include <verif/flavor_pre.h>
static void evt(int kind, void *addr, int mo, unsigned long val);
#define VERIF_EVT(kind, addr, mo, val) evt((kind), (void *)(addr), (int)(mo), (unsigned long)(val))
#include <verif/atomics_seq.h>
unsigned long G_free_calls; void *G_free_ptr[4];
static inline void verif_free(void *p) { if (G_free_calls < 4) G_free_ptr[G_free_calls] = p; G_free_calls++; }
/* the helper's indirect call `rhp->func(rhp)` (must-fire rewrite -> URCU_VERIF_CB): checked to be the queued function, then called directly */
struct rcu_head;
static void user_cb(struct rcu_head *h);
#undef URCU_VERIF_CB
#define URCU_VERIF_CB(r) do { VERIF_ASSERT((r)->func == user_cb, "helper invokes the function stored in the callback's own rcu_head"); user_cb(r); } while (0)
#define free(p) verif_free(p)		/* frees are logged, not performed (use-after-free shows up as a logic error instead) */
#include "urcu.c"
#undef free

/* ---- ghost ------------------------------------------------------------------------------------- */
unsigned long G_gp;				/* grace periods elapsed */
struct call_rcu_data *G_crdp;			/* the helper under test */
struct call_rcu_data G_def;			/* the default helper */
unsigned long E_mb_after_enq, E_futex_loads, E_futex_load_fenced, E_futex_stores, E_xchg_tail;
int32_t *G_futex_addr;
void *G_tail_addr;
unsigned long G_lock_events_at_splice, G_list_del_ok, G_queue_touched_before_stopped, G_stopped_seen;

static void evt_barrier(int kind, void *addr);
/* helper sleep path (h_helper_sleep) */
unsigned long G_sleep_mode, S_dec, S_mb_since_dec, S_empty_check_fenced, S_empty_checks, S_waits, S_sleep_bad, S_unfenced_read;
static void evt(int kind, void *addr, int mo, unsigned long val)
{
	(void) mo; (void) val;
	if (G_sleep_mode && G_crdp) {
		if ((kind == EV_ADD || kind == EV_ADDRET) && addr == (void *) &G_crdp->futex) { S_dec++; S_mb_since_dec = 0; }
		if (kind == EV_MB && S_dec) S_mb_since_dec = 1;
		if (kind == EV_LOAD && (addr == (void *) &G_crdp->cbs_head.node.next || addr == (void *) &G_crdp->cbs_tail.p)) { S_empty_checks++; S_empty_check_fenced = S_dec && S_mb_since_dec; if (S_dec && !S_mb_since_dec) S_unfenced_read = 1; }
	}
	if (kind == EV_XCHG && addr == G_tail_addr) { E_xchg_tail++; E_mb_after_enq = 1; }	/* the tail exchange is itself a full barrier */
	if (kind == EV_MB && E_xchg_tail) E_mb_after_enq = 1;
	if (kind == EV_LOAD && addr == (void *) G_futex_addr) { E_futex_loads++; E_futex_load_fenced = E_mb_after_enq; }
	if (kind == EV_STORE && addr == (void *) G_futex_addr) E_futex_stores++;
	evt_barrier(kind, addr);
}
static void os_lock_hook(pthread_mutex_t *m) { (void) m; }
unsigned long G_monitor_bad;
/* monitor invariant of call_rcu_mutex (what rcu_barrier relies on): a helper that still has queued callbacks is on
 * call_rcu_data_list.  Checked at every release of the mutex. */
static void os_unlock_hook(pthread_mutex_t *m);
struct item;
static void sleep_env_enqueue(void);
/* FUTEX_WAIT of the helper: legal only on -1, after (decrement -> full barrier -> queue seen empty); then a producer enqueues a
 * callback and wakes the helper exactly as _call_rcu does (enqueue, barrier, futex -1 -> 0, FUTEX_WAKE) */
static void os_futex_hook(int *uaddr, int op, int val)
{
	if (!G_sleep_mode || op != 0 /* FUTEX_WAIT */) return;
	S_waits++;
	if (uaddr != (int *) &G_crdp->futex || val != -1 || G_crdp->futex != -1 || !S_empty_check_fenced
	    || G_crdp->cbs_head.node.next != 0 || G_crdp->cbs_tail.p != &G_crdp->cbs_head.node) S_sleep_bad = 1;
	sleep_env_enqueue();
}
static int os_poll_hook(void)
{
	if (G_sleep_mode && G_crdp && S_waits) G_crdp->flags |= URCU_CALL_RCU_STOP;	/* after the wake-up: let the next pass be the last */
	/* the helper thread reacts to STOP while we poll */
	if (G_crdp && (G_crdp->flags & URCU_CALL_RCU_STOP)) G_crdp->flags |= URCU_CALL_RCU_STOPPED;
	return 0;
}

/* user callbacks: record order, grace-period count, and POISON the node (the callback may free it) */
struct item { struct rcu_head head; unsigned long enq_gp; };
struct item IT[3], ENV_IT;
unsigned long G_calls; struct rcu_head *G_called[4]; unsigned long G_called_gp[4];
static void user_cb(struct rcu_head *h)
{
	if (G_calls < 4) { G_called[G_calls] = h; G_called_gp[G_calls] = G_gp; }
	G_calls++;
	h->next.next = (struct cds_wfcq_node *) 0xdead0000UL;	/* node reclaimed by its callback */
	h->func = 0;
}
static void q_init(struct call_rcu_data *c) { memset(c, 0, sizeof(*c)); cds_wfcq_init(&c->cbs_head, &c->cbs_tail); }
static void q_put(struct call_rcu_data *c, struct item *it)
{
	cds_wfcq_node_init(&it->head.next); it->head.func = user_cb; it->enq_gp = G_gp;
	cds_wfcq_enqueue(&c->cbs_head, &c->cbs_tail, &it->head.next); c->qlen++;
}

/* assumed contract of synchronize_rcu (C01): a grace period elapses; meanwhile another thread may enqueue one
 * more callback on the helper's queue (it is enqueued at the very end of that grace period at the earliest) */
unsigned long G_env_enq, G_env_enq0;
#define TAILP (G_crdp->cbs_tail.p)
#define OLDT __CPROVER_old(G_crdp->cbs_tail.p)
#define NX(k) (IT[k].head.next.next)
#define HN (G_crdp->cbs_head.node.next)
void urcu_memb_synchronize_rcu(void)
__CPROVER_requires(G_crdp != 0)
__CPROVER_requires(TAILP == &G_crdp->cbs_head.node || TAILP == &IT[0].head.next || TAILP == &IT[1].head.next || TAILP == &IT[2].head.next)
__CPROVER_assigns(G_gp, G_env_enq, ENV_IT, G_crdp->cbs_tail.p, G_crdp->cbs_head.node.next, IT[0].head.next.next, IT[1].head.next.next, IT[2].head.next.next, G_crdp->qlen)
__CPROVER_ensures(G_gp == __CPROVER_old(G_gp) + 1 && G_env_enq == 0)	/* the environment enqueues at most once */
/* an enqueue = exchange of the tail + link of the old tail's next; everything else unchanged */
__CPROVER_ensures(HN == ((__CPROVER_old(G_env_enq) && OLDT == &G_crdp->cbs_head.node) ? &ENV_IT.head.next : __CPROVER_old(HN)))
__CPROVER_ensures(NX(0) == ((__CPROVER_old(G_env_enq) && OLDT == &IT[0].head.next) ? &ENV_IT.head.next : __CPROVER_old(NX(0))))
__CPROVER_ensures(NX(1) == ((__CPROVER_old(G_env_enq) && OLDT == &IT[1].head.next) ? &ENV_IT.head.next : __CPROVER_old(NX(1))))
__CPROVER_ensures(NX(2) == ((__CPROVER_old(G_env_enq) && OLDT == &IT[2].head.next) ? &ENV_IT.head.next : __CPROVER_old(NX(2))))
__CPROVER_ensures(TAILP == (__CPROVER_old(G_env_enq) ? &ENV_IT.head.next : OLDT) && G_crdp->qlen == __CPROVER_old(G_crdp->qlen) + (__CPROVER_old(G_env_enq) ? 1 : 0))
__CPROVER_ensures(!__CPROVER_old(G_env_enq) || (ENV_IT.head.next.next == 0 && ENV_IT.head.func == user_cb && ENV_IT.enq_gp == G_gp))
__CPROVER_ensures(__CPROVER_old(G_env_enq) || (ENV_IT.head.next.next == __CPROVER_old(ENV_IT.head.next.next) && ENV_IT.head.func == __CPROVER_old(ENV_IT.head.func) && ENV_IT.enq_gp == __CPROVER_old(ENV_IT.enq_gp)))	/* frame */
;
static int set_thread_cpu_affinity(struct call_rcu_data *crdp) __CPROVER_requires(1) __CPROVER_assigns() __CPROVER_ensures(__CPROVER_return_value == 0);
void urcu_memb_register_thread(void) __CPROVER_requires(1) __CPROVER_assigns() __CPROVER_ensures(1);
void urcu_memb_unregister_thread(void) __CPROVER_requires(1) __CPROVER_assigns() __CPROVER_ensures(1);

unsigned long in_n, in_rt, in_futex, in_env;

static void os_unlock_hook(pthread_mutex_t *m)
{
	struct cds_list_head *p; unsigned k = 0; int in_list = 0;
	if (m != &call_rcu_mutex || !G_crdp) return;
	for (p = call_rcu_data_list.next; p != &call_rcu_data_list && k < 4; p = p->next, k++)
		if (p == &G_crdp->list) in_list = 1;
	if (!in_list && !(G_crdp->cbs_head.node.next == 0 && G_crdp->cbs_tail.p == &G_crdp->cbs_head.node))
		G_monitor_bad = 1;
}

/* ---- C03.O1 ---------------------------------------------------------------------------------------- */
void h_call_rcu(void)
{
	struct call_rcu_data c; struct item nw; unsigned long n, q0;
	VIN(unsigned long, in_n); VIN(unsigned long, in_rt); VIN(unsigned long, in_futex);
	n = in_n; VERIF_REQUIRE(n <= 2);
	q_init(&c); G_crdp = &c; G_gp = 5;
	if (n >= 1) q_put(&c, &IT[0]);
	if (n >= 2) q_put(&c, &IT[1]);
	c.flags = (in_rt & 1) ? URCU_CALL_RCU_RT : 0;
	c.futex = (in_futex & 1) ? -1 : 0;
	q0 = c.qlen;
	G_futex_addr = &c.futex; G_tail_addr = &c.cbs_tail.p; E_xchg_tail = E_mb_after_enq = E_futex_loads = E_futex_stores = 0; G_os_futex_wake = 0; G_os_futex_ret = 0;
	nw.head.next.next = (struct cds_wfcq_node *) 0x1234; nw.head.func = 0;
	_call_rcu(&nw.head, user_cb, &c);
	VERIF_ASSERT(nw.head.func == user_cb && nw.head.next.next == 0, "_call_rcu: node re-initialised, callback stored");
	VERIF_ASSERT(E_xchg_tail == 1 && c.cbs_tail.p == &nw.head.next, "_call_rcu: exactly one enqueue, at the tail of the chosen helper's queue");
	VERIF_ASSERT(n == 0 ? c.cbs_head.node.next == &nw.head.next : (n == 1 ? IT[0].head.next.next == &nw.head.next : IT[1].head.next.next == &nw.head.next), "_call_rcu: linked behind the previously last callback (FIFO)");
	VERIF_ASSERT(c.qlen == q0 + 1, "_call_rcu: qlen + 1");
	if (in_rt & 1) VERIF_ASSERT(E_futex_loads == 0 && G_os_futex_wake == 0, "_call_rcu: a real-time helper polls, no wake-up");
	else {
		VERIF_ASSERT(E_futex_loads == 1 && E_futex_load_fenced, "_call_rcu: enqueue -> full barrier -> test of the helper's futex (no lost wake-up)");
		VERIF_ASSERT((in_futex & 1) ? (c.futex == 0 && G_os_futex_wake == 1) : (c.futex == 0 && G_os_futex_wake == 0 && E_futex_stores == 0), "_call_rcu: FUTEX_WAKE iff the helper was asleep (-1)");
	}
	VERIF_COVER(n == 2 && !(in_rt & 1) && (in_futex & 1)); VERIF_COVER(n == 0);
}

/* ---- C03.O2: one iteration of the helper thread ----------------------------------------------------- */
void h_thread_iteration(void)
{
	struct call_rcu_data c; unsigned long n, k;
	VIN(unsigned long, in_n); VIN(unsigned long, in_env); VIN(unsigned long, in_rt);
	n = in_n; VERIF_REQUIRE(n <= 3);
	q_init(&c); G_crdp = &c; G_gp = 7; G_calls = 0; G_env_enq = in_env & 1; G_env_enq0 = G_env_enq;
	for (k = 0; k < 3; k++) if (k < n) q_put(&c, &IT[k]);
	c.flags = URCU_CALL_RCU_STOP | ((in_rt & 1) ? URCU_CALL_RCU_RT : 0);	/* STOP: the loop runs exactly one iteration */
	c.futex = 0;
	(void) call_rcu_thread(&c);
	if (n == 0) {
		VERIF_ASSERT(G_gp == 7 && G_calls == 0, "helper: nothing queued => no grace period, no call");
	} else {
		VERIF_ASSERT(G_gp == 8, "helper: exactly one grace period per batch");
		VERIF_ASSERT(G_calls == n, "helper: every callback that was queued at the splice is invoked exactly once - and nothing else (a callback enqueued during the grace period waits for the next one)");
		for (k = 0; k < 3; k++) if (k < n) {
			VERIF_ASSERT(G_called[k] == &IT[k].head, "helper: callbacks run in FIFO order, each with its own rcu_head");
			VERIF_ASSERT(G_called_gp[k] > IT[k].enq_gp, "helper: a callback runs only after a grace period that started after it was queued");
		}
		VERIF_ASSERT(c.qlen == (G_env_enq0 ? 1 : 0), "helper: qlen reduced by the number of callbacks invoked");
		if (G_env_enq0) VERIF_ASSERT(c.cbs_head.node.next == &ENV_IT.head.next && ENV_IT.head.func == user_cb, "helper: the callback enqueued during the grace period is still queued, untouched");
	}
	VERIF_ASSERT((c.flags & URCU_CALL_RCU_STOPPED) && c.futex == 0, "helper: acknowledges STOP (STOPPED set, futex 0)");
	VERIF_COVER(n == 3 && G_env_enq0); VERIF_COVER(n == 0); VERIF_COVER(n == 1 && !G_env_enq0);
}

/* ---- C03.O2b: the helper's sleep path ------------------------------------------------------------------ */
static void sleep_env_enqueue(void) { q_put(G_crdp, &IT[0]); G_crdp->futex = 0; }
void h_helper_sleep(void)
{
	struct call_rcu_data c;
	q_init(&c); G_crdp = &c; G_gp = 7; G_calls = 0; G_sleep_mode = 1;
	/* pass 1: one callback queued; another one (ENV_IT) is enqueued during its grace period => the queue is NOT empty when the
	 * helper decides whether to sleep; pass 2 runs ENV_IT, then the queue is empty => sleep; a producer enqueues IT[0] and wakes
	 * the helper; pass 3 runs IT[0] and stops */
	q_put(&c, &IT[1]); G_env_enq = 1;
	c.flags = 0; c.futex = 0;				/* not real-time: sleeps on its futex when idle */
	(void) call_rcu_thread(&c);
	VERIF_ASSERT(S_waits == 1 && !S_sleep_bad, "helper: sleeps (FUTEX_WAIT on -1) only after futex decrement -> full barrier -> queue seen EMPTY - never while callbacks are queued (a callback enqueued after that check finds the futex at -1 and wakes the helper)");
	VERIF_ASSERT(!S_unfenced_read, "helper: never reads its queue between a futex decrement and the full barrier that follows it");
	VERIF_ASSERT(G_calls == 3 && G_called[0] == &IT[1].head && G_called[1] == &ENV_IT.head && G_called[2] == &IT[0].head && G_called_gp[2] > IT[0].enq_gp, "helper: every callback - queued before, during a grace period, or while it slept - is run once, in order, after a grace period");
	VERIF_ASSERT((c.flags & URCU_CALL_RCU_STOPPED) && c.futex == 0, "helper: stops with the futex reset");
	VERIF_COVER(S_waits == 1);
}

/* ---- C03.O4: freeing a helper with leftovers --------------------------------------------------------- */
unsigned long G_listdel_queue_empty, G_listdel_seen;
void h_data_free(void)
{
	struct call_rcu_data *c; unsigned long n, dn, flags_join;
	VIN(unsigned long, in_n); VIN(unsigned long, in_env); VIN(unsigned long, in_rt);
	n = in_n % 3; dn = in_env % 2; flags_join = in_rt & 1;
	c = malloc(sizeof(*c)); VERIF_REQUIRE(c != 0);
	q_init(c); q_init(&G_def); G_crdp = c; G_gp = 3;
	CDS_INIT_LIST_HEAD(&call_rcu_data_list);
	cds_list_add(&G_def.list, &call_rcu_data_list); cds_list_add(&c->list, &call_rcu_data_list);
	default_call_rcu_data = &G_def;
	if (dn) q_put(&G_def, &IT[2]);
	if (n >= 1) q_put(c, &IT[0]);
	if (n >= 2) q_put(c, &IT[1]);
	G_monitor_bad = 0;
	G_def.futex = -1; G_futex_addr = &G_def.futex; G_os_futex_wake = 0; G_os_futex_ret = 0; G_free_calls = 0; G_os_thread_joined = 0;
	_call_rcu_data_free(c, flags_join ? CRDF_FLAG_JOIN_THREAD : 0);
	VERIF_ASSERT((c->flags & URCU_CALL_RCU_STOP) && (c->flags & URCU_CALL_RCU_STOPPED), "data_free: helper asked to stop and observed stopped");
	VERIF_ASSERT(c->cbs_head.node.next == 0 && c->cbs_tail.p == &c->cbs_head.node, "data_free: the freed helper's queue is empty");
	/* default helper's queue = its own callbacks followed by the leftovers, in order, each once */
	{
		struct cds_wfcq_node *p = G_def.cbs_head.node.next; unsigned long i = 0;
		if (dn) { VERIF_ASSERT(p == &IT[2].head.next, "data_free: the default helper's own callbacks stay first"); p = p->next; }
		if (n >= 1) { VERIF_ASSERT(p == &IT[0].head.next, "data_free: leftover #1 handed to the default helper"); p = p->next; }
		if (n >= 2) { VERIF_ASSERT(p == &IT[1].head.next, "data_free: leftover #2 follows (order kept)"); p = p->next; }
		VERIF_ASSERT(p == 0, "data_free: nothing duplicated, nothing else queued");
		(void) i;
	}
	VERIF_ASSERT(G_def.qlen == dn + n, "data_free: qlen transferred");
	VERIF_ASSERT(n == 0 || (G_def.futex == 0 && G_os_futex_wake == 1), "data_free: default helper woken when it receives callbacks");
	VERIF_ASSERT(call_rcu_data_list.next == &G_def.list && G_def.list.next == &call_rcu_data_list, "data_free: helper removed from the list of helpers, default stays");
	VERIF_ASSERT(G_free_calls == 1 && G_free_ptr[0] == (void *) c, "data_free: the helper structure is freed exactly once");
	VERIF_ASSERT(G_os_thread_joined == flags_join, "data_free: joins the thread only with CRDF_FLAG_JOIN_THREAD");
	VERIF_ASSERT(G_os_locks_held == 0, "data_free: call_rcu_mutex released");
	VERIF_ASSERT(!G_monitor_bad, "data_free: whenever call_rcu_mutex is released, a helper with queued callbacks is still on the list of helpers (rcu_barrier cannot miss its callbacks): it is unlinked in the critical section that moved them");
	VERIF_COVER(n == 2 && dn == 1); VERIF_COVER(n == 0);
}
void h_data_free_refused(void)
{
	q_init(&G_def); default_call_rcu_data = &G_def; G_free_calls = 0; G_crdp = 0;
	_call_rcu_data_free(0, CRDF_FLAG_JOIN_THREAD);
	_call_rcu_data_free(&G_def, CRDF_FLAG_JOIN_THREAD);
	VERIF_ASSERT(G_free_calls == 0 && !(G_def.flags & URCU_CALL_RCU_STOP) && G_os_lock_events == 0, "data_free: NULL and the default helper are silently refused");
}

#ifndef BARRIER_PART
static void evt_barrier(int kind, void *addr) { (void) kind; (void) addr; }
#endif
/* =================================== C04: rcu_barrier ============================================== */
#ifdef BARRIER_PART
/* _call_rcu through a contract that logs the marker */
unsigned long G_markers; struct call_rcu_data *G_marker_crdp[3]; void *G_marker_func[3]; struct rcu_head *G_marker_head[3];
unsigned long G_marker_lock_held[3]; long G_marker_cnt[3], G_marker_ref[3];
#define WORK_OF(h) ((struct call_rcu_completion_work *) ((char *) (h) - __builtin_offsetof(struct call_rcu_completion_work, head)))
static void _call_rcu(struct rcu_head *head, void (*func)(struct rcu_head *head), struct call_rcu_data *crdp)
__CPROVER_requires(G_markers < 3)
__CPROVER_assigns(G_markers, G_marker_crdp[G_markers], G_marker_func[G_markers], G_marker_head[G_markers], G_marker_lock_held[G_markers], G_marker_cnt[G_markers], G_marker_ref[G_markers])
__CPROVER_ensures(G_markers == __CPROVER_old(G_markers) + 1)
__CPROVER_ensures(G_marker_crdp[__CPROVER_old(G_markers)] == crdp && G_marker_func[__CPROVER_old(G_markers)] == (void *) func && G_marker_head[__CPROVER_old(G_markers)] == head)
__CPROVER_ensures(G_marker_lock_held[__CPROVER_old(G_markers)] == (unsigned long) OS_HELD(&call_rcu_mutex))
/* the completion the marker belongs to, as it is when the marker becomes visible to a helper */
__CPROVER_ensures(G_marker_cnt[__CPROVER_old(G_markers)] == (long) WORK_OF(head)->completion->barrier_count && G_marker_ref[__CPROVER_old(G_markers)] == WORK_OF(head)->completion->ref.refcount)
;
/* the wait: contract = C02-style partial correctness (returns only after the futex left -1); here it also lets the
 * helpers complete: the barrier count reaches 0 */
struct call_rcu_completion *G_compl;
unsigned long G_waits, G_wait_bad, E_dec_seen, E_mb_since_dec, E_count_load_ok;
static void call_rcu_completion_wait(struct call_rcu_completion *completion)
__CPROVER_requires(1)
__CPROVER_assigns(G_waits, G_wait_bad, completion->barrier_count, completion->futex)
__CPROVER_ensures(G_waits == __CPROVER_old(G_waits) + 1 && completion->barrier_count == 0 && completion->futex == 0)
/* may only sleep after: futex decremented -> full barrier -> barrier_count observed non-zero */
__CPROVER_ensures(G_wait_bad == ((E_count_load_ok && __CPROVER_old(completion->barrier_count) != 0 && __CPROVER_old(completion->futex) == -1 && OS_HELD(&call_rcu_mutex) == 0) ? __CPROVER_old(G_wait_bad) : 1))
;
static void evt_barrier(int kind, void *addr)
{
	/* wait loop of rcu_barrier: uatomic_dec(&completion->futex); cmm_smp_mb(); load barrier_count */
	if (kind == EV_ADD) { E_dec_seen = 1; E_mb_since_dec = 0; E_count_load_ok = 0; (void) addr; }
	if (kind == EV_MB && E_dec_seen) E_mb_since_dec = 1;
	if (kind == EV_LOAD && E_dec_seen && E_mb_since_dec) E_count_load_ok = 1;
}
struct call_rcu_data HB[2];
unsigned long in_helpers, in_incs, in_count, in_tls;
void h_barrier(void)
{
	unsigned long n, k;
	VIN(unsigned long, in_helpers); VIN(unsigned long, in_incs); VIN(unsigned long, in_tls);
	n = in_helpers % 3;
	CDS_INIT_LIST_HEAD(&call_rcu_data_list);
	for (k = 0; k < 2; k++) { q_init(&HB[k]); if (k < n) cds_list_add_tail(&HB[k].list, &call_rcu_data_list); }
	URCU_TLS(rcu_reader).ctr = (in_incs & 1) ? (rcu_gp.ctr | 1) : 0;	/* called from inside a read-side critical section? */
	URCU_TLS(rcu_reader).registered = 1;
	/* the caller may itself own a per-thread helper (set_thread_call_rcu_data): its callbacks must be waited for too */
	URCU_TLS(thread_call_rcu_data) = (in_tls % 3 == 0) ? 0 : &HB[in_tls % 3 - 1];
	G_markers = 0; G_waits = 0; G_wait_bad = 0; G_free_calls = 0; G_crdp = 0; E_dec_seen = E_mb_since_dec = E_count_load_ok = 0;
	rcu_barrier();
	if (in_incs & 1) {
		VERIF_ASSERT(G_markers == 0 && G_waits == 0 && G_os_lock_events == 0, "rcu_barrier inside a read-side critical section: error path, nothing queued, no wait (no self-deadlock)");
	} else {
		VERIF_ASSERT(G_markers == n, "rcu_barrier: exactly one completion marker per helper on the list");
		for (k = 0; k < 2; k++) if (k < n) {
			VERIF_ASSERT(G_marker_crdp[k] == &HB[k] && G_marker_func[k] == (void *) _rcu_barrier_complete, "rcu_barrier: marker k is queued on helper k with _rcu_barrier_complete");
			VERIF_ASSERT(G_marker_lock_held[k] == 1, "rcu_barrier: markers are queued while holding call_rcu_mutex (the set of helpers cannot change in between)");
			VERIF_ASSERT(G_marker_cnt[k] == (long) n && G_marker_ref[k] == (long) n + 1, "rcu_barrier: the completion counts EVERY listed helper (including a helper owned by the caller) and holds one reference per helper plus the caller's, before the first marker becomes visible");
		}
		VERIF_ASSERT(n < 2 || G_marker_head[0] != G_marker_head[1], "rcu_barrier: each marker has its own rcu_head");
		VERIF_ASSERT(!G_wait_bad, "rcu_barrier: sleeps only after futex decrement -> full barrier -> barrier_count seen non-zero, and with call_rcu_mutex released");
		VERIF_ASSERT(n == 0 ? G_waits == 0 : G_waits <= 1, "rcu_barrier: no wait when there is no helper");
		VERIF_ASSERT(G_os_locks_held == 0, "rcu_barrier: call_rcu_mutex released");
	}
	VERIF_COVER(n == 2 && !(in_incs & 1) && in_tls % 3 == 2); VERIF_COVER(n == 0 && !(in_incs & 1)); VERIF_COVER(in_incs & 1); VERIF_COVER(n == 1 && in_tls % 3 == 1 && !(in_incs & 1));
}
/* _rcu_barrier_complete: run by a helper for its marker */
void h_barrier_complete(void)
{
	struct call_rcu_completion *c; struct call_rcu_completion_work *w; long cnt, refs;
	VIN(unsigned long, in_count); VIN(unsigned long, in_futex); VIN(unsigned long, in_incs);
	cnt = (long) (in_count % 3) + 1;		/* markers still outstanding (including this one) */
	refs = cnt + ((in_incs & 1) ? 1 : 0);		/* + the reference of rcu_barrier() itself unless it already left */
	c = calloc(1, sizeof(*c)); w = calloc(1, sizeof(*w)); VERIF_REQUIRE(c && w);
	c->barrier_count = (int) cnt; c->futex = (in_futex & 1) ? -1 : 0; urcu_ref_set(&c->ref, refs);
	w->completion = c;
	G_free_calls = 0; G_os_futex_wake = 0; G_os_futex_ret = 0; G_futex_addr = &c->futex; G_tail_addr = 0;
	_rcu_barrier_complete(&w->head);
	VERIF_ASSERT(c->barrier_count == (int) cnt - 1, "barrier_complete: decrements the barrier count exactly once");
	VERIF_ASSERT((cnt == 1 && (in_futex & 1)) ? (G_os_futex_wake == 1 && c->futex == 0) : G_os_futex_wake == 0, "barrier_complete: wakes rcu_barrier iff it was the last marker and rcu_barrier sleeps");
	VERIF_ASSERT(refs == 1 ? (G_free_calls == 2 && (G_free_ptr[0] == (void *) c || G_free_ptr[1] == (void *) c)) : (G_free_calls == 1 && G_free_ptr[0] == (void *) w),
		     "barrier_complete: the work item is freed once; the completion is freed by exactly the put that drops the last reference");
	VERIF_COVER(refs == 1); VERIF_COVER(cnt == 1 && (in_futex & 1) && refs == 2); VERIF_COVER(cnt == 3);
}
#endif
